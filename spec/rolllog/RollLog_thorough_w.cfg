SPECIFICATION Spec
CONSTANTS
  Readers = {}
  AutoRef = {}
  Sizes = {1, 2}
  FileSizes = {1, 2, 4}
  TotalSizes = {1, 4, 8}
  MaxWrites = 5
  MaxTs = 2
  MaxDeletes = 1
  MaxReopens = 0
  MaxPosOps = 2
  Active = {"w"}
  Bin = FALSE
  Acts = {"write", "read", "readblock", "delete", "seek", "tell"}
  Defects = {}
VIEW view
INVARIANT TypeOK
INVARIANT OpenImpliesIdx
PROPERTY C13_ExactlyOnceInOrder
PROPERTY C13_Budget
PROPERTY C13_NewestKept
PROPERTY C13_NoOverwrite

"""C15 - passwords embedded in URIs never leave the filter in clear text.

Specification: spec/func/Redact.tla, an information-flow model: the path from the object handed to the constructor down
to the string that holds a credentialed URI (top container, key, nesting of list/tuple/dict/adict/FilterConfig, single
URI or comma list), the normalisation of that path per filter class, and the flows to the sinks (constructor log line,
VideoReader/VideoWriter log lines, meta.src, lineage START facets, other lineage events, logged exception text) with a
Mask node exactly where the code masks.  TLC proves `NoCleartextAtSink` for the intended design (Defects = {}) on every
case, exhibits a leaking case for each deviation of the code (Redact_def_*.cfg), and serialises one vector per
structural case with the status every sink must show ("absent" / "masked" / "clear") for the code as it stands.

Binding: every vector is instantiated (URI scheme class x user/password character class, unique secret tokens) as a
real configuration and run through the real filter class: `Filter.run()` for the base filter, Util, VideoIn and VideoOut
(vidgear's VideoGear/WriteGear and the MQ class are replaced by in-memory stand-ins, nothing touches a device or the
network), constructor + `init()` + `fini()` for the other built-in filters; a handler on the root logger, a capturing
OpenLineage client behind the real `OpenFilterLineage` emitter, and the frames handed to `MQ.send` are searched for the
secret.  The verdict is the property's own formula on the real observation: the password token occurs in no sink, and
where the URI is shown its host and path are still there.  The spec's prediction is only compared (drift).
"""
import io
import itertools
import json
import logging
import os
import re
import sys
import threading
import time
from concurrent.futures import ThreadPoolExecutor

from . import common
from .common import Report, run_tlc, tlc_emit_json, tlc_must_pass, SPEC, MachineryError

SINKS = ('constructor_log', 'reader_log', 'writer_log', 'meta_src', 'lineage_start', 'lineage_other', 'error_log')
RUN_CLASSES = ('Filter', 'Util', 'VideoIn', 'VideoOut')      # full Filter.run(); the others: __init__ + init() + fini()

SCHEMES = {'rtsp': ('rtsp',), 'https': ('https',), 'exotic': ('svn+ssh', 'x-y.z1'), 'upper': ('RTSP', 'HTTPS'),
           'short': ('s3', 'gs')}
# (user, password) templates per character class; {U}/{P} are the unique tokens.  Inside the property's domain: any
# character except unescaped '@' and whitespace (and no ':' in the user: the first ':' ends the user).
CHARS = {
    'plain':    ('{U}', '{P}'),
    'bang':     ('{U}!x', 'a!{P}!b'),
    'colon':    ('{U}', 'a:{P}:b'),
    'slash':    ('{U}/x', 'a/{P}/b'),
    'question': ('{U}?x', 'a?{P}?b'),
    'hash':     ('{U}#x', 'a#{P}#b'),
    'pct':      ('{U}%40x', 'a%40{P}%3A%20b'),
    'mixed':    ('{U}!/?#%21', 'a!:/?#{P}%40$&+=b'),
    # a long token as password (a JWT, an API key): the '@' that ends the credential lies 300 characters into the URI
    'long':     ('{U}', '{P}.eyJhbGciOiJIUzI1NiJ9.' + 'Ab3dEf9hJk2m' * 22 + '.{P}'),
}

_W = None   # per-process world (imports + stand-ins)


# ---------------------------------------------------------------------------------------------------------------------
# the world: real classes, stand-ins for devices / network

class _Capture(logging.Handler):
    def __init__(self):
        super().__init__(0)
        self.records = []
        self.fmt = logging.Formatter('%(message)s')

    def emit(self, record):
        try:
            text = self.fmt.format(record)      # message + exception text, as a file/console handler would write it
        except Exception as e:                  # a record that cannot be formatted is still a record
            text = f'<unformattable {record.msg!r} {record.args!r}: {e}>'
        self.records.append((record.name, record.levelno, text))


class _Client:
    """Stands where OpenLineageClient stands: receives the RunEvent objects the real emitter builds."""

    def __init__(self):
        self.events = []

    def emit(self, event):
        from openlineage.client.serde import Serde
        try:
            text = Serde.to_json(event)
        except Exception:
            text = repr(event)
        self.events.append((str(getattr(event, 'eventType', '')), text))


def world():
    """Import the code under test (once per process) and install the stand-ins."""
    global _W
    if _W is not None:
        return _W
    common.use_repo()
    import numpy as np
    with _quiet_stderr():
        import vidgear.gears as gears
        import openfilter.filter_runtime.filter as F
        from openfilter.filter_runtime.utils import adict
        from openfilter.filter_runtime.filters import video_in, video_out, image_in, image_out, mqtt_out, recorder, \
            rest, util, webvis
        from openfilter.observability.lineage import OpenFilterLineage
    W = type('World', (), {})()
    W.np, W.F, W.adict, W.OpenFilterLineage = np, F, adict, OpenFilterLineage
    W.video_in, W.video_out = video_in, video_out
    W.plant = False      # self-test switch: the VideoGear stand-in logs the source it is given
    W.adapt, W.sim_ns = False, [1_700_000_000 * 1_000_000_000]
    video_out.time_ns = lambda: W.sim_ns[0] if W.adapt else time.time_ns()

    class FakeMQ:
        LOG_MAP = F.MQ.LOG_MAP
        current = None
        stop_evt = None
        metrics = {}

        def __init__(self, *a, **k):
            self.sent, self.n = [], 0
            FakeMQ.current = self

        def recv(self, timeout=None):
            self.nrecv = getattr(self, 'nrecv', 0) + 1
            if W.adapt:            # simulated time of the writer: 120 frames at 15 fps, then 5 fps (an adaptive-fps restart)
                W.sim_ns[0] += 1_000_000_000 // (15 if self.nrecv <= 120 else 5) + (self.nrecv % 3) * 1_000_000
                if self.nrecv >= 290 and FakeMQ.stop_evt is not None:
                    FakeMQ.stop_evt.set()
            img = np.zeros((4, 4, 3), np.uint8)
            return {t: F.Frame(img, {'meta': {'id': self.n, 'src_fps': 15}}, 'BGR') for t in ('main', 't2')}

        def send(self, frames, timeout=None):
            if callable(frames):
                frames = frames()
            self.sent.append(frames)
            self.n += 1
            if self.n >= 2 and FakeMQ.stop_evt is not None and not W.adapt:
                FakeMQ.stop_evt.set()
            return True

        def destroy(self):
            pass

        def send_exit_msg(self, *a, **k):
            pass

    class FakeGear:     # vidgear.gears.VideoGear
        class _S:
            framerate = 15.0

        def __init__(self, source=None, **k):
            self.stream = self._S()
            if W.plant:
                logging.getLogger('c15.stub').info(f'stub opened {source}')

        def start(self):
            return self

        def read(self):
            return np.zeros((4, 4, 3), np.uint8)

        def stop(self):
            pass

    class FakeWrite:    # vidgear.gears.WriteGear
        made = 0

        def __init__(self, output=None, **k):
            FakeWrite.made += 1

        def write(self, image):
            pass

        def close(self):
            pass

    gears.VideoGear, gears.WriteGear = FakeGear, FakeWrite
    F.MQ = FakeMQ
    F.get_packages = lambda: []          # the DEBUG 'python packages' line costs 150 ms and shows no configuration
    W.FakeMQ, W.FakeWrite = FakeMQ, FakeWrite

    class Probe(F.Filter):               # "the base filter": a minimal user filter
        def process(self, frames):
            return None

    Probe.__name__ = Probe.__qualname__ = 'Filter'
    W.classes = {'Filter': Probe, 'VideoIn': video_in.VideoIn, 'VideoOut': video_out.VideoOut,
                 'ImageIn': image_in.ImageIn, 'ImageOut': image_out.ImageOut, 'MQTTOut': mqtt_out.MQTTOut,
                 'Recorder': recorder.Recorder, 'REST': rest.REST, 'Util': util.Util, 'Webvis': webvis.Webvis}
    W.capture = _Capture()
    _W = W
    return W


class _quiet_stderr:
    """vidgear prints a banner through its own handler at import time."""

    def __enter__(self):
        self.old = sys.stderr
        sys.stderr = io.StringIO()

    def __exit__(self, *a):
        sys.stderr = self.old


# ---------------------------------------------------------------------------------------------------------------------
# vector -> concrete configuration

def _seq(x):
    return list(x) if isinstance(x, (list, tuple)) else []      # JsonSerialize writes the empty sequence as [] or {}


def make_uris(vec, scheme_cls, chars_cls, salt):
    """One or two credentialed URIs with unique user / password / host / path tokens."""
    n = 2 if vec['leaf'] == 'comma' else 1
    out = []
    for i in range(n):
        tag = f'{salt:x}{i}'
        U, P, H, Q = f'Usr{tag}', f'Pwd{tag}Zq', f'host{tag}.example', f'pth{tag}'
        ut, pt = CHARS[chars_cls]
        names = SCHEMES[scheme_cls]
        scheme = names[(salt + i) % len(names)]
        user, pw = ut.format(U=U), pt.format(P=P)
        out.append({'uri': f'{scheme}://{user}:{pw}@{H}:554/{Q}/stream', 'user': U, 'pw': P, 'host': H, 'path': Q})
    return out


BASE = {
    'Filter':   {'sources': 'tcp://localhost:5550', 'outputs': 'tcp://*:5552'},
    'Util':     {'sources': 'tcp://localhost:5550', 'outputs': 'tcp://*:5552'},
    'VideoIn':  {'sources': 'rtsp://plain.example/live', 'outputs': 'tcp://*:5552'},
    'VideoOut': {'sources': 'tcp://localhost:5550', 'outputs': 'rtsp://plain.example/out!fps=15'},
    'ImageIn':  {'sources': 'file:///nonexistent_c15_dir', 'outputs': 'tcp://*:5552'},
    'ImageOut': {'sources': 'tcp://localhost:5550', 'outputs': 'file:///nonexistent_c15_dir/img_%d.png'},
    'MQTTOut':  {'sources': 'tcp://localhost:5550', 'outputs': 'mqtt://broker.example:1883/base'},
    'Recorder': {'sources': 'tcp://localhost:5550', 'outputs': 'file:///nonexistent_c15_dir/rec.json'},
    'REST':     {'outputs': 'tcp://*:5552'},
    'Webvis':   {'sources': 'tcp://localhost:5550'},
}


def build_config(W, vec, uris, salt=0):
    """The configuration object of the vector, built from the real container classes."""
    cls_name, key, nest, fault = vec['cls'], vec['key'], _seq(vec['nest']), vec['fault']
    FilterConfig, adict = W.F.FilterConfig, W.adict
    cfg = dict(BASE[cls_name])
    endpoint = (cls_name, key) in (('VideoIn', 'sources'), ('VideoOut', 'outputs'))
    if endpoint:
        field = 'source' if cls_name == 'VideoIn' else 'output'
        topics = ('main', 't2')
        if cls_name == 'VideoIn':
            opts = {'norm_items': {'bogus': 1}, 'setup_quotes': {'maxsize': '100x100', 'resize': '50x50'}}.get(fault, {})
        else:
            opts = {'setup_quotes': {'segtime': 1, 'fps': 15}, 'adapt_restart': {'fps': True}}.get(fault, {'fps': 15})
        items = []
        for u, topic in zip(uris, topics):
            if len(nest) == 2:      # record form
                rec = {field: u['uri'], 'topic': topic, 'options': dict(opts)}
                if nest[1] == 'adict':
                    Rec = W.video_in.VideoInConfig.Source if cls_name == 'VideoIn' else W.video_out.VideoOutConfig.Output
                    rec = Rec(rec)
                items.append(rec)
            else:                   # string form 'uri!opt=val;topic'
                items.append(u['uri'] + ''.join(f'!{k}' if v is True else f'!{k}={v}' for k, v in opts.items()) + f';{topic}')
        cfg[key] = ', '.join(items) if nest == [] else items
    else:
        text = (', ' if (salt >> 4) % 2 else ',').join(u['uri'] for u in uris)
        val = text
        for kind in reversed(nest):
            if kind == 'dict' and isinstance(val, str) and (salt >> 6) % 2:
                val = {val: 'front door', 'n': 1}          # the URI is a KEY of the innermost plain dict (cameras: {uri: label})
                continue
            val = ([val, 'sibling'] if kind == 'list' else (val,) if kind == 'tuple' else
                   {'inner': val, 'n': 1} if kind == 'dict' else adict(inner=val) if kind == 'adict' else
                   FilterConfig(inner=val, n=1))
        name = {'option': 'cam_url', 'hidden': '_cam_url'}.get(key, key)
        cfg[name] = val
    if fault == 'norm_unrelated':
        cfg['mq_log'] = 'bogus-c15'         # Filter.normalize_config: ValueError('invalid mq_log ...'), no URI in it
    return FilterConfig(cfg) if vec['top'] == 'fconfig' else cfg


# ---------------------------------------------------------------------------------------------------------------------
# run the real filter, collect what every sink shows

def execute(vec, scheme_cls, chars_cls, salt, keep_text=False):
    W = world()
    F = W.F
    uris = make_uris(vec, scheme_cls, chars_cls, salt)
    cls = W.classes[vec['cls']]
    config = build_config(W, vec, uris, salt)
    cfg_repr = repr(config)
    cap = W.capture
    cap.records = []
    root = logging.getLogger()
    old_handlers, old_level, old_disable = root.handlers[:], root.level, root.manager.disable
    root.handlers = [cap]
    root.setLevel(logging.DEBUG)
    logging.disable(logging.NOTSET)          # common.use_repo() silences logging; the sink must be live here
    client = _Client()
    em = W.OpenFilterLineage(client=client, interval=3600)
    em.facets = {}                           # the class shares one mutable default dict between instances
    F.Filter.emitter = em
    stop_evt = threading.Event()
    W.FakeMQ.stop_evt, W.FakeMQ.current = stop_evt, None
    W.adapt = vec['cls'] == 'VideoOut' and vec['fault'] == 'adapt_restart'
    W.FakeWrite.made = 0
    exc = None
    try:
        if vec['cls'] in RUN_CLASSES:
            cls.run(config, sig_stop=False, stop_evt=stop_evt)
        else:
            f = cls(config)
            try:
                em.filter_name = cls.__name__
                f.init(f.config)
                f.fini()
            finally:
                f.stop_logging()
                em.stop_lineage_heart_beat()
    except BaseException as e:               # Filter.Exit is a SystemExit
        exc = e
        if isinstance(e, (KeyboardInterrupt, MemoryError)):
            raise
    finally:
        em.stop_lineage_heart_beat()
        if em._thread is not None:
            em._thread.join(5)
        root.handlers, root.level = old_handlers, old_level
        logging.disable(old_disable)
        F.Filter.emitter = None
    mq = W.FakeMQ.current
    # ---- sort what was captured into the sinks
    texts = {s: [] for s in SINKS + ('other_log',)}
    head = f'{cls.__name__}(config='
    for name, level, text in cap.records:
        if text.startswith(head):
            texts['constructor_log'].append(text)
        elif level >= logging.ERROR:
            texts['error_log'].append(text)
        elif name.endswith('filters.video_in'):
            texts['reader_log'].append(text)
        elif name.endswith('filters.video_out'):
            texts['writer_log'].append(text)
        else:
            texts['other_log'].append(text)
    for etype, text in client.events:
        texts['lineage_start' if 'START' in etype.upper() else 'lineage_other'].append(text)
    texts['lineage_other'].append(json.dumps(em.facets, default=str))
    for frames in (mq.sent if mq else []):
        for topic, fr in (frames or {}).items():
            texts['meta_src'].append(repr(getattr(fr, 'data', fr)))
    # ---- the property's formula on the observation
    status, leaks, mangled = {}, [], []
    for sink, tl in texts.items():
        blob = '\n'.join(tl)
        clear = [u for u in uris if u['pw'] in blob]
        shown = [u for u in uris if u['host'] in blob or u['path'] in blob]
        status[sink] = 'clear' if clear else 'masked' if shown else 'absent'
        for u in clear:
            i = blob.index(u['pw'])
            leaks.append((sink, blob[max(0, i - 110):i + 70]))
        if sink != 'error_log':
            for u in shown:
                if u not in clear and not (u['host'] in blob and u['path'] in blob):
                    i = blob.index(u['host'] if u['host'] in blob else u['path'])
                    mangled.append((sink, blob[max(0, i - 110):i + 70]))
    obs = {'status': status, 'leaks': leaks, 'mangled': mangled, 'config': cfg_repr,
           'exception': None if exc is None else f'{type(exc).__name__}: {exc}'[:300],
           'uris': [u['uri'] for u in uris], 'n_records': len(cap.records), 'n_events': len(client.events),
           'n_frames': len(mq.sent) if mq else 0, 'n_writers': W.FakeWrite.made}
    W.adapt = False
    if keep_text:
        obs['texts'] = {k: v for k, v in texts.items() if v}
    return obs


def _pool_init(repo):
    os.environ['VERIF_REPO'] = repo
    common.REPO = repo
    world()


def _pool_run(job):
    vi, vec, scheme, chars, salt = job
    try:
        return vi, scheme, chars, salt, execute(vec, scheme, chars, salt)
    except Exception as e:                   # the harness itself failed
        import traceback
        return vi, scheme, chars, salt, {'machinery': f'{type(e).__name__}: {e}\n{traceback.format_exc()[-1500:]}'}


# ---------------------------------------------------------------------------------------------------------------------
# judgement

def signature(vec, sink, kind='cleartext'):
    """Facts about the witness that identify its kind (matched against known_findings.json)."""
    return {'kind': kind, 'sink': sink, 'path': vec['path'], 'cls': vec['cls'] if sink == 'error_log' else None,
            'via_non_fconfig_dict': any(k in ('dict', 'adict') for k in [vec['logged_top']] + _seq(vec['logged_nest']))
            if sink == 'constructor_log' else None,
            'fault': vec['fault'] if sink == 'error_log' else None}


def compare(vec, obs, expect=None):
    """Conformance of the observation with the specification's prediction for the code as it stands.  Returns the list
    of differing sinks [(sink, predicted, observed)]."""
    expect = expect or vec['code']
    diff = []
    for s in SINKS:
        if obs['status'][s] != expect[s]:
            diff.append((s, expect[s], obs['status'][s]))
    if obs['status'].get('other_log', 'absent') != 'absent':
        diff.append(('other_log', 'absent', obs['status']['other_log']))
    return diff


def judge(rep, vec, scheme, chars, salt, obs, counts):
    key = (vec['cls'], vec['top'], vec['key'], tuple(_seq(vec['nest'])), vec['leaf'], vec['fault'], scheme, chars)
    rep.case(key)
    rep.traces += 1
    w = {'vector': vec, 'scheme': scheme, 'chars': chars, 'salt': salt, 'config': obs['config'], 'uris': obs['uris'],
         'observed': obs['status'], 'exception': obs['exception']}
    for s, st in obs['status'].items():
        counts['sink_status'][f'{s}:{st}'] = counts['sink_status'].get(f'{s}:{st}', 0) + 1
    seen, pending = set(), []
    for sink, excerpt in obs['leaks']:
        if sink in seen:
            continue
        seen.add(sink)
        pending.append((f'password shown in clear at {sink}: {vec["cls"]} config={obs["config"][:260]} -> '
                        f'...{excerpt}...', dict(w, sink=sink, excerpt=excerpt), signature(vec, sink)))
    for sink, excerpt in obs['mangled']:
        if sink in seen:
            continue
        seen.add(sink)
        pending.append((f'URI shown at {sink} without its host or path (masking must keep the rest readable): '
                        f'{vec["cls"]} config={obs["config"][:260]} -> ...{excerpt}...',
                        dict(w, sink=sink, excerpt=excerpt), signature(vec, sink, 'uri_mangled')))
    diff = compare(vec, obs)
    if (salt >> 6) % 2 and 'dict' in _seq(vec['nest']):
        # the URI as a dict KEY: the lineage facet builder rejects such a field name, so the START event is not sent and the
        # emitter logs the (masked) reason - a known deviation from the value-position prediction, not drift
        diff = [d for d in diff if not ((d[0] == 'lineage_start' and d[2] == 'absent') or (d[0] == 'error_log' and d[2] == 'masked'))]
    for s, pred, got in diff:
        k = f'{s}:{pred}->{got}'
        counts['drift'][k] = counts['drift'].get(k, 0) + 1
        if counts['drift'][k] <= 3:
            rep.drift_note(f'{vec["cls"]} {vec["top"]}/{vec["key"]}/{"/".join(_seq(vec["nest"]))}/{vec["leaf"]} '
                           f'fault={vec["fault"]} {scheme}/{chars}: sink {s} predicted {pred}, observed {got}'
                           + (f' (exception {obs["exception"]})' if obs['exception'] else ''))
    return pending


def submit(rep, pending):
    """Hand the witnessed violations to the report, one witness of every distinct signature first (the report writes
    replay files for the first few only)."""
    def simplicity(p):
        w = p[1]
        return (w['chars'] != 'plain', w['vector']['leaf'] != 'single', w['vector']['depth'], w['scheme'] != 'rtsp')
    groups = {}
    for p in sorted(pending, key=simplicity):      # stable: simplest witness of every kind first
        groups.setdefault(json.dumps(p[2], sort_keys=True), []).append(p)
    order = [(i, k) for k, g in sorted(groups.items()) for i in range(len(g))]
    for i, k in sorted(order):
        what, witness, sig = groups[k][i]
        rep.violation(what, witness, sig)


# ---------------------------------------------------------------------------------------------------------------------
# TLC

# the named deviations of Redact.tla (config Redact_def_<name>.cfg), the switch each one sets and the sinks at which it
# shows clear text; 'code' = all the deviations the specification lists as present in the code (CodeDefects)
DEFECT_OF = {'walk': 'walk_fconfig_only', 'facets': 'facets_unmasked', 'errors': 'errors_quote_clear',
             'reader': 'reader_source_clear', 'writer': 'writer_log_clear'}
DEFECT_SINKS = {'code': ('constructor_log', 'lineage_start', 'error_log'), 'walk': ('constructor_log',),
                'facets': ('lineage_start',), 'errors': ('error_log',), 'reader': ('reader_log', 'meta_src'),
                'writer': ('writer_log',)}

def _counterexample(res):
    m = re.search(r'violated by the initial state:\s*\n(.*?)\n\s*\n', res.out, flags=re.S)
    if not m:
        return None
    return common.parse_state(m.group(1)).get('cur')


def _defect_runs(rep, names, vectors):
    """Each deviation switched on: TLC must exhibit a leaking case; the case is replayed on the real code."""
    d = os.path.join(SPEC, 'func')
    with ThreadPoolExecutor(max_workers=len(names)) as ex:
        results = list(ex.map(lambda n: run_tlc(d, f'Redact_def_{n}', module='Redact', workers=2, timeout=600), names))
    out = {}
    for n, res in zip(names, results):
        if res.error or res.timed_out:
            raise MachineryError(f'TLC failed on Redact_def_{n}: {res.error or "timeout"}')
        rep.add_tlc(f'Redact_def_{n}', res, f'Defects = {n}: NoCleartextAtSink must be violated (leaking case exhibited)')
        cx = _counterexample(res)
        if res.violated != 'NoCleartextAtSink' or cx is None:
            raise MachineryError(f'Redact_def_{n}: expected a counterexample to NoCleartextAtSink, got {res.violated}\n'
                                 f'{res.out[-1500:]}')
        vec = next((v for v in vectors if all(v[k] == (list(cx[k]) if k == 'nest' else cx[k])
                                              for k in ('cls', 'top', 'key', 'leaf', 'fault'))
                    and _seq(v['nest']) == list(cx['nest'])), None)
        out[n] = (cx, vec)
    return out


# ---------------------------------------------------------------------------------------------------------------------
# self-test of the harness (vacuity)

def selftest(vectors):
    """A planted leak must be seen, and a corrupted expectation must be rejected."""
    W = world()
    vin = next(v for v in vectors if v['cls'] == 'VideoIn' and v['key'] == 'sources' and v['fault'] == 'none'
               and _seq(v['nest']) == [] and v['leaf'] == 'single' and v['top'] == 'dict')
    W.plant = True
    try:
        obs = execute(vin, 'rtsp', 'plain', 0xabc)
    finally:
        W.plant = False
    if obs['status'].get('other_log') != 'clear' or not any(s == 'other_log' for s, _ in obs['leaks']):
        raise MachineryError(f'self-test: a planted clear-text password in a log line was not detected: {obs["status"]}')
    obs = execute(vin, 'rtsp', 'plain', 0xabd)
    if obs['status']['meta_src'] == 'absent' or obs['status']['reader_log'] == 'absent' or obs['n_frames'] < 2:
        raise MachineryError(f'self-test: VideoIn run did not reach the reader log / meta.src sinks: {obs}')
    for sink in SINKS:
        flipped = dict(vin['code'])
        flipped[sink] = {'absent': 'masked', 'masked': 'clear', 'clear': 'masked'}[flipped[sink]]
        if not any(s == sink for s, _, _ in compare(vin, obs, flipped)) and not compare(vin, obs):
            raise MachineryError(f'self-test: corrupted expectation for sink {sink} was not rejected')
    return 2


# ---------------------------------------------------------------------------------------------------------------------

def plan(vectors, chars, quick, seed=0):
    """Which (vector, scheme class, character class) combinations are executed.  Every structural case at least once;
    the full scheme x character product for nestings up to `full_depth` and for the endpoint families; `k_deep` rotating
    combinations for deeper nestings.  The seed only changes the secret tokens."""
    full_depth, k_deep = (1, 1) if quick else (2, 3)
    jobs = []
    for vi, v in enumerate(vectors):
        combos = list(itertools.product(sorted(v['schemes']), sorted(chars)))
        if v['key'] in ('option', 'hidden') and v['depth'] > full_depth:
            combos = [combos[(vi * 7 + j * 5) % len(combos)] for j in range(k_deep)]
            combos = list(dict.fromkeys(combos))
        for ci, (s, c) in enumerate(combos):
            jobs.append((vi, v, s, c, (vi * 64 + ci) * 16 + 1 + (seed % 2048) * 2 ** 28))
    return jobs


def run(ctx, only=None):
    rep = Report(ctx)
    rep.rule = ('case = (filter class, class of the object given to the constructor, top-level key, nesting of '
                'containers down to the string, single URI / comma list, fault mode, URI scheme class, user/password '
                'character class); distinct = distinct such tuples executed on the real filter; all are non-trivial '
                '(each carries a unique secret and a unique host)')
    rep.assumptions = [
        'the masking regular expressions are not modelled in TLA+; they are exercised through the real filters with '
        'one concrete instance per character class and scheme class',
        'vidgear VideoGear/WriteGear and filter_runtime.mq.MQ are replaced by in-memory stand-ins (no device, no '
        'socket); OpenFilterLineage is the real emitter with a capturing client in place of OpenLineageClient',
        'built-in filters other than Filter/Util/VideoIn/VideoOut are driven through __init__, init() and fini() only',
        'OPENLINEAGE_EXPORT_RAW_DATA (raw frame data in heartbeat facets) is left at its default (off)',
    ]
    cfg = 'Redact_quick' if ctx.quick else 'Redact_thorough'
    d = os.path.join(SPEC, 'func')
    res, data = tlc_emit_json(d, cfg, module='Redact', timeout=3000)
    tlc_must_pass(res, cfg)
    rep.add_tlc(cfg, res, 'Defects = {}: NoCleartextAtSink on every case (intended design); laws; vectors')
    vectors = sorted(data['vectors'], key=lambda v: json.dumps(v, sort_keys=True))
    for v in vectors:
        v['nest'], v['logged_nest'] = _seq(v['nest']), _seq(v['logged_nest'])
    chars = data['chars']
    if res.distinct != data['ncases']:
        raise MachineryError(f'TLC visited {res.distinct} states, the specification counts {data["ncases"]} cases')
    world()
    n_self = rep.selftest(selftest, vectors)
    rep.extra['selftest_checks'] = n_self
    counts = {'sink_status': {}, 'drift': {}}
    # ---- the deviations, each exhibited by TLC and replayed on the code
    code_defects = set(data['code_defects'])
    names = (['code'] if code_defects else []) + ['walk', 'facets', 'errors', 'reader', 'writer']
    cxs = _defect_runs(rep, names, vectors)
    rep.extra['tlc_counterexamples'] = {}
    for n, (cx, vec) in cxs.items():
        if vec is None:
            raise MachineryError(f'counterexample of Redact_def_{n} is not among the emitted vectors: {cx}')
        obs = execute(vec, cx['scheme'], cx['chars'], 0xc15)
        leaked = sorted({s for s, _ in obs['leaks'] if s in DEFECT_SINKS[n]})
        in_code = n == 'code' or DEFECT_OF[n] in code_defects
        rep.extra['tlc_counterexamples'][n] = {'case': {k: (list(x) if isinstance(x, tuple) else x) for k, x in cx.items()},
                                               'reproduced_on_code': bool(leaked), 'leaking_sinks': leaked}
        if in_code and not leaked:
            rep.drift_note(f'TLC counterexample for deviation {n} does not leak on the code: {cx}')
        # a hypothetical deviation that does leak on the code is judged below like every other execution (the
        # enumeration contains the case)
    # ---- every vector on the real code
    jobs = plan(vectors, chars, ctx.quick, int(ctx.seed))
    if only is not None:
        jobs = [j for j in jobs if only(j)]
    nproc = max(1, min(common.NCPU - 2, 12, len(jobs) // 200 + 1))
    t0 = time.time()
    if nproc > 1:
        import multiprocessing as mp
        with mp.get_context('fork').Pool(nproc, initializer=_pool_init, initargs=(common.REPO,)) as pool:
            results = pool.map(_pool_run, jobs, chunksize=64)
    else:
        results = [_pool_run(j) for j in jobs]
    rep.extra['executions_wall_s'] = round(time.time() - t0, 1)
    rep.extra['worker_processes'] = nproc
    per_class, per_path, per_fault, pending = {}, {}, {}, []
    for vi, scheme, chars_, salt, obs in results:
        if 'machinery' in obs:
            raise MachineryError(f'harness failed on vector {vectors[vi]} {scheme}/{chars_}: {obs["machinery"]}')
        vec = vectors[vi]
        pending += judge(rep, vec, scheme, chars_, salt, obs, counts)
        per_class[vec['cls']] = per_class.get(vec['cls'], 0) + 1
        per_path[vec['path']] = per_path.get(vec['path'], 0) + 1
        per_fault[vec['fault']] = per_fault.get(vec['fault'], 0) + 1
        if vec['fault'] == 'adapt_restart':
            counts.setdefault('adapt', [0, 0])
            counts['adapt'][0] += 1
            counts['adapt'][1] += obs.get('n_writers', 0) > len(obs['uris'])
        if vec['key'] in ('sources', 'outputs') or vec['depth'] == 2:
            rep.sample({'cls': vec['cls'], 'config': obs['config'][:300], 'observed': obs['status'],
                        'predicted': vec['code']}, 6)
    rep.extra.update(executions_by_class=per_class, executions_by_path_kind=per_path, executions_by_fault=per_fault,
                     sink_status_counts=dict(sorted(counts['sink_status'].items())),
                     drift_counts=counts['drift'], structural_cases=len(vectors),
                     spec_predicted_leaks=sorted({f'{s}@{v["path"]}' + (f'/{v["fault"]}' if s == 'error_log' else '')
                                                  for v in vectors for s in SINKS if v['code'][s] == 'clear'}))
    submit(rep, pending)
    if 'adapt' in counts:
        rep.extra['adaptive_fps_runs'] = {'executions': counts['adapt'][0], 'stream_restarted_in': counts['adapt'][1]}

        def _restarted():
            if not counts['adapt'][1]:
                raise MachineryError('no adaptive-fps run restarted its stream: the adapt_restart fault reaches nothing')
        rep.selftest(_restarted)
    # vacuity: every sink must have been seen populated (masked or clear).  A sink the code no longer feeds is a loss of
    # conformance, not a violation; nothing populated at all means the harness itself is broken.
    populated = {s: any(counts['sink_status'].get(f'{s}:{st}') for st in ('masked', 'clear')) for s in SINKS}
    rep.extra['sinks_populated'] = populated
    if only is None:
        if not any(populated.values()):
            raise MachineryError(f'no sink was populated in {len(results)} executions: the harness reaches nothing')
        for s in SINKS:
            if s != 'lineage_other' and not populated[s]:
                rep.drift_note(f'sink {s} was never populated in {len(results)} executions (the specification expects '
                               f'it to show the masked URI)')
    rep.exhaustive = False
    rep.note(f'{len(vectors)} structural cases from TLC, {len(results)} executions '
             f'({"every structural case once, full scheme x character product for depth <= 1 and the endpoint families" if ctx.quick else "full scheme x character product for depth <= 2 and the endpoint families, 3 rotating combinations at depth 3"})')
    return rep.finish()


def replay(ctx):
    w = json.load(open(ctx.replay))
    wit = w['witness']
    vec = wit['vector']
    world()
    obs = execute(vec, wit['scheme'], wit['chars'], wit['salt'], keep_text=True)
    print(json.dumps({'config': obs['config'], 'uris': obs['uris'], 'observed': obs['status'],
                      'predicted_by_spec': vec['code'], 'exception': obs['exception'],
                      'leaks': obs['leaks'], 'mangled': obs['mangled']}, indent=1))
    rep = Report(ctx)       # not finished: a replay must not overwrite the evidence of the last full run
    rc = 0
    for what, witness, sig in judge(rep, vec, wit['scheme'], wit['chars'], wit['salt'], obs,
                                    {'sink_status': {}, 'drift': {}}):
        if rep.violation(what, witness, sig) == 'known':
            fid = next(iter(rep.known_hits))
            print(f'KNOWN-FINDING: property={ctx.prop} {fid}: reproduced ({what[:200]})')
        else:
            rc = 1
            print(f'VIOLATION property={ctx.prop} replay={ctx.replay}\n  {what}')
    if not rc:
        print(f'{ctx.prop} replay: ' + ('only known findings reproduced' if rep.known_hits else 'not reproduced'))
    return rc

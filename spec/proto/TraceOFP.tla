------------------------------ MODULE TraceOFP ------------------------------
(* Trace validation (code -> spec): executions of the real Filter / MQ / ZMQSender / ZMQReceiver classes recorded on the
   simulated network are checked to be behaviours of OFP.  One recorded event per scheduler step: the step's label
   (the same alphabet as OFP's `lbl`) and a projection of the real objects after the step (min_send_id, prev_id, number
   of sets handed to process(), queue lengths per connection).  The trace specification reuses OFP's Next unchanged:
   a step either is internal (no recorded event - the internal actions are atomic with their predecessor in the code)
   or consumes the next recorded event, must carry its label and must reproduce the logged projection.  Unlogged
   variables (locals of recv()/send(), receive buffers, client tables) are inferred by TLC.

   A batch of traces is validated in one TLC run: one initial state per trace (tid).  A trace is accepted when its
   last event has been consumed ("ACC" line); the highest index reached is printed ("AT" lines) so that a rejection can
   be located: compare the state after event AT with event AT+1. *)
EXTENDS OFP, Json, IOUtils

Traces == JsonDeserialize(IOEnv.TRACE_FILE).traces

VARIABLES tid, l
tvars == <<vars, tid, l>>
Tr    == Traces[tid]

CKey(c) == c[1] \o "." \o ToString(c[2])

\* the logged projection describes the real objects at the end of the poll()-to-poll() block, i.e. after the internal
\* actions that follow the labelled action have run: it is compared when no internal action is enabled any more
ProjNow(e) ==
  /\ \A f \in Filters : /\ minSend[f] = e.ms[f]
                        /\ prevId[f]  = e.pi[f]
                        /\ ndeliv[f]  = e.nd[f]
                        /\ \A o \in 1..NOut[f] : Len(pullq[f][o]) = e.lq[f][o]
  /\ \A c \in Conns : /\ Len(pubq[c]) = e.pq[CKey(c)]
                      /\ Len(subq[c]) = e.sq[CKey(c)]
                      /\ Len(reqq[c]) = e.rq[CKey(c)]
                      /\ linkUp[c] = e.up[CKey(c)]

SameLabel(a, e) == /\ a[1] = e.l[1] /\ a[2] = e.l[2]
                   /\ (a[1] \in {"step", "timeout"} \/ a[3] = e.l[3])

TInit == Init /\ tid \in 1..Len(Traces) /\ l = 1

TNext == /\ Next
         /\ UNCHANGED tid
         /\ \/ lbl'[1] = "int" /\ UNCHANGED l
            \/ /\ lbl'[1] # "int"
               /\ l <= Len(Tr)
               /\ SameLabel(lbl', Tr[l])
               /\ IF l = 1 THEN TRUE ELSE ProjNow(Tr[l - 1])   \* the previous block ended in the logged state
               /\ l' = l + 1

TSpec == TInit /\ [][TNext]_tvars

\* evaluated on every new state: report progress / acceptance, stop exploring an accepted trace
TConstraint == /\ PrintT(<<"AT", tid, l - 1>>)
               /\ IF l = Len(Tr) + 1 /\ ~GInt
                  THEN (ProjNow(Tr[Len(Tr)]) => PrintT(<<"ACC", tid>>)) /\ FALSE
                  ELSE TRUE
=============================================================================

------------------------------ MODULE RollLog ------------------------------
(* C13 - specification of openfilter/filter_runtime/rolllog.py (class RollLog), shaped like the code: one action per
   public call, one case-analysis branch per branch of the code.  File:line references are to rolllog.py.

   Vocabulary
   ----------
   * Time is counted in file-name ticks.  A log file's name is a function of the microsecond timestamp of its first
     record (fnm_from_dats, l.20) and scan_logfiles (l.482) parses the timestamp back from the name, so name and
     timestamp are the same thing here: a file *name* is a number in TsAll.
   * The directory maps names to inodes (`dir`), inodes to contents (`data`).  This is POSIX: a reader that holds an
     open file keeps reading the inode after the name was unlinked (pruned / deleted), and open(path, 'wb') on an
     existing name truncates the *same* inode under the feet of everybody who has it open.
   * A record is a positive number (its position in the writing order); a record of size s occupies s consecutive
     cells of the file content, each cell holding the record's id.  Contents are therefore sequences of ids; a file
     is only ever appended to or truncated to nothing, so maximal runs of one id are records and a byte offset that
     is not on a run boundary is the middle of a record.  (The harness renders one cell as UNIT bytes.)
   * Objects: the writer "w" (a RollLog opened for writing, which can also read its own log: prune_logfiles re-bases
     *its* read index) and the read-only objects in Readers; those in AutoRef have autorefresh (the default).

   Deviations of the code from the intended design are switches in Defects:
     "overwrite"     a roll-over opens the new file name with 'wb' without looking (write l.233 / new_logfile l.473):
                     a timestamp equal to that of an existing file truncates that file, an earlier one creates a
                     file that sorts before files already read.  Intended: never use a timestamp <= the newest
                     file's in the writer's list.
     "refresh_skip"  read(), at the end of the last file of its list with autorefresh (l.327-341): when
                     refresh_logfiles() finds the current file gone it already positions read_idx ON the first
                     newer file; read() adds 1 regardless and passes over that file.  Intended: add 1 only if the
                     current file is still there.
     "frac_ts"       write(data, timestamp) keeps the caller's float timestamp in its own file list (l.233/480) while the
                     file NAME is that timestamp truncated to the microsecond; seek(pos) on the writing object compares
                     the two (l.418) and, when the timestamp had a sub-microsecond fraction, takes the file for "the next
                     one past pos": the offset is dropped and the file is delivered again from its start.  Intended: the
                     list holds the truncated value, as scan_logfiles() would compute it.  Labels: y >= 100 stands for
                     "timestamp y - 100 plus a fraction of a microsecond".
     "skip_empty"    (never in the code: a design the property rules out) read() passes over a file whose listed size is 0
                     like over a deleted one - but an empty file is the normal state of the newest file of a writer that
                     does not flush every record, and it gets its records later.
   With Defects = {} TLC proves the C13 formulas below; with a defect switched on it exhibits the counterexample. *)
EXTENDS Integers, Sequences, FiniteSets, TLC, FiniteSetsExt, SequencesExt     \* ...Ext: CommunityModules (folds, sorting)

CONSTANTS Readers,      \* read-only RollLog objects, e.g. {"r1", "r2"}
          AutoRef,      \* the readers constructed with autorefresh=True
          Sizes,        \* record sizes (cells)
          FileSizes,    \* file_size values, chosen once at Init
          TotalSizes,   \* total_size values, chosen once at Init
          MaxWrites, MaxTs, MaxDeletes, MaxReopens,
          Bin,          \* TRUE: mode 'bin' (read() always reads a block, l.282)
          Active,       \* the objects whose read-side methods (read, read_block, seek, tell, refresh) are exercised
          MaxPosOps,    \* bound on the number of seek/tell/refresh calls
          Acts,         \* the kinds of action enabled in this configuration (subset of AllActs)
          Defects

W       == "w"
Objs    == {W} \cup Readers
AllActs == {"write", "writenf", "flush", "read", "readblock", "seek", "tell", "refresh", "close", "reopen", "delete", "tick"}
Unknown == 0 - 1
TsAll   == 1..(MaxTs + MaxWrites)      \* the intended design may bump a timestamp past MaxTs
NoFile  == [ino |-> 0, off |-> 0, buf |-> <<>>]
NoPos   == [k |-> "none", ts |-> 0, off |-> 0, cur |-> Unknown]

VARIABLES
  fsz, tsz,     \* file_size, total_size of the writer (constructor arguments)
  dir,          \* [TsAll -> inode | 0]   the directory: name -> inode, 0 = no such file
  data,         \* [1..MaxWrites -> Seq(record id)]   inode -> content (cells)
  nino,         \* number of inodes allocated
  recsz,        \* Seq(size): recsz[k] is the size of the k-th record written
  clock,        \* "now" (time(), datetime.now): may advance, stand still, step back
  lf,           \* [Objs -> Seq([ts, sz, fr])]  self.logfiles: the object's own view of the file list; fr: the entry's
                \*                          float timestamp is later than the microsecond in the name ("frac_ts")
  ridx,         \* [Objs -> Nat]            self.read_idx (0-based; Len(lf) = at end)
  rf,           \* [Objs -> [ino, off, buf]] self.read_file: open inode + offset (tell()) + cells sitting in the file
                \*                          object's read buffer; ino = 0: None
  closed,       \* [Objs -> BOOLEAN]        close() was called (write_file/read_file is False)
  wfile,        \* inode open for writing (self.write_file), 0 = None
  wbuf,         \* cells written into write_file that are still in the file object's buffer (write(..., flush=False)):
                \* they reach the inode with flush(), a flushing write, the roll-over or close()
  total,        \* self.logfiles_size of the writer
  pos,          \* [Objs -> position]       the last tell() result kept by the caller, for seek(pos)
  \* ---- history variables, used only by the property formulas
  last,         \* [Objs -> Int]  id of the last record delivered to the object since it was positioned
                \*                (0: positioned at the start of all logs; Unknown: positioned at 'end'/constructor)
  destroyed,    \* records wiped out by a truncating open() - NOT excused by "pruned or deleted"
  taintf,       \* names created by a roll-over whose timestamp was <= a name used before
  maxused,      \* the largest name ever created
  ndel, nreo, npos,  \* counters bounding Delete, Close/Reopen, seek/tell/refresh
  ev            \* observation of the last step (what the caller of the method sees); excluded from VIEW

vars == <<fsz, tsz, dir, data, wbuf, nino, recsz, clock, lf, ridx, rf, closed, wfile, total, pos, last, destroyed, taintf,
          maxused, ndel, nreo, npos, ev>>
view == <<fsz, tsz, dir, data, wbuf, nino, recsz, clock, lf, ridx, rf, closed, wfile, total, pos, last, destroyed, taintf,
          maxused, ndel, nreo, npos>>

\* n flips with every step: no step of a method leaves `vars` unchanged, so the step formulas [][F]_vars are evaluated on
\* every call - also on a read() that finds nothing and changes nothing, twice in a row
NoEv == [act |-> "init", o |-> W, chunk |-> <<>>, newts |-> 0, existed |-> FALSE, unl |-> {}, wts |-> 0, n |-> 0]

(* ---------------------------------------------------------------------------------------------------------------- *)
\* (Min and Max of a set of numbers: FiniteSetsExt)
Ids(c) == {c[i] : i \in DOMAIN c}
Names   == {t \in TsAll : dir[t] # 0}
OnDisk  == UNION {Ids(data[dir[t]]) : t \in Names}              \* records reachable through a name
SizeOf(t) == Len(data[dir[t]])
DiskTotalOf(d, dt) == FoldSet(LAMBDA t, acc : acc + Len(dt[d[t]]), 0, {t \in TsAll : d[t] # 0})
NewestSizeOf(d, dt) == LET S == {t \in TsAll : d[t] # 0} IN IF S = {} THEN 0 ELSE Len(dt[d[Max(S)]])

AscSeq(S) == SetToSortSeq(S, LAMBDA a, b : a < b)

(* scan_logfiles (l.482-496): list the directory, timestamp from the name, size from stat, sorted. *)
ScanLF == LET s == AscSeq(Names) IN [i \in 1..Len(s) |-> [ts |-> s[i], sz |-> SizeOf(s[i]), fr |-> FALSE]]
SumSz(l) == FoldSeq(LAMBDA e, acc : acc + e.sz, 0, l)

(* file.read() / file.readline() on an open file f = [ino, off, buf] (l.324).  readline returns up to and including
   the newline, i.e. to the end of the run of the id found at the offset.  Python's buffered reader fills its buffer
   with everything up to the end of the (small) file and serves later calls from the buffer; for an append-only inode
   that cannot be observed (buffer \o later content = content) and the buffer is left out, but after a truncating
   open() the buffer still holds - and delivers - the destroyed cells, so with the "overwrite" deviation it is kept. *)
Buffered == "overwrite" \in Defects
FirstRun(c) == LET e == Min({e \in 1..Len(c) : e = Len(c) \/ c[e + 1] # c[e]}) IN e
ReadFrom(f, block) ==      \* -> [c: the cells returned, f: the file object afterwards]
  LET raw  == f.off + Len(f.buf)                                 \* position of the underlying descriptor
      cont == data[f.ino]
      more == IF raw >= Len(cont) THEN <<>> ELSE SubSeq(cont, raw + 1, Len(cont))
      all  == f.buf \o more
  IN IF block \/ all = <<>> THEN [c |-> all, f |-> [f EXCEPT !.off = @ + Len(all), !.buf = <<>>]]
     ELSE LET src  == IF f.buf # <<>> THEN f.buf ELSE more       \* a whole line is in the buffer, or one raw read
              e    == FirstRun(src)
              rest == IF Buffered THEN SubSeq(src, e + 1, Len(src)) ELSE <<>>
          IN [c |-> SubSeq(src, 1, e), f |-> [f EXCEPT !.off = @ + e, !.buf = rest]]

(* refresh_logfiles (l.548-591) for a list l, read index S, open file f. *)
RefreshOf(l, S, f) ==
  LET n       == Len(l)
      haspath == S < n                                          \* l.556: old_path is a real path
      oldts   == IF S < n THEN l[S + 1].ts ELSE IF n = 0 THEN 0 ELSE l[n].ts     \* l.556-561
      new     == ScanLF                                         \* l.563
      cand    == {i \in 1..Len(new) : new[i].ts > oldts \/ (haspath /\ new[i].ts = oldts)}   \* l.568-578
      i       == IF cand = {} THEN Len(new) + 1 ELSE Min(cand)  \* l.580-582: not found -> at end
      keep    == cand # {} /\ haspath /\ new[i].ts = oldts      \* l.569-571: same path found again
  IN [lf |-> new, ridx |-> i - 1, rf |-> IF keep THEN f ELSE NoFile]            \* l.584-589

Res(l, S, f, c) == [lf |-> l, ridx |-> S, rf |-> f, chunk |-> c]

(* (TLCEval: TLC passes operator arguments unevaluated; in a recursion that re-evaluates them at every level.)
   the `while True` loop of read() (l.302-341) for list l, self.read_idx = S < Len(l), self.read_file = f;
   `auto`: the one autorefresh of this call has not been used yet. *)
RECURSIVE RLoop(_, _, _, _, _)
RLoop(l, S, f, auto, block) ==
  LET n == Len(l) IN
  IF f.ino = 0 THEN
    IF dir[l[S + 1].ts] # 0 /\ ~("skip_empty" \in Defects /\ l[S + 1].sz = 0)
    THEN RLoop(l, S, TLCEval([ino |-> dir[l[S + 1].ts], off |-> 0, buf |-> <<>>]), auto, block)          \* l.305 open by NAME
    ELSE IF S + 1 >= n                                                            \* l.307-310 file is gone: skip it
         THEN IF ~auto THEN Res(l, S + 1, NoFile, <<>>)                           \* l.311
              ELSE LET r == RefreshOf(l, S + 1, NoFile) IN                        \* l.316
                   IF r.ridx >= Len(r.lf) THEN Res(r.lf, r.ridx, r.rf, <<>>)      \* l.318
                   ELSE RLoop(TLCEval(r.lf), TLCEval(r.ridx), NoFile, FALSE, block)   \* l.321
         ELSE RLoop(l, TLCEval(S + 1), NoFile, auto, block)
  ELSE
    LET rd == ReadFrom(f, block)  c == rd.c IN
    IF c # <<>> THEN Res(l, S, rd.f, c)                                           \* l.324-325
    ELSE IF S + 1 >= n                                                            \* l.327 end of the last file
         THEN IF ~auto THEN Res(l, S, f, <<>>)                                    \* l.328 file stays open
              ELSE LET r == RefreshOf(l, S, f)                                    \* l.333
                       L == IF "refresh_skip" \in Defects \/ r.rf.ino # 0         \* l.335: `self.read_idx + 1`
                            THEN r.ridx + 1 ELSE r.ridx
                   IN IF L >= Len(r.lf) THEN Res(r.lf, r.ridx, r.rf, <<>>)        \* l.336
                      ELSE RLoop(TLCEval(r.lf), TLCEval(L), NoFile, FALSE, block) \* l.338-341
         ELSE RLoop(l, TLCEval(S + 1), NoFile, auto, block)                       \* l.338-341 next file

(* read() from the top (l.279-300). *)
ReadRes(o, block) ==
  LET l == lf[o]  S == ridx[o]  f == rf[o]  auto == o \in AutoRef IN
  IF S >= Len(l)
  THEN IF ~auto THEN Res(l, S, f, <<>>)                                           \* l.292
       ELSE LET r == RefreshOf(l, S, f) IN                                        \* l.297
            IF r.ridx >= Len(r.lf) THEN Res(r.lf, r.ridx, r.rf, <<>>)             \* l.299
            ELSE RLoop(TLCEval(r.lf), TLCEval(r.ridx), TLCEval(r.rf), FALSE, block)
  ELSE RLoop(l, S, f, auto, block)

(* prune_logfiles (l.498-546) on list l: keep the newest, then older files while they fit; the first that does not
   fit and everything older is unlinked.  Result: cut = number of list entries removed from the front. *)
SuffixSz(l, j) == SumSz(SubSeq(l, j, Len(l)))                  \* size of the entries j..Len(l)
PruneOf(l) ==
  LET n   == Len(l)
      \* the loop (l.506-525) walks down from n-1 while the kept suffix still fits; it stops at the first (largest) j
      \* whose entry does not fit on top of the entries above it
      bad == {j \in 1..(n - 1) : SuffixSz(l, j) > tsz}
      cut == IF bad = {} THEN 0 ELSE Max(bad)
  IN [cut |-> cut, total |-> IF n = 0 THEN 0 ELSE SuffixSz(l, cut + 1)]            \* l.530

(* ---------------------------------------------------------------------------------------------------------------- *)
InitRest ==
  /\ dir = [t \in TsAll |-> 0] /\ data = [i \in 1..MaxWrites |-> <<>>] /\ wbuf = <<>> /\ nino = 0 /\ recsz = <<>>
  /\ clock = 1
  /\ lf = [o \in Objs |-> <<>>] /\ ridx = [o \in Objs |-> 0] /\ rf = [o \in Objs |-> NoFile]
  /\ closed = [o \in Objs |-> FALSE] /\ wfile = 0 /\ total = 0 /\ pos = [o \in Objs |-> NoPos]
  /\ last = [o \in Objs |-> Unknown] /\ destroyed = {} /\ taintf = {} /\ maxused = 0 /\ ndel = 0 /\ nreo = 0 /\ npos = 0
  /\ ev = NoEv
Init == fsz \in FileSizes /\ tsz \in TotalSizes /\ InitRest

(* write(data, timestamp, flush) (l.180-258).  t = 0: no timestamp given, the file name comes from the clock (l.477).
   fl = FALSE: write(..., flush=False) / a writer constructed with flush=False - the record stays in the file object's buffer
   (the records of one file are far smaller than that buffer) until flush(), a flushing write, the roll-over or close(); the
   writer's own accounting (its file list, logfiles_size, pruning) counts it at once.  Followers see the inode, not the buffer. *)
Write(sz, t, fl) ==
  /\ ~closed[W] /\ Len(recsz) < MaxWrites
  /\ t # 0 => wfile = 0                          \* the timestamp is only looked at when a file is created (l.228-233)
  /\ LET id   == Len(recsz) + 1
         frac == t >= 100                          \* a caller-given timestamp with a sub-microsecond fraction
         tg   == IF frac THEN t - 100 ELSE t
         ts0  == IF tg = 0 THEN clock ELSE tg
         new  == wfile = 0
         \* new_logfile (l.473-480); intended design: never a timestamp <= the newest known file's
         nts  == IF "overwrite" \in Defects \/ lf[W] = <<>> \/ ts0 > Last(lf[W]).ts THEN ts0 ELSE Last(lf[W]).ts + 1
         exi  == new /\ dir[nts] # 0
         ino  == IF ~new THEN wfile ELSE IF exi THEN dir[nts] ELSE nino + 1       \* l.233 open(path, 'wb')
         old  == IF exi THEN data[ino] ELSE <<>>                                  \* content lost by truncation
         dir1 == IF new THEN [dir EXCEPT ![nts] = ino] ELSE dir
         pend == (IF new THEN <<>> ELSE wbuf) \o [i \in 1..sz |-> id]             \* l.242 write_file.write(data)
         lf1  == IF new THEN Append(lf[W], [ts |-> nts, sz |-> 0, fr |-> frac /\ "frac_ts" \in Defects])
                 ELSE lf[W]                                                        \* l.240
         cur  == Last(lf1)
         lf2  == [lf1 EXCEPT ![Len(lf1)] = [cur EXCEPT !.sz = @ + sz]]              \* l.244
         tot2 == total + sz                                                       \* l.245
         p    == IF tot2 > tsz THEN PruneOf(lf2) ELSE [cut |-> 0, total |-> tot2] \* l.247
         unl  == {lf2[j].ts : j \in 1..p.cut}                                     \* l.509, l.517 unlink by name
         rb   == ridx[W] - p.cut                                                  \* l.537
     IN /\ nts \in TsAll
        \* Environment assumption of the intended design: a writer that was restarted on a directory from which newer
        \* files had been deleted is not handed a timestamp <= those deleted names (it has no memory of them).
        /\ (new /\ "overwrite" \notin Defects) => nts > maxused
        /\ maxused' = IF new /\ nts > maxused THEN nts ELSE maxused
        /\ recsz' = Append(recsz, sz)
        /\ LET base   == IF new THEN <<>> ELSE data[ino]
               todisk == fl \/ cur.sz + sz >= fsz                                  \* l.250-256: close() or flush()
           IN /\ data' = [data EXCEPT ![ino] = IF todisk THEN base \o pend ELSE base]
              /\ wbuf' = IF todisk THEN <<>> ELSE pend
        /\ nino' = IF new /\ ~exi THEN nino + 1 ELSE nino
        /\ dir' = [x \in TsAll |-> IF x \in unl THEN 0 ELSE dir1[x]]
        /\ destroyed' = destroyed \cup Ids(old)
        /\ taintf' = IF new /\ nts <= maxused THEN taintf \cup {nts} ELSE taintf
        /\ lf' = [lf EXCEPT ![W] = SubSeq(lf2, p.cut + 1, Len(lf2))]              \* l.535
        /\ total' = p.total                                                       \* l.530
        /\ ridx' = [ridx EXCEPT ![W] = IF p.cut = 0 THEN @ ELSE IF rb >= 0 THEN rb ELSE 0]    \* l.537-541
        /\ rf' = [rf EXCEPT ![W] = IF p.cut # 0 /\ rb < 0 THEN NoFile ELSE @]     \* l.543-546
        /\ wfile' = IF cur.sz + sz >= fsz THEN 0 ELSE ino                         \* l.250-253 roll over AFTER the write
        /\ ev' = [act |-> "write", o |-> W, chunk |-> <<>>, newts |-> IF new THEN nts ELSE 0, existed |-> exi,
                  unl |-> unl, wts |-> cur.ts, n |-> 1 - ev.n]
  /\ UNCHANGED <<fsz, tsz, clock, closed, pos, last, ndel, nreo, npos>>

(* read() / read_block() (l.260-356). *)
ReadAct(o, block, name) ==
  /\ ~closed[o]
  /\ LET r == ReadRes(o, block \/ Bin) IN
     /\ lf' = [lf EXCEPT ![o] = r.lf] /\ ridx' = [ridx EXCEPT ![o] = r.ridx] /\ rf' = [rf EXCEPT ![o] = r.rf]
     /\ last' = [last EXCEPT ![o] = IF r.chunk = <<>> THEN @ ELSE Last(r.chunk)]
     /\ ev' = [NoEv EXCEPT !.n = 1 - ev.n, !.act = name, !.o = o, !.chunk = r.chunk]
  /\ UNCHANGED <<fsz, tsz, dir, data, wbuf, nino, recsz, clock, closed, wfile, total, pos, destroyed, taintf, maxused, ndel, nreo, npos>>
Read(o)      == ReadAct(o, FALSE, "read")
ReadBlock(o) == ReadAct(o, TRUE, "readblock")

(* tell() (l.440-451); the caller keeps the result (pos) together with what it had consumed so far (cur). *)
TellOf(o) ==
  LET l == lf[o]  n == Len(l)  S == ridx[o] IN
  IF S >= n THEN IF n = 0 THEN [k |-> "start", ts |-> 0, off |-> 0, cur |-> last[o]]
                 ELSE [k |-> "file", ts |-> l[n].ts, off |-> l[n].sz, cur |-> last[o]]      \* l.448
  ELSE [k |-> "file", ts |-> l[S + 1].ts, off |-> rf[o].off, cur |-> last[o]]                \* l.450 (0 if no file open)
Tell(o) ==
  /\ ~closed[o]
  /\ pos' = [pos EXCEPT ![o] = TellOf(o)]
  /\ npos < MaxPosOps /\ npos' = npos + 1
  /\ ev' = [NoEv EXCEPT !.n = 1 - ev.n, !.act = "tell", !.o = o]
  /\ UNCHANGED <<fsz, tsz, dir, data, wbuf, nino, recsz, clock, lf, ridx, rf, closed, wfile, total, last, destroyed, taintf, maxused,
                 ndel, nreo>>

(* seek(pos) (l.382-438) to a saved position p. *)
SeekTo(o, p) ==
  LET l == lf[o]  n == Len(l) IN
  IF p.k = "start" THEN [ridx |-> 0, rf |-> NoFile]                               \* l.402
  ELSE IF p.k = "end" THEN [ridx |-> n, rf |-> NoFile]                            \* l.407
  ELSE LET cand == {i \in 1..n : l[i].ts >= p.ts} IN                              \* l.417-421 first entry not older
       IF cand = {} THEN [ridx |-> n, rf |-> NoFile]                              \* l.435
       ELSE LET i == Min(cand) IN
            IF l[i].ts > p.ts \/ l[i].fr THEN [ridx |-> i - 1, rf |-> NoFile]     \* l.418 next existing file
            ELSE IF dir[p.ts] # 0 THEN [ridx |-> i - 1, rf |-> [ino |-> dir[p.ts], off |-> p.off, buf |-> <<>>]]   \* l.423-431
                 ELSE [ridx |-> i, rf |-> NoFile]                                 \* l.424 vanished: the one after
Seek(o, how) ==    \* how: 0 = ('start', 0), 1 = ('end', 0), 2 = the saved position
  /\ ~closed[o]
  /\ how = 2 => pos[o].k # "none"
  /\ LET p == IF how = 0 THEN [NoPos EXCEPT !.k = "start", !.cur = 0]
              ELSE IF how = 1 THEN [NoPos EXCEPT !.k = "end"]
              ELSE pos[o]
         r == SeekTo(o, p) IN
     /\ ridx' = [ridx EXCEPT ![o] = r.ridx] /\ rf' = [rf EXCEPT ![o] = r.rf]
     /\ last' = [last EXCEPT ![o] = p.cur]
  /\ npos < MaxPosOps /\ npos' = npos + 1
  /\ ev' = [NoEv EXCEPT !.n = 1 - ev.n, !.act = "seek", !.o = o]
  /\ UNCHANGED <<fsz, tsz, dir, data, wbuf, nino, recsz, clock, lf, closed, wfile, total, pos, destroyed, taintf, maxused, ndel, nreo>>

(* refresh() (l.453-462): read-only objects only. *)
Refresh(o) ==
  /\ o \in Readers /\ ~closed[o]
  /\ LET r == RefreshOf(lf[o], ridx[o], rf[o]) IN
     lf' = [lf EXCEPT ![o] = r.lf] /\ ridx' = [ridx EXCEPT ![o] = r.ridx] /\ rf' = [rf EXCEPT ![o] = r.rf]
  /\ npos < MaxPosOps /\ npos' = npos + 1
  /\ ev' = [NoEv EXCEPT !.n = 1 - ev.n, !.act = "refresh", !.o = o]
  /\ UNCHANGED <<fsz, tsz, dir, data, wbuf, nino, recsz, clock, closed, wfile, total, pos, last, destroyed, taintf, maxused, ndel,
                 nreo>>

(* flush() (l.175-178) *)
Flush ==
  /\ ~closed[W]
  /\ data' = IF wfile # 0 THEN [data EXCEPT ![wfile] = @ \o wbuf] ELSE data
  /\ wbuf' = <<>>
  /\ ev' = [NoEv EXCEPT !.n = 1 - ev.n, !.act = "flush"]
  /\ UNCHANGED <<fsz, tsz, dir, nino, recsz, clock, lf, ridx, rf, closed, wfile, total, pos, last, destroyed, taintf, maxused,
                 ndel, nreo, npos>>

(* close() (l.162-173): write_file.close() flushes. *)
Close(o) ==
  /\ ~closed[o] /\ nreo < MaxReopens
  /\ closed' = [closed EXCEPT ![o] = TRUE] /\ rf' = [rf EXCEPT ![o] = NoFile]
  /\ wfile' = IF o = W THEN 0 ELSE wfile
  /\ data' = IF o = W /\ wfile # 0 THEN [data EXCEPT ![wfile] = @ \o wbuf] ELSE data
  /\ wbuf' = IF o = W THEN <<>> ELSE wbuf
  /\ nreo' = nreo + 1
  /\ ev' = [NoEv EXCEPT !.n = 1 - ev.n, !.act = "close", !.o = o]
  /\ UNCHANGED <<fsz, tsz, dir, nino, recsz, clock, lf, ridx, total, pos, last, destroyed, taintf, maxused, ndel, npos>>

(* a new object on the same directory: __init__ (l.127-135): scan, prune (writer), the time-traveller guard, read
   position at the end.  Enabled only when the constructor does not raise (l.132). *)
Reopen(o) ==
  /\ closed[o]
  /\ LET sc  == ScanLF
         p   == IF o = W THEN PruneOf(sc) ELSE [cut |-> 0, total |-> SumSz(sc)]   \* l.129-130
         unl == {sc[j].ts : j \in 1..p.cut}
         l2  == SubSeq(sc, p.cut + 1, Len(sc)) IN
     /\ l2 # <<>> => Last(l2).ts < clock                                          \* l.132
     /\ dir' = [x \in TsAll |-> IF x \in unl THEN 0 ELSE dir[x]]
     /\ lf' = [lf EXCEPT ![o] = l2] /\ ridx' = [ridx EXCEPT ![o] = Len(l2)]       \* l.135
     /\ total' = IF o = W THEN p.total ELSE total
     /\ ev' = [NoEv EXCEPT !.n = 1 - ev.n, !.act = "reopen", !.o = o, !.unl = unl, !.wts = IF l2 = <<>> THEN 0 ELSE Last(l2).ts]
  /\ closed' = [closed EXCEPT ![o] = FALSE] /\ rf' = [rf EXCEPT ![o] = NoFile]
  /\ last' = [last EXCEPT ![o] = Unknown] /\ pos' = [pos EXCEPT ![o] = NoPos]
  /\ UNCHANGED <<fsz, tsz, data, wbuf, nino, recsz, clock, wfile, destroyed, taintf, maxused, ndel, nreo, npos>>

(* the environment: somebody deletes a log file; the wall clock moves (forwards or backwards). *)
Delete(t) ==
  /\ dir[t] # 0 /\ ndel < MaxDeletes
  /\ dir' = [dir EXCEPT ![t] = 0] /\ ndel' = ndel + 1
  /\ ev' = [NoEv EXCEPT !.n = 1 - ev.n, !.act = "delete"]
  /\ UNCHANGED <<fsz, tsz, data, wbuf, nino, recsz, clock, lf, ridx, rf, closed, wfile, total, pos, last, destroyed, taintf, maxused,
                 nreo, npos>>
Tick(t) ==
  /\ t # clock /\ clock' = t
  /\ ev' = [NoEv EXCEPT !.n = 1 - ev.n, !.act = "tick"]
  /\ UNCHANGED <<fsz, tsz, dir, data, wbuf, nino, recsz, lf, ridx, rf, closed, wfile, total, pos, last, destroyed, taintf, maxused,
                 ndel, nreo, npos>>

(* ---- labelled next-state relation (DESIGN 3.2): l = [a, o, x, y] ------------------------------------------------ *)
Lab(a, o, x, y) == [a |-> a, o |-> o, x |-> x, y |-> y]
Labels ==
       {Lab(a, W, s, t) : a \in {"write", "writenf"}, s \in Sizes, t \in 0..MaxTs}
  \cup {Lab("flush", W, 0, 0)}
  \cup (IF "frac_ts" \in Defects /\ W \in Active THEN {Lab("write", W, s, 100 + t) : s \in Sizes, t \in 1..MaxTs} ELSE {})
  \cup {Lab(a, o, 0, 0) : a \in {"read", "readblock", "tell", "close", "reopen"}, o \in Objs}
  \cup {Lab("seek", o, h, 0) : o \in Objs, h \in 0..2}
  \cup {Lab("refresh", o, 0, 0) : o \in Readers}
  \cup {Lab("delete", "env", t, 0) : t \in TsAll}
  \cup {Lab("tick", "env", t, 0) : t \in 1..MaxTs}
NextL(l) ==
  /\ l.a \in Acts
  /\ l.a \in {"read", "readblock", "seek", "tell", "refresh"} => l.o \in Active
  /\ CASE l.a = "write"     -> Write(l.x, l.y, TRUE)
       [] l.a = "writenf"   -> Write(l.x, l.y, FALSE)
       [] l.a = "flush"     -> Flush
       [] l.a = "read"      -> ~Bin /\ Read(l.o)      \* in 'bin' mode read() is read_block()
       [] l.a = "readblock" -> ReadBlock(l.o)
       [] l.a = "tell"      -> Tell(l.o)
       [] l.a = "seek"      -> Seek(l.o, l.x)
       [] l.a = "refresh"   -> Refresh(l.o)
       [] l.a = "close"     -> Close(l.o)
       [] l.a = "reopen"    -> Reopen(l.o)
       [] l.a = "delete"    -> Delete(l.x)
       [] l.a = "tick"      -> Tick(l.x)
Next == \E l \in Labels : NextL(l)
Spec == Init /\ [][Next]_vars

(* ================================================================================================================ *)
(* The property C13 as formulas.  Step formulas are over (unprimed state, primed state) and read the observation of  *)
(* the step from ev'.                                                                                               *)

(* a delivered chunk consists of whole records in writing order: no tearing, no duplicate, no reordering inside *)
ChunkWhole(c, sizes) ==
  /\ \A i \in 1..(Len(c) - 1) : c[i] <= c[i + 1]
  /\ \A k \in Ids(c) : Cardinality({i \in DOMAIN c : c[i] = k}) = sizes[k]
(* ... continues after what the object got before (lst) ... *)
ChunkNext(c, lst) == lst # Unknown => c[1] > lst
(* ... and every record passed over is in a file that was pruned or deleted (not on disk, and not wiped by a
   truncating open) *)
Passed(c, lst, nrec) == {k \in 1..nrec : k \notin Ids(c) /\ k < Last(c) /\ k > (IF lst = Unknown THEN c[1] ELSE lst)}
ChunkNoSkip(c, lst, nrec, ondisk, destr) == \A k \in Passed(c, lst, nrec) : k \notin ondisk /\ k \notin destr
(* "nothing more" (None) is not a promise - the caller polls again - unless the call left the object exactly as it
   found it: then every further call answers the same while the directory stays as it is, and for an object that looks
   at the directory itself (autorefresh) or wrote the files itself that must mean that really nothing is left *)
NoneOK(o, lst, nrec, ondisk) ==
  (o \in AutoRef \cup {W} /\ lst # Unknown) => \A k \in 1..nrec : k > lst => k \notin ondisk

IsRead(e) == e.act \in {"read", "readblock"}
StepExactlyOnce ==
  LET e == ev' IN
  IsRead(e) =>
    IF e.chunk # <<>>
    THEN /\ ChunkWhole(e.chunk, recsz')
         /\ ChunkNext(e.chunk, last[e.o])
         /\ ChunkNoSkip(e.chunk, last[e.o], Len(recsz'), OnDisk', destroyed')
    ELSE (lf'[e.o] = lf[e.o] /\ ridx'[e.o] = ridx[e.o] /\ rf'[e.o] = rf[e.o])
           => NoneOK(e.o, last[e.o], Len(recsz'), OnDisk')
StepBudget ==      \* after every write: total <= budget, or only the newest file's size if that is larger
  ev'.act = "write" => (DiskTotalOf(dir', data') <= tsz \/ DiskTotalOf(dir', data') <= NewestSizeOf(dir', data'))
StepNewestKept ==  \* pruning never unlinks the name of the file that holds the newest record
  ev'.act \in {"write", "reopen"} => ev'.wts \notin ev'.unl
StepNoOverwrite == \* a roll-over never opens a name that exists
  ev'.newts # 0 => ~ev'.existed

C13_ExactlyOnceInOrder == [][StepExactlyOnce]_vars
C13_Budget             == [][StepBudget]_vars
C13_NewestKept         == [][StepNewestKept]_vars
C13_NoOverwrite        == [][StepNoOverwrite]_vars

(* sanity invariants of the model itself *)
TypeOK ==
  /\ \A o \in Objs : ridx[o] \in 0..Len(lf[o]) /\ rf[o].ino \in 0..nino
  /\ wfile \in 0..nino
  /\ \A t \in TsAll : dir[t] \in 0..nino
OpenImpliesIdx == \A o \in Objs : rf[o].ino # 0 => ridx[o] < Len(lf[o])     \* read() relies on it (l.288/303)
=============================================================================

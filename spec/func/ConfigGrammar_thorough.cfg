CONSTANTS
  Defects = {}
  Mode = "config"
  MaxMaps = 2
  MaxOpts = 2
  MaxEntries = 4
  WsLevel = 2
INIT Init
NEXT Next
INVARIANT InvCfgValid
INVARIANT InvCfgEq
INVARIANT InvCfgIdem
INVARIANT InvCfgInit

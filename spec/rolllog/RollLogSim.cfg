SPECIFICATION SpecC
CONSTANTS
  Readers = {"r1", "r2"}
  AutoRef = {"r1"}
  Sizes = {1, 2, 3}
  FileSizes = {1, 2, 4}
  TotalSizes = {1, 4, 8}
  MaxWrites = 8
  MaxTs = 4
  MaxDeletes = 3
  MaxReopens = 3
  MaxPosOps = 6
  Active = {"r1", "r2", "w"}
  Bin = FALSE
  Acts = {"write", "writenf", "flush", "read", "readblock", "seek", "tell", "refresh", "close", "reopen", "delete", "tick"}
  Defects = {"overwrite", "refresh_skip", "frac_ts"}
ACTION_CONSTRAINT Emit

---------------------------- MODULE TraceRollLog ----------------------------
(* code -> spec binding for C13 (DESIGN 3.3): executions of the real RollLog objects, recorded by the harness
   (vlib/c13_hist.py) as JSON, are validated against RollLog.tla:

       step k of trace t is accepted iff  NextL(label_k)  /\  projection of the primed state = what was logged
                                          /\ the truth of every C13 step formula on this transition = the verdict the
                                             Python monitor gave for the real step.

   One initial state per trace (variable tid); every state has exactly one successor while the trace conforms, and a
   stuttering step at the end; TLC runs WITH deadlock checking, so a rejected step shows up as a deadlock whose trace
   names (tid, i).  The number of distinct states of an accepted batch is the sum of (length + 1). *)
EXTENDS RollLog, Json, IOUtils

VARIABLES tid, i
Traces == JsonDeserialize(IOEnv.VERIF_TRACE)     \* sequence of [fsz, tsz, steps: Seq([l, obs, viol])]
T == Traces[tid]

Proj ==
  LET sc == ScanLF IN
  [dir |-> [k \in 1..Len(sc) |-> [ts |-> sc[k].ts, c |-> data[dir[sc[k].ts]]]],
   wopen |-> wfile # 0, total |-> total,
   objs |-> [o \in Objs |->
              [lf |-> lf[o], ridx |-> ridx[o], open |-> rf[o].ino # 0, off |-> rf[o].off,
               linked |-> rf[o].ino # 0 /\ ridx[o] < Len(lf[o]) /\ dir[lf[o][ridx[o] + 1].ts] = rf[o].ino,
               closed |-> closed[o], pos |-> [k |-> pos[o].k, ts |-> pos[o].ts, off |-> pos[o].off]]]]

Viol == {n \in {"C13_ExactlyOnceInOrder", "C13_Budget", "C13_NewestKept", "C13_NoOverwrite"} :
           \/ n = "C13_ExactlyOnceInOrder" /\ ~StepExactlyOnce
           \/ n = "C13_Budget" /\ ~StepBudget
           \/ n = "C13_NewestKept" /\ ~StepNewestKept
           \/ n = "C13_NoOverwrite" /\ ~StepNoOverwrite}

InitT ==
  /\ tid \in 1..Len(Traces) /\ i = 0
  /\ fsz = T.fsz /\ tsz = T.tsz /\ InitRest

StepT ==
  /\ i < Len(T.steps)
  /\ LET s == T.steps[i + 1] IN
     \* a timestamp passed while a file is open is not looked at (l.228): the label of the model is the one without
     /\ NextL([a |-> s.l[1], o |-> s.l[2], x |-> s.l[3], y |-> IF s.l[1] \in {"write", "writenf"} /\ wfile # 0 THEN 0 ELSE s.l[4]])
     /\ Proj' = s.obs
     /\ s.chunk = <<0 - 1>> \/ s.chunk = ev'.chunk              \* <<-1>>: read() raised (torn json line)
     /\ s.viol = <<"?">> \/ ToSet(s.viol) = Viol                 \* <<"?">>: monitor verdict not comparable
  /\ i' = i + 1 /\ UNCHANGED tid
DoneT == i = Len(T.steps) /\ UNCHANGED <<vars, tid, i>>
SpecT == InitT /\ [][StepT \/ DoneT]_<<vars, tid, i>>
=============================================================================

"""Engine shared by the protocol checks C01-C07.

For a property P and a list of scenario plans it
  1. model-checks the specification (OFP.tla, Defects = {}) with TLC on each plan's configuration: the design has P;
  2. asks TLC for the shortest behaviour on which each *design mutation* violates P and replays it as a schedule on the
     real code under the observers (mutation-directed schedules);
  3. replays TLC -simulate behaviours of the intended design step by step into the real code, comparing the projection of
     the real objects with the model state after every step (conformance: DRIFT when they differ) - and judges them;
  4. runs seeded random / prompt / adversarial schedules on the real code and judges them with the observers.
A VIOLATION is reported only for a real execution on which an observer formula of P is false.
"""
from __future__ import annotations

import glob
import os
import shutil
import tempfile
import time

from . import common, proto, observers
from .proto import Topo, SimPipeline, ModelDir


# ---------------------------------------------------------------------------------------------------------------------
# schedulers on the real (simulated-network) pipeline

def _is_timeout(a):
    return a[0] == 'timeout'


def run_schedule(pipe: SimPipeline, rng, steps, *, p_timeout=0.0, p_drop=0.0, quiet=250, faults=None):
    """Prompt-biased random scheduler: among the enabled non-timeout actions pick one at random; a timeout fires when
    nothing else is enabled, or with probability p_timeout.  Stops after `steps` or `quiet` steps without any publish or
    delivery while every origin is exhausted.  `faults`: list of (step_no, fn(pipe)) injected at given step numbers."""
    w = pipe.world
    last_progress = 0
    nprog = -1
    faults = sorted(faults or [], key=lambda x: x[0])
    fi = 0
    for n in range(steps):
        while fi < len(faults) and faults[fi][0] <= n:
            faults[fi][1](pipe)
            fi += 1
            last_progress = n          # quiescence is measured from the last injected event
        acts = pipe.enabled()
        if not acts:
            break
        nt = [a for a in acts if not _is_timeout(a)]
        to = [a for a in acts if _is_timeout(a)]
        if nt and not (to and p_timeout and rng.random() < p_timeout):
            a = rng.choice(nt) if rng is not None else nt[0]
            if a[0] == 'dpub' and p_drop and rng.random() < p_drop:
                a = ('drop', a[1])
        else:
            if not to:
                break
            if w.local_clocks and rng is not None:
                a = rng.choice(to)
            else:
                a = min(to, key=lambda x: x[1].deadline())
        pipe.do(a)
        prog = len(w.events)
        if prog != nprog:
            # events include requests, which never stop; count only publishes of data and deliveries
            pass
        cur = sum(len(v) for v in pipe.delivered.values()) + sum(1 for k in pipe.oseq.values() if k)
        key = (sum(len(v) for v in pipe.delivered.values()), tuple(pipe.oseq.values()))
        if key != nprog:
            nprog = key
            last_progress = n
        elif n - last_progress > quiet and fi >= len(faults):
            break
    return n


def finish_prompt(pipe: SimPipeline, rng, steps=400, quiet=150):
    return run_schedule(pipe, rng, steps, p_timeout=0.0, quiet=quiet)


# ---------------------------------------------------------------------------------------------------------------------

def judge(topo, pipe, props, c03=False, complete=False, lazy=False):
    plog = observers.PubLog(topo)
    plog.feed(pipe.world.events)
    v = observers.judge_deliveries(topo, pipe, plog, props)
    v += observers.judge_publishes(topo, plog, props)
    v += observers.judge_requests(topo, plog, props)
    if c03:
        v += [x for x in observers.judge_c03(topo, pipe, complete) if props is None or x[0] in props]
    if lazy:
        v += [x for x in observers.judge_lazy(topo, pipe) if props is None or x[0] in props]
    errs = pipe.errors()
    return v, errs, plog


def sim_behaviours(md: ModelDir, topo: Topo, spec, num, depth, seed, **cfgkw):
    """TLC -simulate behaviours of the model as lists of states (each with `lbl`)."""
    out = tempfile.mkdtemp(prefix='ofpsim_')
    try:
        cfgkw.setdefault('invariants', ())
        res = md.run('sim', topo.mc_cfg(spec, view=False, **cfgkw), simulate=f'file={out}/tr,num={num}', depth=depth,
                     seed=seed, workers=1, timeout=900)
        if res.error or res.timed_out:
            raise common.MachineryError(f'TLC -simulate failed on {topo.name}: {res.error or "timeout"}')
        behs = []
        for fn in sorted(glob.glob(out + '/tr*')):
            behs.append([s for _, s in common.parse_sim_file(fn)])
        return res, behs
    finally:
        shutil.rmtree(out, ignore_errors=True)


def transition_cover(md: ModelDir, topo: Topo, spec, max_len=150, **cfgkw):
    """Exhaustive state graph of a small configuration (TLC -dump dot, `lbl` part of the state so that every edge carries
    its exact label) and a greedy path cover: a list of behaviours from the initial state that together traverse every
    transition of the graph at least once.  Returns (TLCResult, behaviours, n_edges)."""
    import re
    dot = os.path.join(md.dir, 'graph.dot')
    cfgkw.setdefault('invariants', ())
    res = md.run('cover', topo.mc_cfg(spec, view=False, **cfgkw), timeout=900, extra=['-dump', 'dot,actionlabels', dot])
    if res.error or res.timed_out or not os.path.exists(dot):
        raise common.MachineryError(f'TLC state-graph dump failed on {topo.name}: {res.error or "timeout"}')
    txt = open(dot).read()
    nodes, succ = {}, {}
    for m in re.finditer(r'^(-?\d+) \[label="((?:[^"\\]|\\.)*)"', txt, flags=re.M):
        nodes[m.group(1)] = m.group(2)
    init = None
    for m in re.finditer(r'^(-?\d+) -> (-?\d+)', txt, flags=re.M):
        a, b = m.group(1), m.group(2)
        if a == b and False:
            continue
        succ.setdefault(a, [])
        if b not in succ[a]:
            succ[a].append(b)
    cache = {}

    def state(n):
        if n not in cache:
            cache[n] = common.parse_state(nodes[n].replace('\\n', '\n').replace('\\"', '"').replace('\\\\', '\\'))
        return cache[n]
    for n in nodes:
        if '\\"init\\"' in nodes[n]:
            init = n
            break
    if init is None:
        raise common.MachineryError('no initial state in the dumped graph')
    uncovered = {(a, b) for a, bs in succ.items() for b in bs if a != b}
    total = len(uncovered)
    # distance-to-uncovered search
    from collections import deque
    paths = []
    while uncovered:
        path = [init]
        cur = init
        while len(path) < max_len:
            nxt = [b for b in succ.get(cur, []) if (cur, b) in uncovered]
            if nxt:
                b = nxt[0]
                uncovered.discard((cur, b))
                path.append(b)
                cur = b
                continue
            # BFS to the nearest node with an uncovered outgoing edge
            seen, dq, par = {cur}, deque([cur]), {}
            goal = None
            while dq:
                x = dq.popleft()
                if any((x, y) in uncovered for y in succ.get(x, [])):
                    goal = x
                    break
                for y in succ.get(x, []):
                    if y not in seen:
                        seen.add(y)
                        par[y] = x
                        dq.append(y)
            if goal is None or goal == cur:
                break
            hop = []
            x = goal
            while x != cur:
                hop.append(x)
                x = par[x]
            hop.reverse()
            if len(path) + len(hop) >= max_len:
                break
            path += hop
            cur = goal
        if len(path) == 1:
            # remaining uncovered edges are not reachable within max_len from init along this strategy: walk a shortest path
            a, b = next(iter(uncovered))
            seen, dq, par = {init}, deque([init]), {}
            while dq:
                x = dq.popleft()
                if x == a:
                    break
                for y in succ.get(x, []):
                    if y not in seen:
                        seen.add(y)
                        par[y] = x
                        dq.append(y)
            hop = []
            x = a
            while x != init and x in par:
                hop.append(x)
                x = par[x]
            hop.reverse()
            path = [init] + hop + [b]
            uncovered.discard((a, b))
        paths.append([state(n) for n in path])
    return res, paths, total


def labels_of(beh):
    return [tuple(s['lbl']) for s in beh[1:]]


def run_labels(topo: Topo, labels, rng, finish=200, **pipekw):
    """Drive the real pipeline along a label sequence (a schedule); labels that are not enabled are skipped."""
    beh = [{'lbl': ('init', '', 0)}] + [{'lbl': l} for l in labels]
    r = proto.replay(topo, beh, pipe=SimPipeline(topo, **pipekw), compare=False)
    pipe = r['pipe']
    if finish:
        finish_prompt(pipe, rng, finish)
    return pipe, r['skipped']


def replay_trace(topo, trace, pipe=None, **pipekw):
    """Re-execute a recorded world trace (actions + fault entries) on a fresh pipeline (or on `pipe`, started by the caller:
    its own start-up entries are then skipped)."""
    if pipe is not None:
        trace = trace[len(pipe.world.trace):]
    pipe = pipe or SimPipeline(topo, **pipekw)
    w = pipe.world
    first = True
    for e in trace:
        kind = e[0]
        if kind in ('kill', 'restart', 'stall', 'resume'):
            {'kill': lambda: pipe.kill(e[1], e[2]), 'restart': lambda: pipe.restart(e[1]),
             'stall': lambda: pipe.stall(e[1]), 'resume': lambda: pipe.resume(e[1])}[kind]()
            if kind == 'restart':
                w.trace.pop()     # restart() performs (and records) the first run of the new task itself
            continue
        x = e[1]
        if kind == 'tick':
            t = w.tasks.get(x)
            if t is not None and t.enabled_action() is None:
                pipe.do((kind, t))
        elif kind in ('run', 'timeout'):
            t = w.tasks.get(x)
            if t is None or t.enabled_action() != kind:
                continue
            pipe.do((kind, t))
        else:
            l = w.links[x] if x < len(w.links) else None
            if l is None or l.dead or (kind != 'est' and not l.queue):
                continue
            pipe.do((kind, l))
    return pipe


def replay_witness(ctx, props, judgekw=None):
    import json
    w = json.load(open(ctx.replay))
    how = w['witness']['how']
    topo = Topo.from_dict(how['topo_def'])
    ctx.seed = how.get('seed', ctx.seed)
    pipekw = how.get('pipekw') or {}
    if how['kind'] == 'labels':
        pipe, _ = run_labels(topo, [tuple(l) for l in how['labels']], common.rng(ctx, how['origin']), **pipekw)
    else:
        pipe = replay_trace(topo, [tuple(t) for t in how['trace']], **pipekw)
    try:
        v, errs, _ = judge(topo, pipe, set(props), **(judgekw or how.get('judgekw') or {}))
        for f, d in pipe.delivered.items():
            if d:
                print(f'  {f} was handed: ' + '; '.join(f"id {r['id']} {r['frames']}" for r in d[:10]))
        for name, text, wit in v:
            print(f'VIOLATION property={ctx.prop} replay={ctx.replay}')
            print(f'  {name}: {text}')
        if not v:
            print(f'replay of {ctx.replay}: no violation of {sorted(props)} on the current tree')
        return 1 if v else 0
    finally:
        pipe.close()


def validate_traces(topo: Topo, traces, timeout=600):
    """code -> spec: TLC checks that every recorded real execution is a behaviour of OFP (spec/proto/TraceOFP.tla).
    Returns (TLCResult, accepted: set of trace indices (0-based), reached: {index: events matched})."""
    import json
    import re
    d = tempfile.mkdtemp(prefix='ofptrace_')
    try:
        with open(os.path.join(d, 'traces.json'), 'w') as fh:
            json.dump({'traces': traces}, fh)
        with ModelDir(topo, modname=f'MCT_{topo.name}') as md:
            shutil.copy(os.path.join(common.SPEC, 'proto', 'TraceOFP.tla'), md.dir)
            # the MC module extends TraceOFP instead of OFP
            mcp = os.path.join(md.dir, md.mod + '.tla')
            txt = open(mcp).read().replace('EXTENDS OFP', 'EXTENDS TraceOFP')
            open(mcp, 'w').write(txt)
            cfg = topo.mc_cfg('TSpec', view=False, invariants=(), constraint='TConstraint', max_faults=100000,
                              fault_kinds=['kill', 'stall', 'drop'], victims=topo.names)
            res = md.run('trace', cfg, env={'TRACE_FILE': os.path.join(d, 'traces.json')}, workers=1, timeout=timeout,
                         dfs_queue=True)
        if res.error or res.timed_out:
            raise common.MachineryError(f'TLC trace validation failed on {topo.name}: {res.error or "timeout"}')
        acc = {int(m) - 1 for m in re.findall(r'<<"ACC", (\d+)>>', res.out)}
        reached = {}
        for t, n in re.findall(r'<<"AT", (\d+), (\d+)>>', res.out):
            reached[int(t) - 1] = max(reached.get(int(t) - 1, 0), int(n))
        return res, acc, reached
    finally:
        shutil.rmtree(d, ignore_errors=True)


def binding_selftest(rep, topo, ctx):
    """The binding is demonstrated, not assumed: a recorded real execution is accepted; the same execution with one logged
    field corrupted, with one event removed, and with one label changed must each be rejected by TLC."""
    import copy
    rng = common.rng(ctx, 'selftest')
    pipe = SimPipeline(topo, record=True)
    try:
        pipe.start()
        run_schedule(pipe, rng, 300, p_timeout=0.05)
        good = pipe.rec
    finally:
        pipe.close()
    k = len(good) // 2
    bad1 = copy.deepcopy(good)
    f0 = topo.names[0]
    bad1[k]['ms'][f0] += 1
    bad2 = copy.deepcopy(good)
    del bad2[k]
    bad3 = copy.deepcopy(good)
    bad3[k]['l'][0] = 'timeout' if bad3[k]['l'][0] != 'timeout' else 'step'
    res, acc, reached = validate_traces(topo, [good, bad1, bad2, bad3])
    rep.add_tlc(f'{topo.name}/TraceOFP/selftest', res, 'binding self-test: 1 genuine + 3 corrupted traces')
    if 0 not in acc:
        # the code under test itself has drifted from the specification: that is a finding about the code (reported as
        # drift), not a failure of the machinery; the corrupted variants prove nothing in that case
        rep.drift_note(f'{topo.name}: the genuine recorded execution of the binding self-test is not a behaviour of the '
                       f'specification ({reached.get(0)} of {len(good)} events matched)')
        return
    if acc != {0}:
        raise common.MachineryError(f'trace-validation self-test failed: accepted {sorted(acc)} of [genuine, corrupted field, '
                                    f'dropped event, changed label]; reached {reached}')
    rep.extra['binding_selftest'] = {'genuine_accepted': True, 'corrupted_rejected': 3, 'events': len(good),
                                     'rejected_at': {i: reached.get(i) for i in (1, 2, 3)}}
    print(f'  [selftest] trace binding: genuine trace accepted, 3 corrupted variants rejected ({res.wall_s}s)', flush=True)


class Engine:
    def __init__(self, ctx, rep, props):
        self.ctx, self.rep, self.props = ctx, rep, set(props)
        self.nreal = 0

    # -- 1. design-level model checking -------------------------------------------------------------------------------
    def model_check(self, topo, spec, *, name=None, timeout=1500, expect_ok=True, bounds=None, **cfgkw):
        with ModelDir(topo, **(bounds or {})) as md:
            res = md.run('mc', topo.mc_cfg(spec, **cfgkw), timeout=timeout)
        nm = name or f'{topo.name}/{spec}' + (f'/{",".join(cfgkw.get("defects", ()))}' if cfgkw.get('defects') else '')
        self.rep.add_tlc(nm, res, 'design has the property' if expect_ok else 'mutated design: counterexample wanted')
        print(f'  [tlc] {nm}: {res.violated or ("timeout" if res.timed_out else "ok")} {res.distinct} states {res.wall_s}s', flush=True)
        if res.error:
            raise common.MachineryError(f'TLC failed on {nm}: {res.error[-1500:]}')
        if res.timed_out:
            self.rep.note(f'TLC did not finish {nm} within {timeout}s ({res.distinct} distinct states explored, no violation)')
            return res
        if expect_ok and res.violated:
            raise common.MachineryError(f'the intended design violates {res.violated} in {nm}: specification and '
                                        f'expected verdict out of sync\n{res.out[-3000:]}')
        return res

    # -- 2. mutation-directed schedules -----------------------------------------------------------------------------------
    def mutation_schedules(self, topo, spec, mutations, *, invariant='NoViolation', timeout=600, bounds=None, sim=None,
                           judgekw=None, **cfgkw):
        """For every design mutation: the behaviour on which TLC shows the mutated design violating `invariant`,
        replayed as a schedule on the real code and judged."""
        for mut in mutations:
            labels = self.mutation_labels(topo, spec, mut, invariant=invariant, timeout=timeout, bounds=bounds, sim=sim, **cfgkw)
            if labels:
                self.real_run_labels(topo, labels, origin=f'counterexample of design mutation {mut} ({topo.name}/{spec}, depth {len(labels) + 1})',
                                     **(judgekw or {}))

    def mutation_labels(self, topo, spec, mut, *, invariant='NoViolation', timeout=600, bounds=None, sim=None, **cfgkw):
        if True:
            with ModelDir(topo, **(bounds or {})) as md:
                kw = dict(cfgkw)
                kw['defects'] = list(kw.get('defects', ())) + [mut]
                kw['invariants'] = (invariant,)
                if sim:
                    res = md.run('mut', topo.mc_cfg(spec, view=False, **kw), simulate=f'num={sim[0]}', depth=sim[1],
                                 seed=self.ctx.seed + 11, workers=common.NCPU, timeout=timeout)
                else:
                    res = md.run('mut', topo.mc_cfg(spec, **kw), timeout=timeout)
            self.rep.add_tlc(f'{topo.name}/{spec}/mut:{mut}', res, 'mutated design: counterexample wanted')
            print(f'  [tlc] {topo.name}/{spec}/mut:{mut}: {res.violated or ("timeout" if res.timed_out else "no counterexample")} {res.distinct} states {res.wall_s}s', flush=True)
            if res.error:
                raise common.MachineryError(f'TLC failed on mutation {mut} of {topo.name}: {res.error[-1500:]}')
            if not res.violated:
                self.rep.note(f'mutation {mut} on {topo.name}/{spec}: no counterexample within bounds ({res.distinct} states)')
                return None
            ce = [s for _, s in common.parse_counterexample(res.out) if 'lbl' in s]
            return [tuple(s['lbl']) for s in ce[1:]]

    def reach(self, topo, spec, goal, *, timeout=600, bounds=None, judgekw=None, required=True, **cfgkw):
        """A reachability goal of the specification (an X_* formula, false exactly where the situation of interest has just
        happened): TLC's counterexample is the shortest behaviour that gets there; it is replayed into the real code with the
        projected state compared after every step, then run to the end and judged."""
        with ModelDir(topo, **(bounds or {})) as md:
            kw = dict(cfgkw)
            kw['invariants'] = (goal,)
            res = md.run('reach', topo.mc_cfg(spec, **kw), timeout=timeout)
        self.rep.add_tlc(f'{topo.name}/{spec}/reach:{goal}', res, 'reachability goal: a behaviour that gets there is wanted')
        print(f'  [tlc] {topo.name}/{spec}/reach:{goal}: {"reached" if res.violated else ("timeout" if res.timed_out else "NOT reached")} {res.distinct} states {res.wall_s}s', flush=True)
        if res.error:
            raise common.MachineryError(f'TLC failed on reachability goal {goal} of {topo.name}: {res.error[-1500:]}')
        if not res.violated:
            if required and not res.timed_out:
                raise common.MachineryError(f'the specification cannot reach {goal} on {topo.name}/{spec}: the situation it stands for is not modelled')
            self.rep.note(f'reachability goal {goal} on {topo.name}/{spec}: not reached within {timeout}s')
            return None
        beh = [s for _, s in common.parse_counterexample(res.out) if 'lbl' in s]
        r = proto.replay(topo, beh, pipe=SimPipeline(topo, local_clocks=True))
        pipe = r['pipe']
        try:
            self.rep.traces += 1
            if not r['ok']:
                self.rep.drift_note(f'{topo.name}/{spec} behaviour reaching {goal}: real code diverges from the model at step '
                                    f'{r["step"]} {tuple(r["label"])}: {str(r["diff"])[:400]}')
            finish_prompt(pipe, common.rng(self.ctx, f'reach{goal}'), 200)
            self.judge_pipe(topo, pipe, {'kind': 'trace', 'topo': topo.name, 'topo_def': topo.to_dict(), 'seed': self.ctx.seed,
                                         'trace': [list(t) for t in pipe.world.trace], 'pipekw': {},
                                         'origin': f'TLC behaviour reaching {goal} on {topo.name}/{spec} (depth {len(beh)})'},
                            **(judgekw or {}))
        finally:
            pipe.close()
        return r['ok']

    def stored_schedules(self, prefix, **judgekw):
        """Schedules found by long TLC searches (design mutations whose shortest counterexample needs minutes of model
        checking) are kept under spec/proto/schedules/ and replayed on the real code by the quick tier; the thorough tier
        regenerates them (tools/gen_schedules.py)."""
        import json
        n = 0
        for fn in sorted(glob.glob(os.path.join(common.SPEC, 'proto', 'schedules', prefix + '*.json'))):
            d = json.load(open(fn))
            topo = Topo.from_dict(d['topo_def'])
            self.real_run_labels(topo, [tuple(l) for l in d['labels']], origin=d['origin'] + f' [stored: {os.path.basename(fn)}]',
                                 **judgekw)
            n += 1
        print(f'  [stored] {n} stored schedule(s) {prefix}* replayed', flush=True)

    def real_run_labels(self, topo, labels, origin, **judgekw):
        rng = common.rng(self.ctx, origin)
        pipe, skipped = run_labels(topo, labels, rng)
        try:
            self.judge_pipe(topo, pipe, {'kind': 'labels', 'topo': topo.name, 'topo_def': topo.to_dict(),
                                         'seed': self.ctx.seed, 'labels': labels, 'origin': origin}, **judgekw)
        finally:
            pipe.close()

    # -- 3. conformance replay -------------------------------------------------------------------------------------------
    def conformance(self, topo, spec, num, depth, *, bounds=None, judgekw=None, **cfgkw):
        with ModelDir(topo, **(bounds or {})) as md:
            res, behs = sim_behaviours(md, topo, spec, num, depth, self.ctx.seed + 1, **cfgkw)
        self.rep.add_tlc(f'{topo.name}/{spec}/simulate', res, f'{len(behs)} behaviours for spec->code replay')
        print(f'  [tlc] {topo.name}/{spec}/simulate: {len(behs)} behaviours {res.wall_s}s', flush=True)
        ndiv = 0
        t0 = time.time()
        for k, beh in enumerate(behs):
            r = proto.replay(topo, beh, pipe=SimPipeline(topo, local_clocks=True, warn=k % 2 == 0))
            pipe = r['pipe']
            try:
                self.rep.traces += 1
                if not r['ok']:
                    ndiv += 1
                    if ndiv <= 3:
                        self.rep.drift_note(f'{topo.name}/{spec} behaviour {k}: real code diverges from the model at step '
                                            f'{r["step"]} {tuple(r["label"])}: {str(r["diff"])[:400]}')
                    finish_prompt(pipe, common.rng(self.ctx, f'drift{k}'), 200)
                self.judge_pipe(topo, pipe, {'kind': 'trace', 'topo': topo.name, 'topo_def': topo.to_dict(),
                                             'seed': self.ctx.seed, 'trace': [list(t) for t in pipe.world.trace],
                                             'pipekw': {'warn': k % 2 == 0},
                                             'origin': f'TLC -simulate behaviour {k} of {topo.name}/{spec}'},
                                **(judgekw or {}))
                if k == 0:
                    self.rep.sample({'replayed_behaviour': [list(l) for l in labels_of(beh)[:40]], 'topology': topo.name,
                                     'steps': len(beh), 'conforms': r['ok']})
            finally:
                pipe.close()
        print(f'  [replay] {topo.name}/{spec}: {len(behs)} behaviours, {ndiv} diverge, {time.time() - t0:.1f}s', flush=True)
        if ndiv:
            self.rep.note(f'{ndiv}/{len(behs)} replayed behaviours of {topo.name}/{spec} diverge: design-level results do '
                          f'not transfer to this code on those paths')
        return ndiv

    def cover(self, topo, spec, *, bounds=None, max_paths=None, **cfgkw):
        """Transition cover of a small configuration: every transition of the model's state graph is replayed on the real
        code (one path cover), the projection compared after every step."""
        with ModelDir(topo, **(bounds or {})) as md:
            res, paths, total = transition_cover(md, topo, spec, **cfgkw)
        self.rep.add_tlc(f'{topo.name}/{spec}/cover', res, f'state graph dump: {total} transitions, path cover of {len(paths)} behaviours')
        if max_paths and len(paths) > max_paths:
            rng = common.rng(self.ctx, f'cover/{topo.name}')
            paths = rng.sample(paths, max_paths)
        t0 = time.time()
        ndiv = nsteps = 0
        for k, beh in enumerate(paths):
            r = proto.replay(topo, beh)
            pipe = r['pipe']
            try:
                self.rep.traces += 1
                nsteps += len(beh) - 1
                if not r['ok']:
                    ndiv += 1
                    if ndiv <= 3:
                        self.rep.drift_note(f'{topo.name}/{spec} cover path {k}: real code diverges from the model at step '
                                            f'{r["step"]} {tuple(r["label"])}: {str(r["diff"])[:400]}')
                    finish_prompt(pipe, common.rng(self.ctx, f'coverdrift{k}'), 200)
                self.judge_pipe(topo, pipe, {'kind': 'trace', 'topo': topo.name, 'topo_def': topo.to_dict(),
                                             'seed': self.ctx.seed, 'trace': [list(t) for t in pipe.world.trace],
                                             'origin': f'transition-cover path {k} of {topo.name}/{spec}'})
            finally:
                pipe.close()
        self.rep.extra.setdefault('transition_cover', []).append(
            {'config': f'{topo.name}/{spec}', 'model_transitions': total, 'paths_replayed': len(paths), 'steps_replayed': nsteps,
             'paths_diverging': ndiv})
        print(f'  [cover] {topo.name}/{spec}: {total} transitions, {len(paths)} paths ({nsteps} steps) replayed, {ndiv} diverge, '
              f'{time.time() - t0:.1f}s', flush=True)

    # -- 4. random schedules on the real code --------------------------------------------------------------------------------
    def random_runs(self, topo, n, steps, *, p_timeout=0.05, p_drop=0.0, faults=None, judgekw=None, pipekw=None, tag='',
                    validate=0):
        """`validate`: the first `validate` runs are recorded (label + projection per step) and validated by TLC against
        the specification (code -> spec); a rejected trace is drift."""
        t0 = time.time()
        recorded = []
        for k in range(n):
            rng = common.rng(self.ctx, f'{topo.name}/{tag}/{k}')
            pipe = SimPipeline(topo, **dict(dict(warn=k % 2 == 0), **dict(pipekw or {}, record=k < validate)))
            try:
                pipe.start()
                fl = faults(rng, pipe) if faults else None
                run_schedule(pipe, rng, steps, p_timeout=p_timeout, p_drop=p_drop, faults=fl)
                self.judge_pipe(topo, pipe, {'kind': 'trace', 'topo': topo.name, 'topo_def': topo.to_dict(),
                                             'seed': self.ctx.seed, 'origin': f'random schedule {tag}/{k}',
                                             'pipekw': dict(dict(warn=k % 2 == 0), **(pipekw or {})), 'trace': [list(t) for t in pipe.world.trace]},
                                **(judgekw or {}))
                if pipe.rec is not None:
                    recorded.append(pipe.rec)
            finally:
                pipe.close()
        print(f'  [random] {topo.name}/{tag}: {n} runs {time.time() - t0:.1f}s', flush=True)
        if recorded:
            self.validate(topo, recorded, f'{tag} random schedules')

    def validate(self, topo, recorded, what):
        res, acc, reached = validate_traces(topo, recorded)
        self.rep.add_tlc(f'{topo.name}/TraceOFP', res, f'code->spec validation of {len(recorded)} recorded real executions')
        nev = sum(len(r) for r in recorded)
        self.rep.traces += len(acc)
        self.rep.extra['trace_events_validated'] = self.rep.extra.get('trace_events_validated', 0) + sum(len(recorded[i]) for i in acc)
        print(f'  [trace] {topo.name}: {len(acc)}/{len(recorded)} recorded executions ({nev} events) accepted by TLC {res.wall_s}s', flush=True)
        for i in range(len(recorded)):
            if i not in acc:
                at = reached.get(i, 0)
                ev = recorded[i][at] if at < len(recorded[i]) else None
                self.rep.drift_note(f'{topo.name}: recorded execution {i} of {what} is not a behaviour of the specification: '
                                    f'{at} of {len(recorded[i])} events matched; rejected event: {str(ev)[:300]}')
        if recorded and 0 in acc:
            self.rep.sample({'validated_trace_first_events': recorded[0][:3], 'topology': topo.name, 'events': len(recorded[0])}, 8)

    # -- verdicts -------------------------------------------------------------------------------------------------------------
    def judge_pipe(self, topo, pipe, how, c03=False, complete=False, lazy=False, extra=None):
        how['judgekw'] = dict(c03=c03, complete=complete, lazy=lazy)
        v, errs, plog = judge(topo, pipe, self.props, c03=c03, complete=complete, lazy=lazy)
        if extra:
            v += [x for x in extra(topo, pipe, plog) if x[0] in self.props]
        self.nreal += 1
        nd = sum(len(x) for x in pipe.delivered.values())
        self.rep.case((topo.name, how.get('origin') or (how.get('tag'), how.get('k'))), nontrivial=nd > 0)
        if 'NoCrash' in self.props:
            for f, e in errs.items():
                v.append(('NoCrash', f'{f} died of {type(e).__name__}: {e}', {'filter': f}))
        seen = set()
        for name, text, wit in v:
            if name in seen:
                continue
            seen.add(name)
            sig = {'formula': name, 'topology': topo.name}
            self.rep.violation(f'{name}: {text}  [{how.get("origin") or how.get("tag")}]',
                               {'how': how, 'formula': name, 'detail': wit,
                                'deliveries': {f: [(r['id'], r['frames']) for r in d][:12] for f, d in pipe.delivered.items() if d}},
                               sig)
        return v

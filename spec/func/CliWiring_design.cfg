\* the intended design alone (Defects = {}): res is the design, all laws including EmptyRespected on a mixed alphabet; 1-3 filters
CONSTANTS
  Sizes = {1, 2, 3}
  IpcModes = {FALSE, TRUE}
  Names = {"VideoIn", "Util", "Webvis"}
  GivenIds = {}
  NumIds = {}
  SrcForms = {"absent", "assign_empty", "ref"}
  RefSuffixes = {""}
  AddrSuffixes = {""}
  UriSuffixes = {""}
  SrcHosts = {"localhost"}
  SrcPorts = {5552}
  OutForms = {"absent", "assign_empty", "ipc"}
  OutHosts = {"127.0.0.1"}
  Ports = {5552}
  IpcNames = {"Util"}
  Extras = {""}
  Defects = {}
INIT Init
NEXT Next
INVARIANT TypeOK
INVARIANT ErrorsJustified
INVARIANT AsIsUniqueIds
INVARIANT AsIsEverySourceBound
INVARIANT AsIsPortsDisjoint
INVARIANT AsIsPassThrough
INVARIANT AsIsEmptyRespected

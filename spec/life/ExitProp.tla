------------------------------- MODULE ExitProp -------------------------------
(* C08 - exit propagation between filters: who terminates, per propagate/obey policy pair.

   Three filters A, B, C - each one a Lifecycle.tla machine reduced to what its neighbours can see - composed in
       chain   A -> B -> C          tee   A -> B, A -> C          rejoin   A -> B, A -> C, B -> C
   Every edge is a connection of the real pipeline: downstream SUBscribes to / PUSHes requests at upstream's output, and
   out-of-band messages travel in BOTH directions on it (mq.py MQ.send_exit_msg l.129-139: receiver.send_oob to every
   source, sender.send_oob on every output; zeromq.py send_oob l.256-264 / l.699-707, MSG_ID_OOB = -2).

   One filter `who` ends by itself with `kind`: "clean" (exit() / stop event / exit_after -> Filter.Exit or a normal end
   of the loop) or "error" (an Exception).  Filter.run l.1184-1188 announces:  prop_exit & (2 if is_exc else 1).
   A running filter that receives an exit message obeys it iff obey_exit & flag(kind) (on_exit_msg, filter.py l.926-933):
   'clean' -> exit() -> Filter.Exit (a clean end); 'error' -> exit(.., PropagateError) - an Exception, so this filter in
   turn announces 'error' (the kind is preserved along the pipeline) and run() eats it (l.1190): it returns normally.
   Messages to filters that have already ended are lost.  A message is delivered while the pipeline is connected (the
   harness lets frames flow through every edge before the first exit).

   c = [topo, who, kind, prop, obey] is chosen in Init.  Mixed = FALSE: one policy pair for all filters (16 pairs);
   Mixed = TRUE: every filter has its own pair (16^3 assignments).

   Defects (all hypothetical - the code has no known deviation here; each one makes an invariant fail):
     "obey_wrong_flag"            a 'clean' message is obeyed under policy 'error' and vice versa
     "announce_wrong_flag"        the announcement is made under the flag of the other kind
     "error_forwarded_as_clean"   a filter that obeys an 'error' message announces 'clean'
     "announce_downstream_only"   the message is put on the outputs only (not sent to the sources)
   and one deviation of the code that only shows with per-filter (Mixed) policies - reported as a finding, outside the
   property's quantifier (policy PAIRS):
     "oob_read_in_matching_phase" zeromq.py reads a message from downstream (PULL socket) only inside ZMQSender.send
                                  (poll_recv l.322-360) and a message from upstream (SUB socket) only inside
                                  ZMQReceiver.recv (l.748-801).  A filter that waits in recv for a source that has ended
                                  WITHOUT announcing it never reads the exit message of its consumer, and a filter that
                                  waits in send for requests that nobody will make never reads the one of its source.
                                  TLC: with one policy pair for all filters the property still holds (ExitProp_phase_uniform
                                  .cfg); with per-filter pairs C08_Propagation has a counterexample (ExitProp_phase_mixed.cfg).

   CONFIGURATIONS (vlib/c08.py runs them)
     ExitProp_quick / _thorough      Defects = {}, Mixed = TRUE: every invariant for 3 topologies x 3 exiting filters x 2 kinds
                                     x 16^3 per-filter policy assignments x every delivery order
     ExitProp_defect_<name>          one hypothetical deviation on: TLC must report the named invariant violated
     ExitProp_phase_uniform / _mixed the deviation of the code: holds for policy pairs, counterexample for per-filter pairs
     ExitProp_cases_uniform          Emit: the 288 cases of the property's quantifier with their final states, for replay
     ExitProp_cases_mixed / _mixed_phase   Emit: per-filter cases (design) / possible final states of the code as it stands
*)
EXTENDS Naturals, FiniteSets, TLC

CONSTANTS Defects, TopoSet, PropSet, ObeySet, Mixed, Emit

AllDefects == {"obey_wrong_flag", "announce_wrong_flag", "error_forwarded_as_clean", "announce_downstream_only",
               "oob_read_in_matching_phase"}
Policies == {"all", "clean", "error", "none"}
ASSUME Defects \subseteq AllDefects /\ TopoSet \subseteq {"chain", "tee", "rejoin"}
ASSUME PropSet \subseteq Policies /\ ObeySet \subseteq Policies /\ Mixed \in BOOLEAN /\ Emit \in BOOLEAN

Filters == {"A", "B", "C"}
Kinds == {"clean", "error"}
EdgesOf(t) == CASE t = "chain"  -> {<<"A", "B">>, <<"B", "C">>}
                [] t = "tee"    -> {<<"A", "B">>, <<"A", "C">>}
                [] t = "rejoin" -> {<<"A", "B">>, <<"A", "C">>, <<"B", "C">>}

VARIABLES c,          \* the case: [topo, who, kind, prop: Filters -> Policies, obey: Filters -> Policies]
          st,         \* per filter [state: run / ended, how: none / own / obey, kind: what it ended with (none/clean/error),
                      \*             ann: what it announced (none/clean/error), res: running / returned / raised,
                      \*             phase: recv / send - where in loop_once the filter is waiting (only explored with
                      \*             the deviation "oob_read_in_matching_phase"); a source is always in send, a sink in recv]
          inflight,   \* set of exit messages on the wire: [from, to, kind]
          started
vars == <<c, st, inflight, started>>

D(d) == d \in Defects
Has(policy, kind) == policy = "all" \/ policy = kind
Other(kind) == IF kind = "clean" THEN "error" ELSE "clean"
Edges == EdgesOf(c.topo)
Up(f)   == {g \in Filters : <<g, f>> \in Edges}
Down(f) == {g \in Filters : <<f, g>> \in Edges}
Nbrs(f) == Up(f) \cup Down(f)

Init ==
  /\ \E t \in TopoSet, w \in Filters, k \in Kinds :
       \/ ~Mixed /\ \E p \in PropSet, o \in ObeySet :
             c = [topo |-> t, who |-> w, kind |-> k, prop |-> [f \in Filters |-> p], obey |-> [f \in Filters |-> o]]
       \/ Mixed /\ \E p \in [Filters -> PropSet], o \in [Filters -> ObeySet] :
             c = [topo |-> t, who |-> w, kind |-> k, prop |-> p, obey |-> o]
  /\ st = [f \in Filters |-> [state |-> "run", how |-> "none", kind |-> "none", ann |-> "none", res |-> "running",
                               phase |-> IF Up(f) = {} THEN "send" ELSE "recv"]]
  /\ inflight = {}
  /\ started = FALSE

(* a filter ends with `kind`: Shutdown, ExitMsg, Fini, Handlers of Lifecycle.tla in one step as seen from outside *)
EndsSt(f, kind, own) ==
  LET akind == IF ~own /\ kind = "error" /\ D("error_forwarded_as_clean") THEN "clean" ELSE kind
      flag  == IF D("announce_wrong_flag") THEN Other(akind) ELSE akind
      ann   == IF Has(c.prop[f], flag) THEN akind ELSE "none" IN
  [st EXCEPT ![f] = [state |-> "ended", how |-> IF own THEN "own" ELSE "obey", kind |-> kind, ann |-> ann,
                     res |-> IF own /\ kind = "error" THEN "raised" ELSE "returned", phase |-> st[f].phase]]
Obeys(f, kind) == Has(c.obey[f], IF D("obey_wrong_flag") THEN Other(kind) ELSE kind)
Msgs(f, ann) == IF ann = "none" THEN {} ELSE
                  {[from |-> f, to |-> g, kind |-> ann] : g \in IF D("announce_downstream_only") THEN Down(f) ELSE Nbrs(f)}

OwnExit ==
  /\ ~started /\ started' = TRUE
  /\ st' = EndsSt(c.who, c.kind, TRUE)
  /\ inflight' = inflight \cup Msgs(c.who, st'[c.who].ann)
  /\ UNCHANGED c
\* loop_once alternates mq.recv (reads the SUB sockets: messages from upstream) and mq.send (reads the PULL sockets:
\* messages from downstream).  recv completes only while every source still delivers, send only while some consumer
\* still requests (a sender without clients waits, zeromq.py send_maybe l.421).
CanFlip(g) == /\ st[g].state = "run"
              /\ IF st[g].phase = "recv" THEN Down(g) # {} /\ \A u \in Up(g) : st[u].state = "run"
                                         ELSE Up(g) # {} /\ \E d \in Down(g) : st[d].state = "run"
Readable(m) == \/ ~D("oob_read_in_matching_phase") \/ st[m.to].state = "ended"
               \/ st[m.to].phase = (IF m.from \in Down(m.to) THEN "send" ELSE "recv")
Blocked(m) == ~Readable(m) /\ ~CanFlip(m.to)       \* the addressee will never look at the socket this message sits in
Flip(g) ==
  /\ D("oob_read_in_matching_phase") /\ CanFlip(g)
  /\ st' = [st EXCEPT ![g].phase = IF st[g].phase = "recv" THEN "send" ELSE "recv"]
  /\ UNCHANGED <<c, inflight, started>>
Deliver(m) ==
  /\ m \in inflight /\ Readable(m)
  /\ IF st[m.to].state = "run" /\ Obeys(m.to, m.kind)
       THEN /\ st' = EndsSt(m.to, m.kind, FALSE)
            /\ inflight' = (inflight \ {m}) \cup Msgs(m.to, st'[m.to].ann)
       ELSE /\ st' = st
            /\ inflight' = inflight \ {m}
  /\ UNCHANGED <<c, started>>

Next == OwnExit \/ (\E m \in inflight : Deliver(m)) \/ (\E g \in Filters : Flip(g))
Spec == Init /\ [][Next]_vars

Ended == {f \in Filters : st[f].state = "ended"}
Quiescent == started /\ \A m \in inflight : Blocked(m)

(* the property's own formula for "who terminates": the least set containing `who` and closed under
   "f terminated, f's policy propagates this kind, g is a neighbour of f, g's policy obeys this kind" *)
Grow(R) == R \cup {g \in Filters : \E f \in R : g \in Nbrs(f) /\ Has(c.prop[f], c.kind) /\ Has(c.obey[g], c.kind)}
Reach == Grow(Grow(Grow({c.who})))

C08_NoSpuriousExit == \A f \in Ended : f \in Reach
C08_Propagation    == Quiescent => Ended = Reach
C08_WholePipeline  == Quiescent /\ (\A f \in Filters : Has(c.prop[f], c.kind) /\ Has(c.obey[f], c.kind)) => Ended = Filters
C08_KindPreserved  == \A f \in Ended : st[f].kind = c.kind /\ st[f].ann \in {"none", c.kind}
C08_AnnouncePolicy == \A f \in Ended : st[f].ann = (IF Has(c.prop[f], c.kind) THEN c.kind ELSE "none")
C08_Result         == \A f \in Filters : st[f].res = (IF f \notin Ended THEN "running"
                                                      ELSE IF f = c.who /\ c.kind = "error" THEN "raised" ELSE "returned")
C08_NoneIsolates   == Quiescent /\ (\A f \in Filters : c.prop[f] = "none" \/ c.obey[f] = "none") /\ ~Mixed => Ended = {c.who}

TypeOK == /\ \A f \in Filters : st[f].state \in {"run", "ended"}
          /\ \A m \in inflight : m.from \in Filters /\ m.to \in Filters /\ m.kind \in Kinds

\* one line per quiescent state, for the harness (intended design: the final state does not depend on the delivery order,
\* so one line per case; with "oob_read_in_matching_phase" a case can have several final states)
EmitCase == (Emit /\ Quiescent) =>
  PrintT(ToString(<<"CASE", c.topo, c.who, c.kind, [f \in Filters |-> <<c.prop[f], c.obey[f]>>],
                    [f \in Filters |-> <<st[f].state, st[f].ann, st[f].res>>]>>))
view == vars
=============================================================================

CONSTANTS
  Defects = {}
  K = 3
  PropSet = {"all", "clean", "error", "none"}
  ObeySet = {"all", "clean", "error", "none"}
  EASet = {"none", "secs", "ms", "at"}
  WithInterrupt = TRUE
  EarlyExit = TRUE
  Emit = FALSE
INIT Init
NEXT Next
INVARIANT TypeOK
INVARIANT C08_ShutdownOnceIffSetup
INVARIANT C08_CommClosed
INVARIANT C08_StopEvtSet
INVARIANT C08_ReturnVsRaise
INVARIANT C08_Announce
INVARIANT C08_Obey
INVARIANT C08_ObeyEnds
INVARIANT C08_ExitAfter
INVARIANT C08_LogClosed

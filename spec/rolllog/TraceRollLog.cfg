SPECIFICATION SpecT
CONSTANTS
  Readers = {"r1", "r2"}
  AutoRef = {"r1"}
  Sizes = {1, 2, 3, 4}
  FileSizes = {1}
  TotalSizes = {1}
  MaxWrites = 40
  MaxTs = 60
  MaxDeletes = 1000
  MaxReopens = 1000
  MaxPosOps = 1000
  Active = {"r1", "r2", "w"}
  Bin = FALSE
  Acts = {"write", "writenf", "flush", "read", "readblock", "seek", "tell", "refresh", "close", "reopen", "delete", "tick"}
  Defects = {"overwrite", "refresh_skip", "frac_ts"}
CHECK_DEADLOCK TRUE
INVARIANT TypeOK

CONSTANTS
  Alphabet = {"a", "b", "c"}
  MaxLen = 2
  MaxAllow = 2
  MaxMetrics = 2
INIT Init
NEXT Next
INVARIANT InvLockDown
INVARIANT InvOnlyListed
INVARIANT InvSubset
INVARIANT InvUnion
INVARIANT InvMonotone

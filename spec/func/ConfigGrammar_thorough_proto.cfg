CONSTANTS
  Defects = {}
  Mode = "proto"
  MaxMaps = 1
  MaxOpts = 1
  MaxEntries = 4
  WsLevel = 2
INIT Init
NEXT Next
INVARIANT InvProtoEq
INVARIANT InvProtoIdem

SPECIFICATION Spec
CONSTANTS N = 3
  StopExit = {}
INVARIANT TypeOK
INVARIANT R_StopTellsAll
INVARIANT R_Retcodes
PROPERTY R_StepVerdict
PROPERTY R_StopSticky
PROPERTY R_NoneWaitsForAll

SPECIFICATION HSpecC
CONSTANTS
  Readers = {"r1"}
  AutoRef = {}
  Sizes = {1}
  FileSizes = {1, 2}
  TotalSizes = {8}
  MaxWrites = 3
  MaxTs = 1
  MaxDeletes = 1
  MaxReopens = 0
  MaxPosOps = 2
  Active = {"r1"}
  Bin = FALSE
  Acts = {"write", "read", "delete", "delete_up", "refresh"}
  Defects = {}
  MaxCrashes = 1
  MaxSaves = 1
VIEW allview
ACTION_CONSTRAINT HEmit

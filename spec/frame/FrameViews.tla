----------------------------- MODULE FrameViews -----------------------------
(* C10 - frame views never go stale, never alias what they promise to copy.

   Specification of the image side of openfilter/filter_runtime/frame.py (class Frame) as a state machine.

   STATE.  A heap of memory objects and a list of Frame objects.

     heap[i]   = [kind, w, ver, src, sv, conv]
        kind   "img" (an ndarray of pixels) or "jpg" (an encoded blob: bytes / bytearray)
        w      flags.writeable of the array (blobs: FALSE - writing into a jpg bytearray is outside the property)
        ver    number of in-place edits (Poke) made to the object since it was allocated
        src,sv,conv   how the object was made: from heap[src] when that had version sv, through conv:
               "root"  (src = 0) given from outside (start array, start jpg)
               "id"    ndarray.copy() / pickle copy
               "swap"  cv2.cvtColor(.., COLOR_RGB2BGR): exact channel swap RGB <-> BGR
               "lumRGB" / "lumBGR"   cv2.cvtColor(.., COLOR_RGB2GRAY / COLOR_BGR2GRAY): standard luminance
               "rep"   GRAY -> RGB/BGR (the code calls COLOR_RGB2BGR on a 2-d array; OpenCV replicates the channel)
               "enc"   cv2.imencode('.jpg', ..)      "decC" / "decG"   cv2.imdecode(.., IMREAD_COLOR / 0)
        Distinct heap objects never share memory; two frames alias iff they hold the same heap index.

     frames[f] = [img, fmt, jpg, crgb, cbgr, cgray]
        img    heap index of Frame.__image, 0 = "image is False": jpg-only frame, not decoded yet
        fmt    "RGB" | "BGR" | "GRAY"            (Frame.__shapef[1])
        jpg    heap index of Frame.__jpg, 0 = "jpg is False": not encoded (yet)
        crgb, cbgr, cgray   frame index held in Frame.__ro_rgb / __ro_bgr / __ro_gray, 0 = attribute not set
        Frames without image (Frame(None), data-only) are outside the property: every accessor returns self.

   ACTIONS.  One per public operation of the property's quantifier, applied to any live frame, plus Poke(b) =
   "write pixels through any writable image".  Every operator below names the lines of frame.py it transcribes.

   PROPERTY.  Fresh, NoAlias, RoStaysRo, JpgOnlyOnFrozen (+ JpgFresh for the blob handed out by `.jpg`).

   Defects (named deviations of the code from the intended design; Defects = {} is the intended design):
     "ro_x_caches_writable"  GENUINE, frame.py l.454-459 / l.479-484: ro_rgb / ro_bgr store their converted result in
                             __ro_rgb / __ro_bgr and return it on later calls even when the source image is writable
                             (rgb/bgr/gray cache only for read-only sources).  After an in-place edit of the source the
                             next ro_rgb / ro_bgr returns the old pixels.
     "jpg_caches_writable"   hypothetical (mutant class, used to show JpgOnlyOnFrozen is not vacuous):
                             `.jpg` caches the encoding of a writable image.
     "rw_in_place"           hypothetical (mutant class, shows RoStaysRo is not vacuous): `.rw` of a read-only image
                             flips flags.writeable and returns self.

   CONFIGURATIONS (vlib/c10.py runs them):
     FrameViews_quick / _thorough   Defects = {}, MaxOps = 3 / 4, all 12 start frames: TLC proves every invariant and
                                    [][RoStaysRoAct]_vars for every operation sequence of that length
     FrameViews_defect_stale / _jpg / _rw   one defect on: TLC must report Fresh / JpgOnlyOnFrozen / RoStaysRo violated
                                    (stale: start rw, ro_x(1), Poke(1), ro_x(1) - replayed on the code by the harness)
     FrameViews_cover_quick / _thorough     the code as it stands (Defects = genuine ones): VIEW viewCover +
                                    ACTION_CONSTRAINT EmitCover print one line per transition of the state graph
                                    (path to the source state, label, successor state) for the replay harness
     FrameViews_sim                 -simulate behaviours of 12 operations, written one file per behaviour
   The harness rewrites StartKinds / StartFmts / Defects of the cover and sim configurations into a scratch copy
   (one TLC run per group of start frames; Defects = {} once the genuine defect is repaired in the code). *)
EXTENDS Integers, Sequences, FiniteSets, TLC

CONSTANTS StartKinds,   \* subset of {"rw", "ro", "lazy", "now"}: how the first frame is made (see Init)
          StartFmts,    \* subset of Formats: its format
          MaxOps,       \* length bound of the operation sequences (Poke counts as an operation)
          Defects,      \* subset of AllDefects
          CountNoops,   \* TRUE: every operation counts towards MaxOps.  FALSE (cover configurations): operations that
                        \* change nothing (return self / a cached frame) are free, so they are self-loops of the state
                        \* graph and every sequence of <= MaxOps operations is still a path of the graph
          Emit          \* TRUE: the cover configuration prints every generated transition (see EmitCover)

AllDefects == {"ro_x_caches_writable", "jpg_caches_writable", "rw_in_place"}
ASSUME StartKinds \subseteq {"rw", "ro", "lazy", "now"} /\ StartFmts \subseteq {"RGB", "BGR", "GRAY"}
ASSUME Defects \subseteq AllDefects /\ MaxOps \in Nat /\ Emit \in BOOLEAN /\ CountNoops \in BOOLEAN

VARIABLES heap, frames,
          last,         \* the operation just performed: what was called on which frame and what it returned
          nops,
          path          \* history: labels of the operations so far (excluded from the fingerprint by VIEW)
vars == <<heap, frames, last, nops, path>>
view == <<heap, frames, last, nops>>     \* model checking: `last` matters to the invariants
viewCover == <<heap, frames, nops>>      \* cover: one node per reachable world; `last` is a function of the edge

Formats == {"RGB", "BGR", "GRAY"}
Color   == {"RGB", "BGR"}

Obj(kind, w, src, sv, conv) == [kind |-> kind, w |-> w, ver |-> 0, src |-> src, sv |-> sv, conv |-> conv]
Frm(img, fmt, jpg) == [img |-> img, fmt |-> fmt, jpg |-> jpg, crgb |-> 0, cbgr |-> 0, cgray |-> 0]

\* conversion applied by .rgb/.bgr/.gray & co. between two formats  (frame.py l.370, 389, 408, 427, 438, 458, 483)
Conv(from, to) ==
  IF from = to THEN "id"
  ELSE IF to = "GRAY" THEN (IF from = "RGB" THEN "lumRGB" ELSE "lumBGR")     \* l.408 / l.413
  ELSE IF from = "GRAY" THEN "rep"                                            \* COLOR_RGB2BGR on a 2-d array
  ELSE "swap"
DecConv(fmt) == IF fmt = "GRAY" THEN "decG" ELSE "decC"                      \* Frame.decode l.185-186

Cache(F, T) == IF T = "RGB" THEN F.crgb ELSE IF T = "BGR" THEN F.cbgr ELSE F.cgray
SetCache(fr, f, T, n) ==
  IF T = "RGB" THEN [fr EXCEPT ![f].crgb = n] ELSE IF T = "BGR" THEN [fr EXCEPT ![f].cbgr = n]
  ELSE [fr EXCEPT ![f].cgray = n]

(* ---- building blocks: a "world" is [h, fr]; an operation result adds ret (frame returned) and blob ------------ *)
Cur == [h |-> heap, fr |-> frames]

\* Frame.image (property, l.240-250): a jpg-only frame decodes its jpg into a NEW READ-ONLY array and keeps it
Dec(W, f) ==
  IF W.fr[f].img # 0 THEN W
  ELSE [h  |-> Append(W.h, Obj("img", FALSE, W.fr[f].jpg, W.h[W.fr[f].jpg].ver, DecConv(W.fr[f].fmt))),
        fr |-> [W.fr EXCEPT ![f].img = Len(W.h) + 1]]

Self(W, f)   == [h |-> W.h, fr |-> W.fr, ret |-> f, blob |-> 0]
Give(W, g)   == [h |-> W.h, fr |-> W.fr, ret |-> g, blob |-> 0]

\* Frame(<new array made from self's image by conv>, self, fmt): a NEW frame over a NEW array (jpg = False)
\* cacheT # "none": also remember the new frame in self.__ro_<cacheT>
Derive(W, f, conv, w, fmt, cacheT) ==
  LET s  == W.fr[f].img
      nb == Len(W.h) + 1
      nf == Len(W.fr) + 1
      h2 == Append(W.h, Obj("img", w, s, W.h[s].ver, conv))
      f2 == Append(W.fr, Frm(nb, fmt, 0))
  IN [h |-> h2, fr |-> IF cacheT = "none" THEN f2 ELSE SetCache(f2, f, cacheT, nf), ret |-> nf, blob |-> 0]

\* Frame(self [, data][, format]) (l.88-93): a NEW frame sharing image AND cached jpg; the __ro_* caches are not copied
Share(W, f, fmt) ==
  [h |-> W.h, fr |-> Append(W.fr, Frm(W.fr[f].img, fmt, W.fr[f].jpg)), ret |-> Len(W.fr) + 1, blob |-> 0]

IsRw(W, f) == W.fr[f].img # 0 /\ W.h[W.fr[f].img].w         \* Frame.is_rw l.319
IsLazy(W, f) == W.fr[f].img = 0

(* ---- the operations -------------------------------------------------------------------------------------------- *)
\* copy() l.230-238: "image copy of writable image, no copy if image is readonly" (a jpg-only frame stays jpg-only)
OpCopy(f) ==
  LET F == frames[f] IN
  IF IsRw(Cur, f)
  THEN [h  |-> Append(heap, Obj("img", TRUE, F.img, heap[F.img].ver, "id")),
        fr |-> Append(frames, Frm(Len(heap) + 1, F.fmt, F.jpg)), ret |-> Len(frames) + 1, blob |-> 0]
  ELSE Share(Cur, f, F.fmt)

\* rw l.339-346: self if writable, else decode and NEW frame with NEW writable copy
OpRw(f) ==
  IF IsRw(Cur, f) THEN Self(Cur, f)
  ELSE IF "rw_in_place" \in Defects /\ ~IsLazy(Cur, f)
       THEN Self([h |-> [heap EXCEPT ![frames[f].img].w = TRUE], fr |-> frames], f)
       ELSE Derive(Dec(Cur, f), f, "id", TRUE, frames[f].fmt, "none")

\* ro l.349-359: self if read-only or jpg-only, else NEW frame with NEW read-only copy
OpRo(f) ==
  IF ~IsRw(Cur, f) THEN Self(Cur, f) ELSE Derive(Cur, f, "id", FALSE, frames[f].fmt, "none")

\* rgb / bgr / gray l.362-416: self if already T; decode; writable source -> NEW writable conversion, never cached;
\* read-only source -> cached conversion (self.__ro_T) or NEW read-only conversion which is then cached
OpFmt(f, T) ==
  IF frames[f].fmt = T THEN Self(Cur, f)
  ELSE LET W == Dec(Cur, f) IN
       IF IsRw(W, f) THEN Derive(W, f, Conv(frames[f].fmt, T), TRUE, T, "none")
       ELSE IF Cache(W.fr[f], T) # 0 THEN Give(W, Cache(W.fr[f], T))
       ELSE Derive(W, f, Conv(frames[f].fmt, T), FALSE, T, T)

\* rw_rgb / rw_bgr l.419-438: self if already writable T (decodes first), else NEW writable (copy | conversion)
OpRwFmt(f, T) ==
  LET W == Dec(Cur, f) IN
  IF frames[f].fmt = T THEN (IF IsRw(W, f) THEN Self(W, f) ELSE Derive(W, f, "id", TRUE, T, "none"))
  ELSE Derive(W, f, Conv(frames[f].fmt, T), TRUE, T, "none")

\* ro_rgb / ro_bgr l.441-488
OpRoFmt(f, T) ==
  IF frames[f].fmt = T
  THEN (IF ~IsRw(Cur, f) THEN Self(Cur, f)                                      \* l.449-450 (jpg-only: no decode)
        ELSE Derive(Cur, f, "id", FALSE, T, "none"))                            \* l.452: copy, not cached
  ELSE IF IsRw(Cur, f) /\ "ro_x_caches_writable" \notin Defects
       THEN Derive(Cur, f, Conv(frames[f].fmt, T), FALSE, T, "none")            \* intended: no cache for rw source
       ELSE IF Cache(frames[f], T) # 0 THEN Give(Cur, Cache(frames[f], T))     \* l.454-455 (before any decode)
       ELSE Derive(Dec(Cur, f), f, Conv(frames[f].fmt, T), FALSE, T, T)         \* l.458-459: converted AND cached

\* read .image l.240-250
OpImage(f) == Self(Dec(Cur, f), f)

\* read .jpg l.281-298: cached blob, or encode now; "cached in self for future returns if self is readonly"
JpgOf(W, f) ==
  IF W.fr[f].jpg # 0 THEN [h |-> W.h, fr |-> W.fr, ret |-> f, blob |-> W.fr[f].jpg]
  ELSE LET b  == W.fr[f].img
           nj == Len(W.h) + 1
           h2 == Append(W.h, Obj("jpg", FALSE, b, W.h[b].ver, "enc"))
       IN [h |-> h2,
           fr |-> IF ~W.h[b].w \/ "jpg_caches_writable" \in Defects THEN [W.fr EXCEPT ![f].jpg = nj] ELSE W.fr,
           ret |-> f, blob |-> nj]
OpJpg(f) == JpgOf(Cur, f)

\* pickle round trip: __reduce__ / unreduce l.130-148: image, jpg and writability travel; the __ro_* caches do not
OpPickle(f) ==
  LET F  == frames[f]
      h1 == IF F.img = 0 THEN heap ELSE Append(heap, Obj("img", heap[F.img].w, F.img, heap[F.img].ver, "id"))
      ni == IF F.img = 0 THEN 0 ELSE Len(h1)
      h2 == IF F.jpg = 0 THEN h1 ELSE Append(h1, Obj("jpg", FALSE, F.jpg, heap[F.jpg].ver, "id"))
      nj == IF F.jpg = 0 THEN 0 ELSE Len(h2)
  IN [h |-> h2, fr |-> Append(frames, Frm(ni, F.fmt, nj)), ret |-> Len(frames) + 1, blob |-> 0]

\* Frame(frame, new data) / Frame(frame, None, other colour format) l.88-93 (GRAY <-> colour relabelling of a
\* 3-channel array is an invalid request, not a view)
OpFromFrame(f, relabel) ==
  Share(Cur, f, IF ~relabel THEN frames[f].fmt ELSE IF frames[f].fmt = "RGB" THEN "BGR" ELSE "RGB")

\* Frame(frame.image, frame) l.95-120: constructed from the array: shares the array, jpg = False
OpFromArray(f) ==
  LET W == Dec(Cur, f) IN
  [h |-> W.h, fr |-> Append(W.fr, Frm(W.fr[f].img, frames[f].fmt, 0)), ret |-> Len(W.fr) + 1, blob |-> 0]

\* Frame.from_jpg(frame.jpg, None, h, w, fmt) l.192-226 with dimensions: jpg-only frame (lazy = TRUE);
\* without dimensions: decoded at once into a read-only array, jpg kept (lazy = FALSE)
OpFromJpg(f, lazy) ==
  LET J == JpgOf(Cur, f)
      nf == Len(J.fr) + 1
  IN IF lazy THEN [h |-> J.h, fr |-> Append(J.fr, Frm(0, frames[f].fmt, J.blob)), ret |-> nf, blob |-> J.blob]
     ELSE [h  |-> Append(J.h, Obj("img", FALSE, J.blob, 0, DecConv(frames[f].fmt))),
           fr |-> Append(J.fr, Frm(Len(J.h) + 1, frames[f].fmt, J.blob)), ret |-> nf, blob |-> J.blob]

FrameOps == {"copy", "rw", "ro", "rgb", "bgr", "gray", "rw_rgb", "rw_bgr", "ro_rgb", "ro_bgr", "image", "jpg",
             "pickle", "ff_same", "ff_relabel", "fromarray", "fromjpg_lazy", "fromjpg_now"}

Apply(op, f) ==
  CASE op = "copy"   -> OpCopy(f)
    [] op = "rw"     -> OpRw(f)
    [] op = "ro"     -> OpRo(f)
    [] op = "rgb"    -> OpFmt(f, "RGB")
    [] op = "bgr"    -> OpFmt(f, "BGR")
    [] op = "gray"   -> OpFmt(f, "GRAY")
    [] op = "rw_rgb" -> OpRwFmt(f, "RGB")
    [] op = "rw_bgr" -> OpRwFmt(f, "BGR")
    [] op = "ro_rgb" -> OpRoFmt(f, "RGB")
    [] op = "ro_bgr" -> OpRoFmt(f, "BGR")
    [] op = "image"  -> OpImage(f)
    [] op = "jpg"    -> OpJpg(f)
    [] op = "pickle" -> OpPickle(f)
    [] op = "ff_same"      -> OpFromFrame(f, FALSE)
    [] op = "ff_relabel"   -> OpFromFrame(f, TRUE)
    [] op = "fromarray"    -> OpFromArray(f)
    [] op = "fromjpg_lazy" -> OpFromJpg(f, TRUE)
    [] op = "fromjpg_now"  -> OpFromJpg(f, FALSE)

SrcKind(f) == IF IsLazy(Cur, f) THEN "lazy" ELSE IF IsRw(Cur, f) THEN "rw" ELSE "ro"

Do(op, f) ==
  /\ op = "ff_relabel" => frames[f].fmt \in Color
  /\ LET r == Apply(op, f) IN
     /\ heap' = r.h
     /\ frames' = r.fr
     /\ last' = [op |-> op, a |-> f, ret |-> r.ret, blob |-> r.blob, h0 |-> Len(heap), sk |-> SrcKind(f)]

\* writing pixels through a writable image (any frame holding it, or a reference obtained from `.image` earlier)
Poke(b) ==
  /\ heap[b].kind = "img" /\ heap[b].w
  /\ heap' = [heap EXCEPT ![b].ver = @ + 1]
  /\ UNCHANGED frames
  /\ last' = [op |-> "poke", a |-> b, ret |-> 0, blob |-> 0, h0 |-> Len(heap), sk |-> "rw"]

NextL(lbl) ==
  /\ nops < MaxOps
  /\ path' = Append(path, lbl)
  /\ IF lbl.op = "poke" THEN lbl.a \in 1..Len(heap) /\ Poke(lbl.a)
     ELSE lbl.a \in 1..Len(frames) /\ Do(lbl.op, lbl.a)
  /\ nops' = IF CountNoops \/ heap' # heap \/ frames' # frames THEN nops + 1 ELSE nops

Labels == [op : FrameOps \cup {"poke"}, a : 1..(2 * MaxOps + 2)]
Next == \E lbl \in Labels : NextL(lbl)

(* ---- start frames: writable / read-only arrays, jpg-only frames, frames decoded from a jpg; x 3 formats = 12 ---- *)
Init0(h, F, k) ==
  /\ heap = h /\ frames = <<F>> /\ nops = 0 /\ path = <<[op |-> k, a |-> 0]>>     \* path[1] names the start
  /\ last = [op |-> "init", a |-> 1, ret |-> 1, blob |-> 0, h0 |-> Len(h), sk |-> "none"]
Init ==
  \E fmt \in StartFmts, k \in StartKinds :
    CASE k = "rw"   -> Init0(<<Obj("img", TRUE, 0, 0, "root")>>, Frm(1, fmt, 0), "start_rw")          \* Frame(array, None, fmt)
      [] k = "ro"   -> Init0(<<Obj("img", FALSE, 0, 0, "root")>>, Frm(1, fmt, 0), "start_ro")         \* same, array read-only
      [] k = "lazy" -> Init0(<<Obj("jpg", FALSE, 0, 0, "root")>>, Frm(0, fmt, 1), "start_lazy")         \* from_jpg(b, None, h, w, fmt)
      [] k = "now"  -> Init0(<<Obj("jpg", FALSE, 0, 0, "root"), Obj("img", FALSE, 1, 0, DecConv(fmt))>>,
                             Frm(2, fmt, 1), "start_now")                                 \* from_jpg(b, format=fmt)

Spec == Init /\ [][Next]_vars

(* ==== the property ============================================================================================= *)
\* x currently holds exactly conv(pixels of s now)
Derives(x, s, conv) == heap[x].src = s /\ heap[x].conv = conv /\ heap[x].ver = 0 /\ heap[x].sv = heap[s].ver

\* representative of the objects that hold the very same bytes right now (follow valid "id" copies)
RECURSIVE Canon(_)
Canon(x) == IF heap[x].conv = "id" /\ Derives(x, heap[x].src, "id") THEN Canon(heap[x].src) ELSE x

EncNow(j, b) == LET j0 == Canon(j) IN                   \* blob j is the encoding of the pixels b holds now
  /\ heap[j0].conv = "enc" /\ heap[heap[j0].src].ver = heap[j0].sv /\ Canon(heap[j0].src) = Canon(b)
DecNow(b, j) == LET b0 == Canon(b) IN                   \* array b holds the decoding of blob j
  /\ heap[b0].conv \in {"decC", "decG"} /\ heap[b0].ver = 0 /\ Canon(heap[b0].src) = Canon(j)

ViewOps == FrameOps \ {"image", "jpg", "fromjpg_lazy", "fromjpg_now"}
ExpFmt(op, fmt) ==
  IF op \in {"rgb", "rw_rgb", "ro_rgb"} THEN "RGB" ELSE IF op \in {"bgr", "rw_bgr", "ro_bgr"} THEN "BGR"
  ELSE IF op = "gray" THEN "GRAY" ELSE IF op = "ff_relabel" THEN (IF fmt = "RGB" THEN "BGR" ELSE "RGB") ELSE fmt

\* Fresh: the frame an accessor returns has the requested format and shows the pixels its source has at the moment
\* of the call (it is the source, shares the source's array, or holds conv(source now)) - cached results included
Fresh ==
  last.op \in ViewOps =>
    LET S == frames[last.a]
        R == frames[last.ret]
        K == IF last.op = "ff_relabel" THEN "id" ELSE Conv(S.fmt, R.fmt)
    IN /\ R.fmt = ExpFmt(last.op, S.fmt)
       /\ \/ last.ret = last.a
          \/ R.img = 0 /\ S.img = 0 /\ Canon(R.jpg) = Canon(S.jpg)
          \/ R.img # 0 /\ S.img # 0 /\ ((R.img = S.img /\ K = "id") \/ Derives(R.img, S.img, K))

\* the calls documented to return a NEW copy ("NEW Frame with a NEW writable/readonly copy", "image copy of writable")
NewCopyCall ==
  \/ last.op = "rw" /\ last.sk # "rw"
  \/ last.op \in {"ro", "copy"} /\ last.sk = "rw"
  \/ last.op \in {"rw_rgb", "rw_bgr"} /\ ~(last.sk = "rw" /\ frames[last.a].fmt = ExpFmt(last.op, "GRAY"))
  \/ last.op \in {"ro_rgb", "ro_bgr"} /\ ~(last.sk # "rw" /\ frames[last.a].fmt = ExpFmt(last.op, "GRAY"))
NoAlias ==
  NewCopyCall =>
    LET r == frames[last.ret].img IN
    /\ r # 0 /\ r # frames[last.a].img
    /\ \A g \in 1..Len(frames) : g # last.ret /\ frames[g].img = r =>        \* held by nobody else, unless it is the
         last.op \in {"ro_rgb", "ro_bgr"} /\ ~heap[r].w                       \* frozen cached conversion

\* read-only images are never made writable in place
RoStaysRoAct == \A b \in 1..Len(heap) : ~heap[b].w => ~heap'[b].w
RoStaysRo == [][RoStaysRoAct]_vars

\* a cached jpg sits only on pixels that can no longer change, and is the encoding of / the origin of those pixels
JpgOnlyOnFrozen ==
  \A f \in 1..Len(frames) :
    LET F == frames[f] IN
    F.jpg # 0 /\ F.img # 0 => ~heap[F.img].w /\ (EncNow(F.jpg, F.img) \/ DecNow(F.img, F.jpg))

\* the blob handed out by `.jpg` encodes (or is the origin of) the pixels the frame shows at that moment
JpgFresh ==
  last.op \in {"jpg", "fromjpg_lazy", "fromjpg_now"} =>
    LET F == frames[last.a] IN
    IF F.img = 0 THEN Canon(last.blob) = Canon(F.jpg)
    ELSE EncNow(last.blob, F.img) \/ DecNow(F.img, last.blob)

\* auxiliary (design-level, not part of C10's statement): the writability the accessor names promise
ViewKind ==
  last.op \in ViewOps =>
    LET R == frames[last.ret]
        rw == R.img # 0 /\ heap[R.img].w
    IN /\ last.op \in {"rw", "rw_rgb", "rw_bgr"} => rw
       /\ last.op \in {"ro", "ro_rgb", "ro_bgr"} => ~rw
       /\ last.op \in {"rgb", "bgr", "gray", "copy", "pickle", "ff_same", "ff_relabel", "fromarray"} =>
            (rw <=> last.sk = "rw")

TypeOK ==
  /\ \A i \in 1..Len(heap) :
       /\ heap[i].kind \in {"img", "jpg"} /\ heap[i].src \in 0..(i - 1)
       /\ heap[i].kind = "jpg" => ~heap[i].w
  /\ \A f \in 1..Len(frames) :
       /\ frames[f].img \in 0..Len(heap) /\ frames[f].jpg \in 0..Len(heap)
       /\ frames[f].img # 0 \/ frames[f].jpg # 0
       /\ frames[f].img # 0 => heap[frames[f].img].kind = "img"
       /\ frames[f].jpg # 0 => heap[frames[f].jpg].kind = "jpg"
       /\ \A c \in {frames[f].crgb, frames[f].cbgr, frames[f].cgray} : c \in 0..Len(frames)
  /\ nops <= Len(path)

(* ---- cover: print every generated transition (path to it, successor state) for the replay harness ------------- *)
CObj(o) == <<o.kind, o.w, o.ver, o.src, o.sv, o.conv>>
CFrm(F) == <<F.img, F.fmt, F.jpg, F.crgb, F.cbgr, F.cgray>>
CLbl(l) == <<l.op, l.a>>
EmitCover ==
  Emit => PrintT(ToString(<<"TR", [i \in 1..Len(path') |-> CLbl(path'[i])], [i \in 1..Len(heap') |-> CObj(heap'[i])],
                            [i \in 1..Len(frames') |-> CFrm(frames'[i])],
                            <<last'.op, last'.a, last'.ret, last'.blob, last'.h0, last'.sk>>>>))
=============================================================================

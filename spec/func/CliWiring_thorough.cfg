\* facet "chain": auto-chaining to the last filter that can feed others; absent / bare / empty-assigned --sources and --outputs; filters with non-mq outputs; exhaustive for 1-4 filters
CONSTANTS
  Sizes = {1, 2, 3, 4}
  IpcModes = {FALSE, TRUE}
  Names = {"VideoIn", "Webvis", "VideoOut"}
  GivenIds = {}
  NumIds = {}
  SrcForms = {"absent", "assign_empty", "bare", "uri"}
  RefSuffixes = {""}
  AddrSuffixes = {""}
  UriSuffixes = {""}
  SrcHosts = {"localhost"}
  SrcPorts = {5552}
  OutForms = {"absent", "assign_empty", "bare", "tcp", "uri"}
  OutHosts = {"127.0.0.1"}
  Ports = {0, 5552}
  IpcNames = {"pipe"}
  Extras = {""}
  Defects = {"assign_empty_ignored"}
INIT Init
NEXT Next
INVARIANT TypeOK
INVARIANT ErrorsJustified
INVARIANT DesignUniqueIds
INVARIANT DesignEverySourceBound
INVARIANT DesignPortsDisjoint
INVARIANT DesignPassThrough
INVARIANT DesignEmptyRespected
INVARIANT AsIsUniqueIds
INVARIANT AsIsEverySourceBound
INVARIANT AsIsPortsDisjoint
INVARIANT AsIsPassThrough

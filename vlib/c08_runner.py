"""C08 at the level of the multi-process supervisor: spec/life/Runner.tla model checked, its -simulate behaviours stepped
through the real Filter.Runner (child processes and their multiprocessing events replaced by plain objects, so that a
child's two observable steps - stop event set in the `finally` of run(), exit code readable - are driven by the
specification), with the projected state compared after every action."""
import glob
import os
import shutil
import tempfile
import threading

from . import common
from .common import run_tlc, tlc_must_pass, MachineryError

SPEC_DIR = os.path.join(common.VERIF, 'spec', 'life') if hasattr(common, 'VERIF') else \
    os.path.join(os.path.dirname(os.path.dirname(os.path.abspath(__file__))), 'spec', 'life')

POLICY = {frozenset(): 'none', frozenset({'clean'}): 'clean', frozenset({'error'}): 'error',
          frozenset({'clean', 'error'}): 'all'}
CODE = {'none': None, 'clean': 0, 'error': 1}


class FakeProc:
    def __init__(self, target=None, args=(), kwargs=None, daemon=None):
        self.exitcode, self.started, self.terminated, self.kwargs = None, False, False, kwargs or {}

    def start(self):
        self.started = True

    def is_alive(self):
        return self.started and self.exitcode is None

    def join(self, timeout=None):
        if self.exitcode is None:
            raise AssertionError('join() of a process that has not ended (the specification enables Join only after every exit)')

    def terminate(self):
        self.terminated = True


class FakeMP:
    """stands in for the `mp` name of openfilter.filter_runtime.filter while a Runner is driven"""
    Process = FakeProc
    Event = threading.Event

    @staticmethod
    def get_start_method():
        return 'spawn'


class Rig:
    def __init__(self, n, stop_exit):
        import openfilter.filter_runtime.filter as F
        self.F, self.saved = F, F.mp
        F.mp = FakeMP
        try:
            class Dummy(F.Filter):
                pass
            self.runner = F.Filter.Runner([(Dummy, {'id': f'f{i}'}) for i in range(n)], stop_exit=POLICY[frozenset(stop_exit)],
                                          sig_stop=False, exit_time=None, step_wait=0, start=True)
        finally:
            F.mp = self.saved
        self.phase, self.last = 'run', ('init', 'none', 'none')
        self.reasons = []
        r = self.runner
        r.stop_ = lambda s: (self.reasons.append(s), r.stop_evt.set())

    def do(self, name, st_before, st_after):
        r = self.runner
        if name in ('ChildStopEvt', 'ChildExit', 'ChildKilled'):
            i = next(k for k in st_after['pstop'] if st_after['pstop'][k] != st_before['pstop'][k] or
                     st_after['code'][k] != st_before['code'][k])
            if name == 'ChildStopEvt':
                r.procs[i - 1].kwargs['stop_evt'].set()      # the event handed to the child's Filter.run
            else:
                r.procs[i - 1].exitcode = CODE[st_after['code'][i]]
        elif name == 'External':
            r.stop_evt.set()
        elif name == 'Step':
            self.reasons.clear()
            res = r.step(0, stop=False)
            why = self.reasons[0] if self.reasons else ('none' if res is False else 'external')
            self.last = ('step', 'false' if res is False else 'true' if res is True else repr(res), why)
        elif name == 'Stop':
            res = r.stop(join=False)
            self.phase, self.last = 'stopped', ('stop', 'none' if res is None else repr(res), 'none')
        elif name == 'Join':
            r.join()
            self.phase, self.last = 'joined', ('join', 'none', 'none')
        else:
            raise MachineryError(f'Runner.tla action {name!r} has no binding')

    def project(self):
        r = self.runner
        n = len(r.procs)
        kind = lambda c: 'none' if c is None else 'clean' if c == 0 else 'error'
        return {'pstop': {i + 1: r.proc_stops[i].is_set() for i in range(n)},
                'code': {i + 1: kind(r.procs[i].exitcode) for i in range(n)},
                'stopEvt': r.stop_evt.is_set(), 'phase': self.phase,
                'ret': () if r.retcodes is None else tuple(kind(c) for c in r.retcodes),
                'last': self.last}


def _fn(x):
    return dict(x) if isinstance(x, dict) else {i + 1: v for i, v in enumerate(x)}      # TLC prints [1..N -> X] as a tuple


def _norm(st):
    ret = st['ret']
    ret = tuple(ret[k] for k in sorted(ret)) if isinstance(ret, dict) else tuple(ret)
    return {'pstop': _fn(st['pstop']), 'code': _fn(st['code']), 'stopEvt': st['stopEvt'], 'phase': st['phase'], 'ret': ret,
            'last': tuple(st['last'])}


def judge(trace, stop_exit):
    """The property formulas of Runner.tla on an observed execution (list of (action, projected state))."""
    out = []
    prev = None
    for name, st in trace:
        if st['phase'] != 'run' and not (st['stopEvt'] and all(st['pstop'].values())):
            out.append(('R_StopTellsAll', f'after {name}: stopped runner with stop_evt={st["stopEvt"]} proc_stops={st["pstop"]}'))
        if st['phase'] == 'joined' and (st['ret'] != tuple(st['code'][k] for k in sorted(st['code'])) or 'none' in st['ret']):
            out.append(('R_Retcodes', f'retcodes {st["ret"]} but the processes ended with {st["code"]}'))
        if prev is not None and prev['stopEvt'] and not st['stopEvt']:
            out.append(('R_StopSticky', f'{name} cleared the stop event'))
        if name == 'Step' and prev is not None:
            seen = {prev['code'][k] for k in prev['code'] if prev['pstop'][k] and prev['code'][k] != 'none'}
            hit, running = seen & set(stop_exit), any(not v for v in prev['pstop'].values())
            go_on = not prev['stopEvt'] and not hit and running
            if (st['last'][1] == 'false') != go_on:
                out.append(('R_StepVerdict', f'step() returned {st["last"][1]} with stop_evt={prev["stopEvt"]}, observed exits {sorted(seen)}, '
                                             f'stop_exit={sorted(stop_exit)}, some child running={running}'))
            elif st['last'][1] == 'true' and not st['stopEvt']:
                out.append(('R_StepVerdict', 'step() reported the end without setting the stop event'))
        prev = st
    return out


def replay(beh, n, stop_exit):
    """beh: [(action|None, state)] from TLC.  Returns (violations, drift, trace)."""
    rig = Rig(n, stop_exit)
    trace, drift = [(None, rig.project())], None
    want0 = _norm(beh[0][1])
    if rig.project() != want0:
        drift = f'initial state {rig.project()} != {want0}'
    for (_, before), (name, after) in zip(beh, beh[1:]):
        rig.do(name, _norm(before), _norm(after))
        got = rig.project()
        trace.append((name, got))
        if drift is None and got != _norm(after):
            diff = {k: (got[k], _norm(after)[k]) for k in got if got[k] != _norm(after)[k]}
            drift = f'after {name}: code vs specification {diff}'
    return judge(trace, stop_exit), drift, trace


def stage(rep, ctx):
    quick = ctx.quick
    for cfg, what in (('Runner_quick', 'N=2, stop_exit=error: R_StopTellsAll, R_Retcodes, R_StepVerdict, R_StopSticky'),
                      ('Runner_all', 'N=3, stop_exit=all'), ('Runner_none', 'N=3, stop_exit=none: R_NoneWaitsForAll'),
                      ('Runner_clean', 'N=2, stop_exit=clean'),
                      ('Runner_live', 'fair behaviours: R_Terminates (an observed matching exit, all children done or an external '
                                      'stop lead to the joined state)')):
        r = run_tlc(SPEC_DIR, cfg, 'Runner', timeout=600, workers=4)
        tlc_must_pass(r, cfg)
        rep.add_tlc(cfg, r, 'Filter.Runner supervision: ' + what)
    r = run_tlc(SPEC_DIR, 'Runner_reach_killed', 'Runner', timeout=600, workers=2)
    if r.error or r.timed_out or r.violated != 'X_KilledUnnoticed':
        raise MachineryError(f'Runner_reach_killed: expected the reachability counterexample, got {r.violated or r.error or "timeout"}')
    rep.add_tlc('Runner_reach_killed', r, 'reachability: a child that died without setting its stop event is not noticed by step() '
                                          '(deviation of the code, modelled as ChildKilled)')
    ce = common.parse_counterexample(r.out)
    nrun = ndrift = nviol = 0
    todo = [('reach_killed', [(None if a == 'Initial' else a.split('(')[0], s) for a, s in ce], 2, ('clean', 'error'))]
    tmp = tempfile.mkdtemp(prefix='c08run_')
    try:
        for cfg, n, se in (('Runner_quick', 2, ('error',)), ('Runner_all', 3, ('clean', 'error')), ('Runner_none', 3, ()),
                           ('Runner_clean', 2, ('clean',))):
            per = max(1, (400 if quick else 6000) // 4)
            d = f'{tmp}/{cfg}'
            os.makedirs(d)
            r = run_tlc(SPEC_DIR, cfg, 'Runner', simulate=f'file={d}/b,num={per}', depth=14, seed=ctx.seed + 11, timeout=900, workers=4)
            if r.error:
                raise MachineryError(f'TLC -simulate failed on {cfg}: {r.error[-1500:]}')
            seen = set()
            for fn in sorted(glob.glob(f'{d}/b*')):
                beh = common.parse_sim_file(fn)
                key = tuple((a, repr(s['code']), repr(s['pstop'])) for a, s in beh)
                if len(beh) < 2 or key in seen:
                    continue
                seen.add(key)
                todo.append((cfg, beh, n, se))
            rep.add_tlc(f'{cfg}/simulate', r, f'{len(seen)} distinct behaviours stepped through the real Filter.Runner')
    finally:
        shutil.rmtree(tmp, ignore_errors=True)
    acts = set()
    for origin, beh, n, se in todo:
        v, drift, trace = replay(beh, n, se)
        nrun += 1
        acts.update(a for a, _ in beh if a)
        rep.case(('runner', origin, tuple(a for a, _ in beh), repr(beh[-1][1])))
        for formula, text in v[:1]:
            nviol += 1
            if nviol <= 3:
                rep.violation(f'{formula} (Filter.Runner): {text}  [behaviour of Runner.tla, {origin}]',
                              {'mode': 'runner', 'n': n, 'stop_exit': list(se), 'behaviour': [[a, _jsonable(s)] for a, s in beh]},
                              {'formula': formula, 'probe': 'runner'})
        if drift and not v:
            ndrift += 1
            if ndrift <= 3:
                rep.drift_note(f'Runner.tla behaviour {[a for a, _ in beh[1:]]} ({origin}): {drift}')
    want = {'ChildStopEvt', 'ChildExit', 'ChildKilled', 'External', 'Step', 'Stop', 'Join'}
    if want - acts:
        raise MachineryError(f'vacuity: Runner.tla actions never replayed: {sorted(want - acts)}')
    if nrun < 50:
        raise MachineryError(f'only {nrun} Runner behaviours were replayed')
    rep.traces += nrun
    rep.extra['runner_supervision'] = {'behaviours_replayed': nrun, 'drift': ndrift, 'violations': nviol,
                                       'actions_replayed': sorted(acts)}
    return nviol


def _jsonable(s):
    s = _norm(s)
    return {k: ({str(i): x for i, x in v.items()} if isinstance(v, dict) else list(v) if isinstance(v, (tuple, list)) else v)
            for k, v in s.items()}


def _unjson(s):
    return {k: ({int(i): x for i, x in v.items()} if isinstance(v, dict) else tuple(v) if isinstance(v, list) else v)
            for k, v in s.items()}


def replay_witness(wit):
    beh = [(a, _unjson(s)) for a, s in wit['behaviour']]
    v, drift, trace = replay(beh, wit['n'], tuple(wit['stop_exit']))
    for a, st in trace:
        print(f'  {a or "init":13s} {st}')
    return [(f, t, {'formula': f, 'probe': 'runner'}) for f, t in v]

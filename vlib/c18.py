"""C18 - a filter run emits a well-formed lineage history.

Specification: spec/life/Lineage.tla = Lifecycle.tla (Filter.run, one action per lifecycle stage) composed with the lineage
emitter as the code uses it: per lifecycle step the emitter calls of the main thread as micro-operations (emit START /
ABORT / COMPLETE, start / stop the heartbeat - one per call site in init, exit(), fini() and the handlers of run()), the
heartbeat thread as a separate process (HbTick -> RUNNING, HbStopped -> COMPLETE, ProcessEnd), `hist` = the emitted events.
C18_Wellformed = START RUNNING* (COMPLETE | ABORT) as a prefix-closed monitor + completeness at the end + terminal kind by
the way the run ended.  TLC proves it for the intended design (Defects = {}: one terminal emission chosen by the outcome, by
the main thread, idempotent emitter) on every lifecycle behaviour x every heartbeat interleaving, and exhibits the
counterexamples of the code's deviations.

Binding: every behaviour of the model of the code as it stands (selected by probing the code) is replayed step by step on
the real Filter.run + OpenFilterLineage with a capturing client; `threading` inside lineage.py is replaced by cooperative
stand-ins so that the heartbeat thread is a scheduled task, and every emitter call is a yield point, so each model
interleaving is realised exactly.  Free-running runs (heartbeat at its own cadence, run lengths 0.3 .. 3.2 intervals, with
and without the daemon thread being cut at process end) complete the picture.  The property's formula is evaluated on the
captured events only.
"""
from __future__ import annotations

import json
import multiprocessing as mp
import os
import shutil

from . import common, c08
from .common import Report, run_tlc, tlc_must_pass, MachineryError
from .c08 import (SPEC_DIR, life_cfg, spec_scratch, run_cfg_text, behaviours_of, chunks, _agg_new, _agg_merge, _agg_viol,
                  _pool_init, _plain, finish_agg, branch_keys)

AS_WRITTEN = ('abort_at_every_site', 'not_idempotent', 'hb_complete', 'running_after_terminal')


def work_probe(_):
    """Is the emitter as written (several terminal events per run) or repaired?  Selects the conformance model only."""
    from . import life_harness as H
    cfg = {'prop': 'all', 'obey': 'all', 'ea': 'none'}
    life = [('construct', 'ok'), ('init', 'ok'), ('setup', 'ok'), ('iter', 'ok'), ('iter', 'proc_exit'), ('shutdown', 'ok'),
            ('exitmsg', ''), ('fini', 'ok'), ('handlers', '')]
    r = H.run_lineage_free(H.Scenario(cfg, life, None, lineage=True), hb_interval=1.0)
    nterm = sum(1 for e in r['events'] if e[0] in H.TERMINALS)
    return list(AS_WRITTEN) if nterm != 1 else []


def work_replay(lines):
    from . import life_harness as H
    agg = _agg_new()
    for ln in lines:
        _, path, fin, kinds, sites = common.parse_value(common.parse_value(ln))
        res = H.replay_lineage(path, fin, kinds, sites)
        sc, o, events = res['sc'], res['o'], res['events']
        agg['runs'] += 1
        agg['steps'] += o['steps']
        for b in branch_keys(sc.life):
            agg['branches'][b] = agg['branches'].get(b, 0) + 1
        nt = sum(1 for l in path if tuple(l)[:2] == ('hb', 'tick'))
        hbend = next((tuple(l)[1] for l in path if l[0] == 'hb' and l[1] in ('stopped', 'killed')), 'none')
        for b in (f'ticks:{nt}', f'hb_end:{hbend}'):
            agg['branches'][b] = agg['branches'].get(b, 0) + 1
        wit = {'mode': 'replay', 'path': [list(l) for l in path], 'final': _plain(fin), 'model_events': list(kinds),
               'events': [(e[0], e[2]) for e in events], 'run_ids': len({e[1] for e in events})}
        for formula, text, sig in H.judge_lineage(sc, o, events):
            _agg_viol(agg, formula, text, sig, wit)
        if res['drift']:
            agg['ndrift'] += 1
            if len(agg['drift']) < 4:
                agg['drift'].append(f'Lineage behaviour {[tuple(l) for l in path]}: {"; ".join(res["drift"][:3])}')
        if not agg['samples'] and nt and len(events) > 3:
            agg['samples'].append(wit)
    return agg


def free_cases(quick):
    base = [('construct', 'ok'), ('init', 'ok'), ('setup', 'ok')]
    tail = [('shutdown', 'ok'), ('exitmsg', ''), ('fini', 'ok'), ('handlers', '')]
    endings = ['proc_exit', 'proc_raise', 'proc_int', 'stop_head', 'recv_stop', 'recv_msg_clean', 'recv_msg_error',
               'send_msg_clean', 'send_raise', 'recv_raise']
    cases = []
    for k in ((30, 150, 320) if quick else (5, 30, 99, 150, 201, 320, 480)):
        for e in endings:
            for after in ('finish', 'kill'):
                cases.append((base + [('iter', 'ok')] * k + [('iter', e)] + tail, after))
    for extra in ([('construct', 'raise'), ('handlers', '')], [('construct', 'ok'), ('init', 'raise_pre'), ('handlers', '')],
                  [('construct', 'ok'), ('init', 'exit_post'), ('handlers', '')],
                  base[:2] + [('setup', 'raise'), ('exitmsg', ''), ('fini', 'ok'), ('handlers', '')],
                  base[:2] + [('setup', 'exit'), ('exitmsg', ''), ('fini', 'ok'), ('handlers', '')],
                  base + [('iter', 'ok'), ('iter', 'stop_head'), ('shutdown', 'raise'), ('exitmsg', ''), ('fini', 'ok'), ('handlers', '')],
                  base + [('iter', 'ok'), ('iter', 'stop_head'), ('shutdown', 'exit'), ('exitmsg', ''), ('fini', 'ok'), ('handlers', '')],
                  base + [('iter', 'ok'), ('iter', 'stop_head'), ('shutdown', 'ok'), ('exitmsg', ''), ('fini', 'raise'), ('handlers', '')]):
        for after in ('finish', 'kill'):
            cases.append((extra, after))
    return cases


def work_free(cases):
    from . import life_harness as H
    agg = _agg_new()
    cfg = {'prop': 'all', 'obey': 'all', 'ea': 'none'}
    for life, after in cases:
        sc = H.Scenario(cfg, life, None, lineage=True)
        r = H.run_lineage_free(sc, hb_interval=1.0, after=after)
        o, events = r['o'], r['events']
        agg['runs'] += 1
        agg['steps'] += o['steps']
        nrun = sum(1 for e in events if e[0] == 'RUNNING')
        for b in (f'free:{after}', f'free_running_events:{min(nrun, 4)}'):
            agg['branches'][b] = agg['branches'].get(b, 0) + 1
        short = [l for l in life if tuple(l) != ('iter', 'ok')]
        wit = {'mode': 'free', 'life_without_ok': [list(l) for l in short], 'ok_iterations': sum(1 for l in life if tuple(l) == ('iter', 'ok')),
               'after': after, 'run_seconds': o['run_seconds'], 'events': [(e[0], e[2]) for e in events],
               'run_ids': len({e[1] for e in events}), 'result': o['F']['result']}
        if not o['ended']:
            raise MachineryError(f'free-running lineage case did not end: {short} {o["F"]}')
        for formula, text, sig in H.judge_lineage(sc, o, events):
            _agg_viol(agg, formula, text, sig, wit)
        if not agg['samples'] and nrun >= 2:
            agg['samples'].append(wit)
    return agg


def lock_race_probe(rep, ctx, n):
    """Emitter-level concurrency probe: the real OpenFilterLineage with a cooperative lock, a cooperative heartbeat thread and a
    client whose emit() yields BEFORE the event leaves (a backend request in flight).  The main task ends the run the way
    Filter.run does (stop the heartbeat, emit the terminal event) at a random moment of the heartbeat's life; every
    interleaving at the yield points is drawn at random.  Judged by C18's formula: nothing after the terminal event,
    exactly one terminal event, START first."""
    import types
    from . import life_harness as H, simzmq
    m = H.modules()
    Lm = m['Lm']
    nviol = 0
    for k in range(n):
        rng = common.rng(ctx, f'lockrace/{k}')
        w = simzmq.World(local_clocks=False)
        simzmq.Context.world = w
        saved = Lm.threading
        Lm.threading = types.SimpleNamespace(Thread=simzmq.SimThread, Event=simzmq.SimEvent, Lock=simzmq.SimLock)
        events = []

        class Client:
            def emit(self, event):
                t = w.cur
                if t is not None:
                    t.park(('yield',))                   # the request is in flight
                events.append(getattr(event.eventType, 'name', None) or str(event.eventType))
        try:
            em = Lm.OpenFilterLineage(client=Client(), interval=1)
            em.interval = 0.01
            ticks = rng.randrange(0, 4)
            kind = rng.choice(('complete', 'stop'))

            nruns = rng.choice((1, 1, 2, 3))                 # the emitter is one object per process: consecutive runs reuse it
            kinds = [kind] + [rng.choice(('complete', 'stop')) for _ in range(nruns - 1)]

            def main():
                for kd in kinds:
                    em.emit_start(facets={'a': 1})
                    em.start_lineage_heart_beat()
                    w.sleep(em.interval * ticks + rng.choice((0.0, 0.001, 0.005)))
                    em.stop_lineage_heart_beat()
                    (em.emit_complete if kd == 'complete' else em.emit_stop)()
                    em.stop_lineage_heart_beat()
                    em.emit_complete()                   # the second (idempotent) call of Filter.run's outer finally
            w.spawn('main', main)
            for _ in range(600):
                acts = w.enabled()
                if not acts:
                    break
                nt = [a for a in acts if a[0] != 'timeout']
                a = rng.choice(nt) if nt and rng.random() < 0.85 else rng.choice(acts)
                if a[0] == 'timeout' and nt and rng.random() < 0.5:
                    a = rng.choice(nt)
                w.do(a)
                if all(t.state == 'done' for t in w.tasks.values()):
                    break
        finally:
            Lm.threading = saved
            w.kill_all()
        rep.case(('lockrace', k))
        # one segment per run: from a START up to the next START
        segs, cur = [], []
        for e in events:
            if e == 'START' and cur:
                segs.append(cur)
                cur = []
            cur.append(e)
        if cur:
            segs.append(cur)
        bad = None
        if len(segs) != len(kinds):
            bad = ('start', f'{len(kinds)} consecutive runs but {len(segs)} START-delimited histories: {events}')
        for seg, kd in zip(segs, kinds):
            terms = [i for i, e in enumerate(seg) if e in ('COMPLETE', 'ABORT', 'FAIL')]
            if bad:
                break
            if seg[0] != 'START':
                bad = ('start', f'START is not first: {events}')
            elif len(terms) != 1:
                bad = ('terminal_multiplicity', f'{len(terms)} terminal events in one run: {seg} (all: {events})')
            elif terms[0] != len(seg) - 1:
                bad = ('after_terminal', f'event(s) after the terminal event: {seg} (all: {events})')
            elif seg[terms[0]] != ('COMPLETE' if kd == 'complete' else 'ABORT'):
                bad = ('terminal_kind', f'run ended {kd} but emitted {seg[terms[0]]}: {seg}')
        if bad:
            nviol += 1
            rep.violation(f'C18_Wellformed (emitter lock discipline, interleaving {k}): {bad[1]}',
                          {'mode': 'lockrace', 'k': k, 'seed': ctx.seed, 'events': events}, {'kind': bad[0], 'probe': 'lockrace'})
    rep.extra['lock_race_interleavings'] = n
    return nviol


def random_cases(quick, seed):
    """(life labels, seed) for the model-free random interleavings: the single-cause endings and some two-cause ones"""
    base = [('construct', 'ok'), ('init', 'ok'), ('setup', 'ok')]
    tail = [('shutdown', 'ok'), ('exitmsg', ''), ('fini', 'ok'), ('handlers', '')]
    lifes = [base + [('iter', 'ok')] * k + [('iter', e)] + tail
             for k in (1, 2) for e in ('proc_exit', 'proc_raise', 'proc_int', 'stop_head', 'recv_stop', 'recv_msg_clean',
                                       'recv_msg_error', 'send_msg_error', 'send_raise', 'recv_raise', 'send_stop')]
    lifes += [[('construct', 'ok'), ('init', 'raise_pre'), ('handlers', '')],
              [('construct', 'ok'), ('init', 'raise_post'), ('handlers', '')],
              [('construct', 'ok'), ('init', 'exit_post'), ('handlers', '')],
              base[:2] + [('setup', 'raise'), ('exitmsg', ''), ('fini', 'ok'), ('handlers', '')],
              base[:2] + [('setup', 'exit'), ('exitmsg', ''), ('fini', 'ok'), ('handlers', '')],
              base + [('iter', 'ok'), ('iter', 'proc_raise'), ('shutdown', 'exit'), ('exitmsg', ''), ('fini', 'ok'), ('handlers', '')],
              base + [('iter', 'ok'), ('iter', 'stop_head'), ('shutdown', 'ok'), ('exitmsg', ''), ('fini', 'exit'), ('handlers', '')]]
    reps = 6 if quick else 60
    return [(life, f'{seed}/C18/rand/{i}/{j}') for i, life in enumerate(lifes) for j in range(reps)]


def work_random(cases):
    from . import life_harness as H
    import random
    agg = _agg_new()
    cfg = {'prop': 'all', 'obey': 'all', 'ea': 'none'}
    for life, seed in cases:
        sc = H.Scenario(cfg, life, None, lineage=True)
        r = H.run_lineage_random(sc, random.Random(seed))
        o, events = r['o'], r['events']
        agg['runs'] += 1
        agg['steps'] += o['steps']
        agg['branches']['random'] = agg['branches'].get('random', 0) + 1
        wit = {'mode': 'random', 'life': [list(l) for l in life], 'seed': seed, 'events': [(e[0], e[2]) for e in events],
               'run_ids': len({e[1] for e in events}), 'result': o['F']['result'], 'hb_finished': o['hb_finished']}
        if not o['ended']:
            raise MachineryError(f'random-interleaving lineage case did not end: {life} {o["F"]}')
        for formula, text, sig in H.judge_lineage(sc, o, events):
            _agg_viol(agg, formula, text, sig, wit)
    return agg


def selftest():
    from . import life_harness as H
    bad = []
    cfg = {'prop': 'all', 'obey': 'all', 'ea': 'none'}
    base = [('construct', 'ok'), ('init', 'ok'), ('setup', 'ok'), ('iter', 'ok')]
    tail = [('shutdown', 'ok'), ('exitmsg', ''), ('fini', 'ok'), ('handlers', '')]
    sc_clean = H.Scenario(cfg, base + [('iter', 'proc_exit')] + tail, None)
    sc_err = H.Scenario(cfg, base + [('iter', 'proc_raise')] + tail, None)
    sc_stop = H.Scenario(cfg, base + [('iter', 'stop_head')] + tail, None)
    o = {'ended': True, 'F': {'calls': ['init', 'setup', 'process', 'shutdown', 'fini'], 'result': 'returned'}}

    def ev(*kinds, rid='r1'):
        return [(k, rid, '?') for k in kinds]
    good = [(sc_clean, ev('START', 'RUNNING', 'RUNNING', 'COMPLETE')), (sc_clean, ev('START', 'COMPLETE')),
            (sc_err, ev('START', 'RUNNING', 'ABORT')), (sc_stop, ev('START', 'ABORT')), (sc_stop, ev('START', 'RUNNING', 'COMPLETE'))]
    for sc, e in good:
        if H.judge_lineage(sc, o, e):
            bad.append(f'well-formed history rejected: {[k for k, _, _ in e]} {H.judge_lineage(sc, o, e)}')
    falsified = [(sc_clean, ev('START', 'RUNNING', 'ABORT', 'ABORT', 'COMPLETE'), 'terminal_multiplicity'),
                 (sc_clean, ev('START', 'RUNNING'), 'terminal_multiplicity'),
                 (sc_clean, ev('START', 'COMPLETE', 'RUNNING'), 'after_terminal'),
                 (sc_clean, ev('START', 'RUNNING', 'ABORT'), 'terminal_kind'),
                 (sc_err, ev('START', 'COMPLETE'), 'terminal_kind'),
                 (sc_clean, ev('RUNNING', 'START', 'COMPLETE'), 'start'),
                 (sc_clean, ev('START', 'START', 'COMPLETE'), 'start'),
                 (sc_clean, ev('START', 'RUNNING') + ev('COMPLETE', rid='r2'), 'run_id'),
                 (sc_clean, [], 'no_start')]
    for sc, e, kind in falsified:
        if kind not in [s['kind'] for _, _, s in H.judge_lineage(sc, o, e)]:
            bad.append(f'falsification {[k for k, _, _ in e]} not flagged as {kind}')
    return bad


def run(ctx):
    rep = Report(ctx)
    quick = ctx.quick
    rep.rule = ('case = one run of the real Filter.run with lineage on and a capturing client: (a) one behaviour of Lineage.tla '
                '(lifecycle behaviour x placement of the heartbeat thread\'s steps between the emitter calls of the main '
                'thread) replayed step by step; (b) one free-running run (way of ending x run length in heartbeat intervals '
                'x daemon thread finishing or cut at process end); distinct by construction; all non-trivial')
    rep.assumptions = [
        'the lineage client is a capturing fake passed as OpenFilterLineage(client=...); one emitter object per run (the '
        'production code creates ONE emitter per process at class-definition time - a second run in the same process would '
        'reuse run id and stop flag; that is outside this property and noted in the report)',
        'threading inside lineage.py is replaced by cooperative stand-ins (the heartbeat thread is a scheduled task); '
        'emissions are atomic; time is virtual; the heartbeat interval is 4 ms in replays (0/1/.. ticks are forced by the '
        'replayed behaviour) and 1 s in the free-running runs',
        'a run whose constructor fails never engages the emitter: an empty history is accepted there',
        'terminal kind: exit() / exit_after / obeyed clean exit -> COMPLETE; exception / KeyboardInterrupt -> ABORT; for an '
        'external stop request and for an obeyed *error* exit of a neighbour the statement is not explicit: both kinds are '
        'accepted by the judge (the design model says COMPLETE resp. ABORT); judged when the run has one reason of ending',
    ]
    tmp = spec_scratch('c18_')
    pool = mp.get_context('fork').Pool(common.NCPU, initializer=_pool_init)
    try:
        st = pool.apply(selftest)
        if st:
            raise MachineryError('C18 harness self-test failed: ' + '; '.join(st))
        rep.extra['selftest'] = 'ok: 5 well-formed histories accepted, 9 hand-made falsifications flagged'
        import concurrent.futures as cf
        ex = cf.ThreadPoolExecutor(4)
        W = max(2, common.NCPU // 4)
        lin_defects = pool.apply(work_probe, (0,))
        life_defects = pool.apply(c08.work_probe, (0,))
        asis = sorted(set(lin_defects) | set(life_defects))
        rep.extra['conformance_model_defects'] = asis
        # ---- 3a. every behaviour of the model of the code as it stands: enumeration first, the replays start at once -------
        r = run_cfg_text(tmp, 'cover', life_cfg(defects=asis, K=1, props=['all'], obeys=['all'] if quick else ['all', 'none'],
                                                eas=['none', 'secs'], emit=True, invariants=['LTypeOK'], module='Lineage',
                                                maxticks=1 if quick else 2), 'Lineage', timeout=2400)
        lines = behaviours_of(r, 'Lineage cover')
        r['out'] = ''
        rep.add_tlc('Lineage_cover', r, f'model of the code as it stands (Defects = {asis}): {len(lines)} complete behaviours '
                                        f'(lifecycle behaviour x heartbeat interleaving) for replay')
        replay_async = pool.map_async(work_replay, chunks(lines, 40))
        free_async = pool.map_async(work_free, chunks(free_cases(quick), 2))
        rnd_async = pool.map_async(work_random, chunks(random_cases(quick, ctx.seed), 6))
        # ---- 1. the design has the property (TLC runs concurrently with the replays) ----------------------------------------
        cfgn = 'Lineage_quick' if quick else 'Lineage_thorough'
        fut_design = ex.submit(run_tlc, SPEC_DIR, cfgn, 'Lineage', timeout=2400, workers=W)
        demo_specs = (('as_written', AS_WRITTEN, 'C18_Wellformed'),
                      ('abort_at_every_site', ['abort_at_every_site'], 'C18_Wellformed'),
                      ('not_idempotent', ['not_idempotent'], 'C18_Wellformed'),
                      ('hb_complete', ['hb_complete'], 'C18_Wellformed'),
                      ('running_after_terminal', ['abort_at_every_site', 'running_after_terminal'], 'C18_NoRunningAfterTerminal'),
                      ('no_running_after_terminal_without_it', ['abort_at_every_site'], None))
        futs = {name: ex.submit(run_cfg_text, tmp, f'demo_{name}',
                                life_cfg(defects=defects, K=1, props=['all'], obeys=['all'], eas=['none'], interrupt=False,
                                         invariants=[inv or 'C18_NoRunningAfterTerminal'], module='Lineage', maxticks=1),
                                'Lineage', workers=2, timeout=900) for name, defects, inv in demo_specs}
        res = fut_design.result()
        tlc_must_pass(res, f'{cfgn} (Defects = {{}})')
        rep.add_tlc(cfgn, res, 'intended design: C18_Wellformed + terminal event out before run() returns, on every lifecycle '
                               'behaviour x heartbeat interleaving')
        # ---- 2. the code's deviations are counterexamples ----------------------------------------------------------------
        demos = {}
        for name, defects, inv in demo_specs:
            r = futs[name].result()
            if r.error or r.timed_out:
                raise MachineryError(f'TLC failed on Lineage demo {name}: {r.error or "timeout"}')
            if r.violated != inv:
                raise MachineryError(f'Lineage demo {name}: expected {inv or "no violation"}, TLC reports {r.violated}')
            rep.add_tlc(f'Lineage[{name}]', r, f'deviation(s) {list(defects)}: ' + (f'counterexample to {inv}' if inv else 'holds'))
            if inv:
                ce = common.parse_counterexample(r.out)
                demos[name] = [h[0] for h in (ce[-1][1].get('hist') or ())] if ce else None
        rep.extra['tlc_counterexample_histories'] = demos
        ex.shutdown(wait=False)
        # ---- 3b. collect ----------------------------------------------------------------------------------------------------
        total = _agg_new()
        for a in replay_async.get(timeout=14000):
            _agg_merge(total, a)
        rep.extra['behaviours_replayed'] = total['runs']
        # ---- 4. free-running runs -------------------------------------------------------------------------------------------
        free = _agg_new()
        for a in free_async.get(timeout=14000):
            _agg_merge(free, a)
        rep.extra['free_running_runs'] = free['runs']
        # ---- 5. model-free random interleavings of the heartbeat thread with the main thread -----------------------------------
        rnd = _agg_new()
        for a in rnd_async.get(timeout=14000):
            _agg_merge(rnd, a)
        rep.extra['random_interleaving_runs'] = rnd['runs']
    finally:
        pool.terminate()
        pool.join()
        shutil.rmtree(tmp, ignore_errors=True)
    allagg = _agg_new()
    for a in (total, free, rnd):
        _agg_merge(allagg, a)
    rep.traces = allagg['runs']
    for i in range(allagg['runs']):
        rep.case(i)
    rep.extra['scheduler_steps'] = allagg['steps']
    rep.extra['branch_counts'] = dict(sorted(allagg['branches'].items()))
    want = {'construct:raise', 'init:raise_pre', 'init:raise_post', 'init:exit_post', 'setup:raise', 'setup:exit', 'shutdown:raise',
            'shutdown:exit', 'fini:raise', 'fini:exit', 'iter:stop_head', 'iter:recv_stop', 'iter:recv_msg_clean',
            'iter:recv_msg_error', 'iter:proc_raise', 'iter:proc_exit', 'iter:proc_int', 'iter:send_raise', 'iter:send_msg_clean',
            'ticks:0', 'ticks:1', 'hb_end:stopped', 'free:finish', 'free:kill', 'free_running_events:1', 'free_running_events:2',
            'free_running_events:4'}
    if asis and 'hb_complete' in asis:
        want.add('hb_end:killed')
    if want - set(allagg['branches']):
        raise MachineryError(f'vacuity: branches never executed: {sorted(want - set(allagg["branches"]))}')
    for s_ in (total['samples'] + free['samples'])[:3]:
        rep.sample(s_)
    finish_agg(rep, total, 'replayed Lineage behaviours')
    finish_agg(rep, free, 'free-running runs')
    finish_agg(rep, rnd, 'random-interleaving runs')
    rep.exhaustive = allagg['ndrift'] == 0
    from . import c18_emitter
    c18_emitter.stage(rep, ctx)
    lock_race_probe(rep, ctx, 300 if ctx.quick else 5000)
    rep.traces += rep.extra['lock_race_interleavings']
    return rep.finish()


def replay(ctx):
    from . import life_harness as H
    H.modules()
    w = json.load(open(ctx.replay))
    wit = w['witness']
    rep = Report(ctx)
    if wit.get('mode') == 'lockrace':
        ctx.seed = wit.get('seed', ctx.seed)
        n = lock_race_probe(rep, ctx, wit['k'] + 1)
        for what, _w, _s in rep.violations:
            print(f'VIOLATION property=C18 replay={ctx.replay}')
            print(f'  {what}')
        if not n:
            print(f'replay of {ctx.replay}: the emitter lock-discipline probe finds no violation on the current tree')
        return 1 if n else 0
    if wit.get('mode') == 'emitter':
        from . import c18_emitter
        v = c18_emitter.replay_witness(wit)
        if v:
            print(f'VIOLATION property=C18 replay={ctx.replay}')
            print(f'  C18_Wellformed (emitter protocol): {v[1]}')
            return 1
        print(f'replay of {ctx.replay}: the emitter protocol behaviour shows no violation on the current tree')
        return 0
    if wit.get('mode') == 'replay':
        res = H.replay_lineage(wit['path'], wit['final'], wit['model_events'], [])
        print(f'replay of {ctx.replay}: behaviour {[tuple(l) for l in wit["path"]]}')
    elif wit.get('mode') == 'free':
        life = [tuple(l) for l in wit['life_without_ok']]
        i = next((n for n, l in enumerate(life) if l[0] == 'iter'), len(life))
        life = life[:i] + [('iter', 'ok')] * wit['ok_iterations'] + life[i:]
        sc = H.Scenario({'prop': 'all', 'obey': 'all', 'ea': 'none'}, life, None, lineage=True)
        res = H.run_lineage_free(sc, hb_interval=1.0, after=wit['after'])
        print(f'replay of {ctx.replay}: free-running run, {wit["ok_iterations"]} iterations then {wit["life_without_ok"]}, heartbeat thread: {wit["after"]}')
    elif wit.get('mode') == 'random':
        import random
        sc = H.Scenario({'prop': 'all', 'obey': 'all', 'ea': 'none'}, [tuple(l) for l in wit['life']], None, lineage=True)
        res = H.run_lineage_random(sc, random.Random(wit['seed']))
        print(f'replay of {ctx.replay}: random interleaving (seed {wit["seed"]}) of {wit["life"]}')
    else:
        raise MachineryError(f'unknown replay mode {wit.get("mode")!r}')
    print('  events: ' + ' '.join(f'{e[0]}@{e[2]}' for e in res['events']))
    rc = 0
    v = H.judge_lineage(res['sc'], res['o'], res['events'])
    for formula, text, sig in v:
        kind = rep.violation(text, wit, dict(sig, formula=formula))
        print(f'  {formula} is false: {text}{" [matches a known finding]" if kind == "known" else ""}')
        if kind == 'new':
            rc = 1
    if rc:
        print(f'VIOLATION property={ctx.prop} replay={ctx.replay}')
    if not v:
        print('  no property formula is false on this run')
    return rc

SPECIFICATION SpecC
CONSTANTS
  Readers = {}
  AutoRef = {}
  Sizes = {1, 2}
  FileSizes = {1, 3}
  TotalSizes = {1, 4}
  MaxWrites = 3
  MaxTs = 2
  MaxDeletes = 0
  MaxReopens = 0
  MaxPosOps = 1
  Active = {"w"}
  Bin = FALSE
  Acts = {"write", "read", "readblock", "delete", "seek", "tell"}
  Defects = {"overwrite", "refresh_skip", "frac_ts"}
VIEW view
ACTION_CONSTRAINT Emit

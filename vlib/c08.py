"""C08 - filters start, stop and propagate exits exactly as the lifecycle contract says.

Specifications (spec/life):
  Lifecycle.tla  `Filter.run` of ONE filter, one action per lifecycle stage (construct, init, setup, loop iteration with
                 recv / process / send / deadline, shutdown, exit message, fini, handlers), one nondeterministic fault
                 choice per stage (ok / raise / exit()), external events StopEvtSet, ExitMsgArrives(kind) from upstream /
                 downstream, Deadline(exit_after); registers outcome, setupDone, shutdownCalls, commOpen, stopEvt,
                 announced, result; the history `path` makes every behaviour a distinct branch, so TLC's exhaustive search
                 is the enumeration of all behaviours.
  ExitProp.tla   three such filters (seen from outside) in chain / tee / rejoin with per-filter prop_exit x obey_exit
                 policies and both exit kinds: who terminates.
TLC proves C08_ShutdownOnceIffSetup, C08_CommClosed, C08_StopEvtSet, C08_ReturnVsRaise, C08_Announce, C08_Obey,
C08_ObeyEnds, C08_ExitAfter (Lifecycle) and C08_Propagation, C08_NoSpuriousExit, C08_WholePipeline, C08_KindPreserved,
C08_AnnouncePolicy, C08_Result (ExitProp) on the intended design (Defects = {}), and must exhibit a counterexample for
every named deviation (genuine ones and hypothetical mutant classes).

Binding spec -> code (vlib/life_harness.py): every complete behaviour of Lifecycle.tla (model of the code as it stands,
chosen by probing the code for the genuine deviations) is replayed on a real `Filter` subclass F in the rig U -> F -> D of
real filters on the simulated ZeroMQ network: setup/process/shutdown/init/fini raise or call exit() as the behaviour says,
socket faults are injected into the simulated sockets, exit messages are sent by the neighbours with the real
MQ.send_exit_msg, the stop event is set from outside, exit_after is configured.  Every ExitProp case (all 16 uniform policy
pairs x 2 kinds x 3 positions x 3 topologies, plus a sample of the 16^3 mixed assignments) is run on three real filters.
The 288 uniform cases (the property's quantifier: policy PAIRS) are judged strictly, under the prompt schedule and under a seeded
random schedule; for per-filter assignments (an extension) only spurious terminations and per-filter contracts are verdicts -
a filter left running there is reported as a finding (ExitProp.tla deviation "oob_read_in_matching_phase": TLC proves that
policy pairs are not affected by it).  exit_after is also run on a timed world for seconds / 'm:s' / '@time' forms.  Observed: call log, return vs raise of
Filter.run, sockets left open, stop_evt, exit messages on the wire, neighbours' terminal states, virtual times.
The property's formulas are evaluated on those observations only (violations); differences to the model are drift.
"""
from __future__ import annotations

import json
import multiprocessing as mp
import os
import re
import shutil

from . import common
from .common import Report, run_tlc, tlc_must_pass, SPEC, MachineryError

SPEC_DIR = os.path.join(SPEC, 'life')
POLICIES = ('all', 'clean', 'error', 'none')
GENUINE_LIFE = ('exit_after_time_module', 'init_fail_skips_fini', 'mq_ctor_partial_leak')
LIFE_INVARIANTS = ('TypeOK', 'C08_ShutdownOnceIffSetup', 'C08_CommClosed', 'C08_StopEvtSet', 'C08_ReturnVsRaise',
                   'C08_Announce', 'C08_Obey', 'C08_ObeyEnds', 'C08_ExitAfter', 'C08_LogClosed')
# defect switch -> the invariant TLC must report violated with it
LIFE_DEFECT_DEMOS = {'exit_after_time_module': 'C08_ExitAfter', 'init_fail_skips_fini': 'C08_CommClosed',
                     'mq_ctor_partial_leak': 'C08_CommClosed', 'no_teardown_on_setup_failure': 'C08_CommClosed',
                     'shutdown_not_in_finally': 'C08_ShutdownOnceIffSetup', 'exitmsg_wrong_flag': 'C08_Announce',
                     'obey_wrong_flag': 'C08_Obey', 'propagate_error_escapes': 'C08_ReturnVsRaise',
                     'stop_evt_not_set': 'C08_StopEvtSet'}
EXITPROP_DEFECT_DEMOS = {'obey_wrong_flag': 'C08_Propagation', 'announce_wrong_flag': 'C08_AnnouncePolicy',
                         'error_forwarded_as_clean': 'C08_KindPreserved', 'announce_downstream_only': 'C08_Propagation'}


def tla_set(xs):
    return '{' + ', '.join(f'"{x}"' for x in xs) + '}'


def life_cfg(*, defects=(), K=1, props=POLICIES, obeys=POLICIES, eas=('none',), interrupt=True, emit=False, invariants=(),
             module='Lifecycle', maxticks=None):
    lines = ['CONSTANTS', f'  Defects = {tla_set(defects)}', f'  K = {K}', f'  PropSet = {tla_set(props)}',
             f'  ObeySet = {tla_set(obeys)}', f'  EASet = {tla_set(eas)}', f'  WithInterrupt = {str(bool(interrupt)).upper()}',
             f'  Emit = {str(bool(emit)).upper()}', '  EarlyExit = TRUE']
    if module == 'Lineage':
        lines += [f'  MaxTicks = {maxticks}', 'INIT LInit', 'NEXT LNext']
        if emit:
            lines.append('ACTION_CONSTRAINT LEmitDone')
    else:
        lines += ['INIT Init', 'NEXT Next']
        if emit:
            lines.append('ACTION_CONSTRAINT EmitDone')
    lines += [f'INVARIANT {i}' for i in invariants]
    return '\n'.join(lines) + '\n'


def spec_scratch(prefix):
    d = common.scratch_dir(prefix)
    for f in ('Lifecycle.tla', 'Lineage.tla', 'ExitProp.tla'):
        shutil.copy(os.path.join(SPEC_DIR, f), d)
    return d


def run_cfg_text(tmp, name, text, module, **kw):
    with open(os.path.join(tmp, name + '.cfg'), 'w') as fh:
        fh.write(text)
    return run_tlc(tmp, name, module, **kw)


def behaviours_of(res, what):
    """the BEH lines printed by EmitDone / LEmitDone: list of parsed tuples"""
    if res.error or res.timed_out or res.violated:
        raise MachineryError(f'behaviour enumeration {what} failed: {res.violated or res.error or "timeout"}\n{res.out[-1500:]}')
    out = []
    for ln in res.out.splitlines():
        if ln.startswith('"<<\\"BEH\\"'):
            out.append(ln)
    if not out:
        raise MachineryError(f'behaviour enumeration {what} printed nothing')
    return sorted(out)


# ---------------------------------------------------------------------------------------------------------------------
# worker side (forked before any simulated world exists in the parent)

def _pool_init():
    from . import life_harness as H
    H.modules()


def _agg_new():
    return {'runs': 0, 'steps': 0, 'viol': {}, 'drift': [], 'ndrift': 0, 'branches': {}, 'samples': []}


def _agg_viol(agg, formula, text, sig, witness):
    key = json.dumps([formula, sig], sort_keys=True)
    v = agg['viol'].get(key)
    if v is None:
        agg['viol'][key] = [1, formula, text, sig, witness]
    else:
        v[0] += 1


def _agg_merge(a, b):
    a['runs'] += b['runs']
    a['steps'] += b['steps']
    a['ndrift'] += b['ndrift']
    a['drift'] += b['drift'][:max(0, 12 - len(a['drift']))]
    for k, v in b['branches'].items():
        a['branches'][k] = a['branches'].get(k, 0) + v
    for k, v in b['viol'].items():
        if k in a['viol']:
            a['viol'][k][0] += v[0]
        else:
            a['viol'][k] = list(v)
    a['samples'] += b['samples'][:max(0, 3 - len(a['samples']))]


def work_probe(_):
    """Which genuine deviations does the code under test have?  (selects the conformance model; verdicts never depend on it)"""
    from . import life_harness as H
    cfg = {'prop': 'all', 'obey': 'all', 'ea': 'secs'}
    found = set()
    sc = H.Scenario(cfg, [('construct', 'ok'), ('init', 'raise_pre'), ('handlers', '')], {'faults': ('typeerror',)})
    o = H.run_scenario(sc, max_time=1.5)
    if o['ended'] and o['F']['result'] == 'raised' and 'TypeError' in (o['F']['exc'] or ''):
        found.add('exit_after_time_module')
    cfg = {'prop': 'all', 'obey': 'all', 'ea': 'none'}
    o = H.run_scenario(H.Scenario(cfg, [('construct', 'ok'), ('init', 'raise_post'), ('handlers', '')]), max_time=1.5)
    skips = 'fini' not in o['F']['calls']
    if o['F']['open_socks'] and skips:
        found.add('init_fail_skips_fini')
    o = H.run_scenario(H.Scenario(cfg, [('construct', 'ok'), ('init', 'raise_mid'), ('handlers', '')]), max_time=1.5)
    if o['F']['open_socks'] and not skips:
        found.add('mq_ctor_partial_leak')
    if o['F']['open_socks'] and skips:
        found.add('mq_ctor_partial_leak')       # cannot be told apart while fini() is skipped; the union is what matters
    return sorted(found)


def branch_keys(life):
    return [f'{st}:{ch}' if ch else st for st, ch in life]


def work_life(lines):
    from . import life_harness as H
    agg = _agg_new()
    for ln in lines:
        _, path, fin = common.parse_value(common.parse_value(ln))
        life = [tuple(l) for l in path]
        sc = H.Scenario(fin['cfg'], life, fin)
        o = H.run_scenario(sc)
        agg['runs'] += 1
        agg['steps'] += o['steps']
        for b in branch_keys(life):
            agg['branches'][b] = agg['branches'].get(b, 0) + 1
        wit = {'mode': 'life', 'cfg': fin['cfg'], 'life': [list(l) for l in life], 'final': _plain(fin),
               'exit_after': sc.exit_after, 'observed': o['F']}
        for formula, text, sig in H.judge_single(sc, o):
            _agg_viol(agg, formula, text, sig, wit)
        d = H.compare_single(sc, o, fin)
        if d:
            agg['ndrift'] += 1
            if len(agg['drift']) < 4:
                agg['drift'].append(f'Lifecycle behaviour {life} cfg {fin["cfg"]}: {"; ".join(d)}')
        if not agg['samples'] and len(life) > 6:
            agg['samples'].append({'behaviour': [list(l) for l in life], 'cfg': fin['cfg'], 'observed': o['F']})
    return agg


def _plain(x):
    if isinstance(x, dict):
        return {k: _plain(v) for k, v in x.items()}
    if isinstance(x, (tuple, list)):
        return [_plain(v) for v in x]
    return x


def parse_case(ln):
    _, topo, who, kind, pol, exp = common.parse_value(common.parse_value(ln))
    return topo, who, kind, {f: tuple(v) for f, v in pol.items()}, {f: tuple(v) for f, v in exp.items()}


def work_exitprop(items):
    """items: (case line, list of the model-of-the-code's possible outcomes for per-filter policies or None, seed or None)"""
    from . import life_harness as H
    import random
    agg = _agg_new()
    agg['mixed_missing'] = []
    for ln, outcomes, seed in items:
        topo, who, kind, pol, exp = parse_case(ln)
        # machinery consistency: the design model's terminated set is the property's own fixpoint
        if {f for f in exp if exp[f][0] == 'ended'} != H.reach(topo, who, kind, pol):
            raise MachineryError(f'ExitProp.tla and the reference fixpoint disagree on {topo} {who} {kind} {pol}')
        o = H.run_exitprop(topo, who, kind, pol, rng=None if seed is None else random.Random(seed))
        agg['runs'] += 1
        if not o['connected']:
            raise MachineryError(f'the pipeline {topo} did not connect in the simulated world')
        agg['steps'] += o['steps']
        uniform = outcomes is None
        b = f'{topo}/{who}/{kind}/' + ('/'.join(pol['A']) if uniform else 'mixed')
        agg['branches'][b] = agg['branches'].get(b, 0) + 1
        wit = {'mode': 'exitprop', 'topo': topo, 'who': who, 'kind': kind, 'policies': {f: list(p) for f, p in pol.items()},
               'seed': seed, 'strict': uniform,
               'observed': {f: {k: v for k, v in d.items() if k in ('result', 'exc', 'calls', 'announced', 'open_socks')}
                            for f, d in o['filters'].items()}}
        for formula, text, sig in H.judge_exitprop(topo, who, kind, pol, o, strict=uniform):
            _agg_viol(agg, formula, text, sig, wit)
        if uniform and seed is None:
            # the same case with `who` ending in setup(), before it ever requested a frame from (or published to) anyone
            o2 = H.run_exitprop(topo, who, kind, pol, at='setup')
            agg['runs'] += 1
            agg['steps'] += o2.get('steps', 0)
            wit2 = dict(wit, at='setup', observed={f: {k: v for k, v in d.items() if k in ('result', 'exc', 'calls', 'announced', 'open_socks')}
                                                    for f, d in o2['filters'].items()})
            for formula, text, sig in H.judge_exitprop(topo, who, kind, pol, o2, strict=True, at='setup'):
                _agg_viol(agg, formula, text + ' [ending in setup()]', dict(sig, at='setup'), wit2)
        got = {}
        for f in H.NAMES:
            F = o['filters'][f]
            ann = {k for _, k in F['announced']}
            got[f] = ('run' if F['result'] == 'running' else 'ended', 'none' if not ann else sorted(ann)[0], F['result'])
        allowed = [exp] + [x for x in (outcomes or [])]
        if got not in allowed:
            agg['ndrift'] += 1
            if len(agg['drift']) < 4:
                agg['drift'].append(f'ExitProp case {topo} {who} {kind} {pol}: real {got}, model {allowed}')
        elif got != exp:
            agg['mixed_missing'].append(wit)
        if not agg['samples']:
            agg['samples'].append(wit)
    return agg


def work_exit_after(cases):
    from . import life_harness as H
    agg = _agg_new()
    for form, T, role, period in cases:
        o = H.run_exit_after(form, T, role, period)
        agg['runs'] += 1
        b = f'exit_after/{form}/{role}'
        agg['branches'][b] = agg['branches'].get(b, 0) + 1
        wit = {'mode': 'exit_after', 'form': form, 'T': T, 'role': role, 'period_ms': period, 'value': o['value'],
               'observed': o['F'], 'process_times': [round(t - o['t0'], 4) for t in o['proc_times']][-6:],
               'exit_calls': [(r, round(t - o['t0'], 4)) for r, t in o['exit_calls']]}
        for formula, text, sig in H.judge_exit_after(form, T, role, period, o):
            _agg_viol(agg, formula, text, sig, wit)
        if not agg['samples']:
            agg['samples'].append(wit)
    return agg


def chunks(xs, n):
    return [xs[i:i + n] for i in range(0, len(xs), n)]


# ---------------------------------------------------------------------------------------------------------------------

def selftest():
    """Corrupted expectations must be rejected, hand-made falsifications must be flagged, clean observations must pass."""
    from . import life_harness as H
    bad = []
    cfg = {'prop': 'all', 'obey': 'all', 'ea': 'none'}
    life = [('construct', 'ok'), ('init', 'ok'), ('setup', 'ok'), ('iter', 'ok'), ('iter', 'proc_raise'), ('shutdown', 'ok'),
            ('exitmsg', ''), ('fini', 'ok'), ('handlers', '')]
    fin = {'cfg': cfg, 'calls': ('init', 'setup', 'process', 'process', 'shutdown', 'fini'), 'result': 'raised',
           'stopEvt': True, 'commOpen': False, 'shutdownCalls': 1, 'announced': 'error', 'faults': ('raise',)}
    clean = {'ended': True, 'F': {'calls': ['init', 'setup', 'process', 'shutdown', 'fini'], 'nproc': 2, 'result': 'raised',
                                  'exc': 'Fault()', 'stop_evt': True, 'open_socks': 0, 'nsocks': 4, 'shutdowns': 1,
                                  'setup_completed': True, 'announced': [('up', 'error'), ('down', 'error')]}}
    sc = H.Scenario(cfg, life, fin)
    if H.judge_single(sc, clean) or H.compare_single(sc, clean, fin):
        bad.append(f'a conforming observation is not accepted: {H.judge_single(sc, clean)} {H.compare_single(sc, clean, fin)}')
    for field, val in (('result', 'returned'), ('shutdownCalls', 0), ('commOpen', True), ('announced', 'clean'),
                       ('calls', ('init', 'setup', 'process', 'fini'))):
        if not H.compare_single(sc, clean, dict(fin, **{field: val})):
            bad.append(f'corrupted expectation {field}={val!r} not noticed')
    for mut, formula in (({'shutdowns': 2}, 'C08_ShutdownOnceIffSetup'), ({'shutdowns': 0}, 'C08_ShutdownOnceIffSetup'),
                         ({'open_socks': 2}, 'C08_CommClosed'), ({'stop_evt': False}, 'C08_StopEvtSet'),
                         ({'result': 'returned', 'exc': None}, 'C08_ReturnVsRaise'),
                         ({'announced': [('up', 'clean'), ('down', 'clean')]}, 'C08_Propagation'),
                         ({'announced': [('down', 'error')]}, 'C08_Propagation')):
        o = {'ended': True, 'F': dict(clean['F'], **mut)}
        if formula not in [f for f, _, _ in H.judge_single(sc, o)]:
            bad.append(f'falsification {mut} not flagged as {formula}')
    # exit propagation judge
    pol = {f: ('clean', 'clean') for f in H.NAMES}

    def fobs(result, ann):
        return {'result': result, 'exc': None, 'calls': [], 'announced': ann, 'open_socks': 0, 'nsocks': 4, 'stop_evt': True,
                'shutdowns': 1, 'setup_completed': True}
    good = {'filters': {'A': fobs('returned', [('down', 'clean')]), 'B': fobs('returned', [('up', 'clean'), ('down', 'clean')]),
                        'C': fobs('returned', [('up', 'clean')])}}
    if H.judge_exitprop('chain', 'B', 'clean', pol, good):
        bad.append(f'conforming exit propagation rejected: {H.judge_exitprop("chain", "B", "clean", pol, good)}')
    o2 = {'filters': dict(good['filters'], C=fobs('running', []))}
    if 'C08_Propagation' not in [f for f, _, _ in H.judge_exitprop('chain', 'B', 'clean', pol, o2)]:
        bad.append('a survivor that should have terminated is not flagged')
    pol2 = dict(pol, C=('clean', 'error'))
    if 'C08_Propagation' not in [f for f, _, _ in H.judge_exitprop('chain', 'B', 'clean', pol2, good)]:
        bad.append('a filter that obeyed a message its policy ignores is not flagged')
    if H.reach('tee', 'B', 'clean', pol) != {'A', 'B', 'C'} or H.reach('tee', 'B', 'error', pol) != {'B'}:
        bad.append('reference fixpoint wrong')
    # exit_after judge
    t0 = H.EPOCH_NS / 1e9
    ok = {'ended': True, 'F': {'result': 'returned', 'exc': None, 't_end': t0 + 0.31}, 't0': t0, 'value': 0.3,
          'proc_times': [t0 + 0.1 * i for i in range(1, 4)], 'exit_calls': [('exit_after', t0 + 0.305)]}
    if H.judge_exit_after('secs', 0.3, 'middle', 100, ok):
        bad.append(f'good exit_after run rejected: {H.judge_exit_after("secs", 0.3, "middle", 100, ok)}')
    late = dict(ok, proc_times=[t0 + 0.1 * i for i in range(1, 9)], exit_calls=[('exit_after', t0 + 0.81)])
    early = dict(ok, exit_calls=[('exit_after', t0 + 0.2)])
    for o, nm in ((late, 'late'), (early, 'early'), (dict(ok, ended=False), 'never'),
                  (dict(ok, F=dict(ok['F'], result='raised', exc='TypeError()')), 'TypeError')):
        if nm not in [s['error'] for _, _, s in H.judge_exit_after('secs', 0.3, 'middle', 100, o)]:
            bad.append(f'exit_after falsification {nm} not flagged')
    return bad


def finish_agg(rep, agg, label):
    sigs = rep.extra.setdefault('violation_signatures', [])
    for k in sorted(agg['viol']):
        n, formula, text, sig, wit = agg['viol'][k]
        sigs.append({'formula': formula, 'signature': sig, 'witnesses': n, 'in': label})
        wit = dict(wit, witnesses_this_run=n, formula=formula)
        rep.sample({'violating': wit}, 8)
        rep.violation(f'{formula}: {text} ({n} witnesses in {label})', wit, dict(sig, formula=formula))
    for d in agg['drift'][:6]:
        rep.drift_note(d)
    if agg['ndrift']:
        rep.note(f'{agg["ndrift"]}/{agg["runs"]} {label} differ from the model: the design-level TLC result does not transfer '
                 f'to the code on those paths')


def run(ctx):
    rep = Report(ctx)
    quick = ctx.quick
    rep.rule = ('case = one execution of real Filter.run on the simulated network: (a) one complete behaviour of '
                'Lifecycle.tla (policy pair, exit_after form, fault choice per stage, loop event) replayed on the filter '
                'under test in the rig U -> F -> D; (b) one ExitProp case (topology, exiting filter, exit kind, per-filter '
                'policy pairs) on three real filters; (c) one timed exit_after run (form, T, position, frame period); '
                'distinct by construction (TLC prints each behaviour / case once); non-trivial = every case (each runs at '
                'least the constructor and the handlers of Filter.run)')
    rep.assumptions = [
        'ZeroMQ is the deterministic in-memory stand-in vlib/simzmq.py (FIFO links, messages handed to the network before '
        'close() are still delivered); time is virtual; one runnable thread at a time',
        'exit messages are judged on a connected pipeline: every filter has processed >= 1 (single filter) / >= 3 '
        '(pipelines) frames before the first exit message is sent',
        'run() returning normally when the filter obeyed an *error* exit of a neighbour (PropagateError eaten) is taken as '
        'the design; return-vs-raise and the announced kind are judged when all reasons of ending agree in kind',
        'a KeyboardInterrupt-like BaseException from process() is explored (teardown formulas judged, return-vs-raise not)',
        'exit(), exceptions and socket faults are injected at: constructor (bad config), init (bad source address; second '
        'output address in use; subclass init after super().init()), setup, k-th process, first socket read of the k-th '
        'recv, first socket operation of the k-th send, shutdown, subclass fini after super().fini()',
        'Filter.Runner is driven with its child processes and their events replaced by plain objects (Runner.tla: the '
        'supervision logic, not the operating system\'s process handling); loop_exc=False is outside this check',
    ]
    tmp = spec_scratch('c08_')
    pool = mp.get_context('fork').Pool(common.NCPU, initializer=_pool_init)
    try:
        st = pool.apply(selftest)
        if st:
            raise MachineryError('C08 harness self-test failed: ' + '; '.join(st))
        rep.extra['selftest'] = ('ok: 5 corrupted expectations rejected, 7 + 2 + 4 hand-made falsifications flagged, '
                                 'conforming observations accepted')
        import concurrent.futures as cf
        ex = cf.ThreadPoolExecutor(5)
        W = max(2, common.NCPU // 4)
        K = 2 if quick else 3
        asis = pool.apply(work_probe, (0,))
        rep.extra['conformance_model_defects'] = asis
        jobs = {}

        def submit(name, fn, *a, **kw):
            jobs[name] = ex.submit(fn, *a, **kw)

        def result(name):
            r = jobs[name].result()
            if r.error or r.timed_out:
                raise MachineryError(f'TLC failed on {name}: {r.error or "timeout"}')
            return r
        # all TLC work is queued now (4-5 JVMs at a time) and consumed below while the replays run in the process pool
        groups = ([(('all',), ('all',), ('none', 'secs', 'ms', 'at')),
                   (('clean', 'error'), ('clean', 'error'), ('none',)),
                   (('none',), ('none', 'all'), ('none',))] if quick else
                  [(POLICIES, POLICIES, ('none',)), (('all', 'none'), ('all', 'none'), ('secs', 'ms', 'at'))])
        Kc = 1 if quick else 3
        for gi, (ps, os_, eas) in enumerate(groups):
            submit(f'cover{gi}', run_cfg_text, tmp, f'cover{gi}', life_cfg(defects=asis, K=Kc, props=ps, obeys=os_, eas=eas,
                                                                         emit=True, invariants=['TypeOK']), 'Lifecycle',
                   timeout=1500, workers=W)
        for nm in ('ExitProp_cases_uniform', 'ExitProp_cases_mixed', 'ExitProp_cases_mixed_phase'):
            submit(nm, run_tlc, SPEC_DIR, nm, 'ExitProp', timeout=1500, workers=W)
        life_cfgn = 'Lifecycle_quick' if quick else 'Lifecycle_thorough'
        ep_cfgn = 'ExitProp_quick' if quick else 'ExitProp_thorough'
        submit(life_cfgn, run_tlc, SPEC_DIR, life_cfgn, 'Lifecycle', timeout=1500, workers=W)
        submit(ep_cfgn, run_tlc, SPEC_DIR, ep_cfgn, 'ExitProp', timeout=1500, workers=W)
        for nm in ('ExitProp_phase_uniform', 'ExitProp_phase_mixed'):
            submit(nm, run_tlc, SPEC_DIR, nm, 'ExitProp', timeout=1500, workers=W)
        for d, inv in LIFE_DEFECT_DEMOS.items():
            submit(f'Lifecycle[{d}]', run_cfg_text, tmp, f'demo_{d}',
                   life_cfg(defects=[d], K=1, props=['all', 'clean'], obeys=['all', 'clean'], eas=['none', 'secs'],
                            interrupt=False, invariants=[inv]), 'Lifecycle', workers=2, timeout=600)
        for d, inv in EXITPROP_DEFECT_DEMOS.items():
            submit(f'ExitProp[{d}]', run_tlc, SPEC_DIR, f'ExitProp_defect_{d}', 'ExitProp', workers=2, timeout=600)
        # ---- 3. Lifecycle behaviours replayed on the real Filter.run -------------------------------------------------
        lines = []
        for gi, (ps, os_, eas) in enumerate(groups):
            r = result(f'cover{gi}')
            beh = behaviours_of(r, f'Lifecycle cover {gi}')
            r['out'] = ''
            rep.add_tlc(f'Lifecycle_cover[{"|".join(ps)} x {"|".join(os_)} x {"|".join(eas)}]', r,
                        f'model of the code as it stands (Defects = {asis}): {len(beh)} complete behaviours for replay')
            lines += beh
        lines = sorted(set(lines))
        life_async = pool.map_async(work_life, chunks(lines, 24))
        ea_cases = [(form, T, role, period) for form in ('secs', 'ms', 'at') for T in ((0.45, 0.8) if quick else (0.45, 0.8, 1.3, 2.05))
                    for role in ('middle', 'origin', 'sink') for period in ((5, 130) if quick else (5, 30, 130, 260))]
        ea_async = pool.map_async(work_exit_after, chunks(ea_cases, 3))
        # ---- 4. ExitProp cases on three real filters -------------------------------------------------------------------
        r = result('ExitProp_cases_uniform')
        if r.violated:
            raise MachineryError(f'ExitProp case enumeration failed: {r.violated}')
        uni = sorted(ln for ln in r.out.splitlines() if ln.startswith('"<<\\"CASE\\"'))
        r['out'] = ''
        rep.add_tlc('ExitProp_cases_uniform', r, f'{len(uni)} cases: 16 uniform policy pairs x 2 kinds x 3 filters x 3 topologies')
        if len(uni) != 288:
            raise MachineryError(f'expected 288 uniform ExitProp cases, TLC printed {len(uni)}')
        nsched = 1 if quick else 4          # seeded random schedules per case, besides the prompt one
        uni_async = pool.map_async(work_exitprop, chunks([(ln, None, None) for ln in uni] +
                                                         [(ln, None, 1000 * ctx.seed + 7919 * j + i) for j in range(nsched)
                                                          for i, ln in enumerate(uni)], 12))
        r = result('ExitProp_cases_mixed')
        if r.violated:
            raise MachineryError(f'ExitProp mixed case enumeration failed: {r.violated}')
        mixed = sorted(ln for ln in r.out.splitlines() if ln.startswith('"<<\\"CASE\\"'))
        r['out'] = ''
        nmix = 400 if quick else 20000
        rep.add_tlc('ExitProp_cases_mixed', r, f'{len(mixed)} cases with per-filter policies (intended design); {nmix} sampled for replay')
        r = result('ExitProp_cases_mixed_phase')
        if r.violated:
            raise MachineryError(f'ExitProp mixed/phase enumeration failed: {r.violated}')
        outcomes = {}
        for ln in r.out.splitlines():
            if ln.startswith('"<<\\"CASE\\"'):
                topo, who, kind, pol, exp = parse_case(ln)
                outcomes.setdefault((topo, who, kind, tuple(sorted(pol.items()))), []).append(exp)
        r['out'] = ''
        rep.add_tlc('ExitProp_cases_mixed_phase', r, 'model of the code as it stands for per-filter policies: the possible '
                                                     'final states per case (depend on the schedule)')
        rng = common.rng(ctx, 'mixed')
        items = []
        for ln in rng.sample(mixed, nmix):
            topo, who, kind, pol, exp = parse_case(ln)
            items.append((ln, outcomes.get((topo, who, kind, tuple(sorted(pol.items()))), []), None))
        mix_async = pool.map_async(work_exitprop, chunks(items, 12))
        # ---- 1. the design has the property -----------------------------------------------------------------------
        res = result(life_cfgn)
        tlc_must_pass(res, 'Lifecycle (Defects = {})')
        rep.add_tlc(life_cfgn, res, f'intended design: all C08 single-filter invariants on every behaviour, 16 policy pairs x 4 '
                                    f'exit_after forms, <= {K} loop iterations')
        res = result(ep_cfgn)
        tlc_must_pass(res, 'ExitProp (Defects = {})')
        res['out'] = ''
        rep.add_tlc(ep_cfgn, res, 'intended design: who terminates = least fixpoint of propagate/obey, for chain / tee / rejoin x '
                                  'exiting filter x kind x all 16^3 per-filter policy assignments, every delivery order')
        for cfgn, inv, purpose in (('ExitProp_phase_uniform', None, 'deviation oob_read_in_matching_phase, ONE policy pair for all '
                                    'filters: every C08 invariant still holds (the property\'s quantifier is not affected)'),
                                   ('ExitProp_phase_mixed', 'C08_Propagation', 'same deviation, per-filter pairs: counterexample')):
            r2 = result(cfgn)
            if r2.violated != inv:
                raise MachineryError(f'{cfgn}: expected {inv or "no violation"}, got {r2.violated}')
            r2['out'] = ''
            rep.add_tlc(cfgn, r2, purpose)
        # ---- 2. every named deviation is a counterexample (the invariants are not vacuous) -----------------------------
        demos = {}
        for d, inv in LIFE_DEFECT_DEMOS.items():
            r = result(f'Lifecycle[{d}]')
            if r.violated != inv:
                raise MachineryError(f'Lifecycle with defect {d}: TLC must report {inv} violated, got {r.violated}')
            rep.add_tlc(f'Lifecycle[{d}]', r, f'deviation switched on: counterexample to {inv}')
            ce = common.parse_counterexample(r.out)
            demos[d] = [list(l) for l in (ce[-1][1].get('path') or ())] if ce else None
        for d, inv in EXITPROP_DEFECT_DEMOS.items():
            r = result(f'ExitProp[{d}]')
            if r.violated != inv:
                raise MachineryError(f'ExitProp with defect {d}: TLC must report {inv} violated, got {r.violated}')
            rep.add_tlc(f'ExitProp[{d}]', r, f'hypothetical deviation: counterexample to {inv}')
        rep.extra['tlc_counterexample_paths'] = demos
        # ---- collect the replays ---------------------------------------------------------------------------------------------
        life = _agg_new()
        for a in life_async.get(timeout=7200):
            _agg_merge(life, a)
        rep.extra['lifecycle_behaviours_replayed'] = life['runs']
        ep = _agg_new()
        ep['mixed_missing'] = []
        for a in uni_async.get(timeout=7200) + mix_async.get(timeout=7200):
            _agg_merge(ep, a)
            ep['mixed_missing'] += a['mixed_missing']
        rep.extra['exitprop_cases_replayed'] = ep['runs']
        ea = _agg_new()
        for a in ea_async.get(timeout=7200):
            _agg_merge(ea, a)
        rep.extra['exit_after_runs'] = ea['runs']
        ex.shutdown(wait=False)
    finally:
        pool.terminate()
        pool.join()
        shutil.rmtree(tmp, ignore_errors=True)
    # ---- evidence -----------------------------------------------------------------------------------------------------
    total = _agg_new()
    for a in (life, ep, ea):
        _agg_merge(total, a)
    rep.traces = total['runs']
    for i in range(total['runs']):
        rep.case(i)
    rep.extra['scheduler_steps'] = total['steps']
    rep.extra['branch_counts'] = dict(sorted(life['branches'].items()))
    mm = ep['mixed_missing']
    rep.extra['per_filter_policies_not_all_terminated'] = {
        'count': len(mm), 'of': ep['runs'] - 288 * (2 if quick else 5),
        'what': 'per-filter policy assignments (outside the property\'s quantifier of policy PAIRS) in which a filter that '
                'should have obeyed an exit message never read it: it was waiting in recv for a source that had ended '
                'without announcing (or in send for consumers that had); ExitProp.tla deviation oob_read_in_matching_phase',
        'example': mm[0] if mm else None}
    if mm:
        rep.note(f'{len(mm)} of {ep["runs"] - 288 * (2 if quick else 5)} sampled per-filter policy assignments left a filter running that the policies '
                 f'tell to terminate (exit message unread in the socket of the other loop phase) - finding outside the quantifier, '
                 f'not a verdict; e.g. {mm[0]["topo"]} {mm[0]["who"]} {mm[0]["kind"]} {mm[0]["policies"]}')
    rep.extra['exitprop_branch_counts'] = {'cases': ep['runs'], 'uniform': 288,
                                           'uniform_random_schedules': 288 * (1 if quick else 4),
                                           'mixed_sampled': ep['runs'] - 288 * (2 if quick else 5),
                                           'distinct_uniform_branches': sum(1 for b in ep['branches'] if not b.endswith('mixed'))}
    rep.extra['exit_after_branch_counts'] = dict(sorted(ea['branches'].items()))
    # vacuity: every fault choice / loop event of the specification was executed on the code
    want = {'construct:raise', 'setup:raise', 'setup:exit', 'shutdown:raise', 'shutdown:exit', 'fini:raise', 'fini:exit',
            'init:raise_pre', 'init:raise_mid', 'init:raise_post', 'init:exit_post',
            'iter:stop_head', 'iter:recv_raise', 'iter:recv_stop', 'iter:recv_msg_clean', 'iter:recv_msg_error',
            'iter:proc_raise', 'iter:proc_exit', 'iter:proc_int', 'iter:send_raise', 'iter:send_stop', 'iter:send_msg_clean',
            'iter:send_msg_error'}
    if 'exit_after_time_module' not in asis:
        want.add('iter:deadline')
    if want - set(life['branches']):
        raise MachineryError(f'vacuity: lifecycle branches never executed: {sorted(want - set(life["branches"]))}')
    if sum(1 for b, n in ep['branches'].items() if not b.endswith('mixed') and n == (2 if quick else 5)) != 288:
        raise MachineryError('vacuity: not all 288 uniform exit-propagation cases were executed')
    for s_ in (life['samples'] + ep['samples'] + ea['samples'])[:4]:
        rep.sample(s_)
    finish_agg(rep, life, 'replayed Lifecycle behaviours')
    finish_agg(rep, ep, 'exit propagation cases')
    finish_agg(rep, ea, 'timed exit_after runs')
    rep.exhaustive = total['ndrift'] == 0
    from . import c08_proto
    c08_proto.stage(rep, ctx)          # C08 at the level of the protocol specification (OFP.tla)
    from . import c08_runner
    c08_runner.stage(rep, ctx)         # the multi-process supervisor Filter.Runner (Runner.tla)
    return rep.finish()


def replay(ctx):
    from . import life_harness as H
    H.modules()
    w = json.load(open(ctx.replay))
    wit = w['witness']
    rep = Report(ctx)
    mode = wit.get('mode')
    if mode == 'life':
        life = [tuple(l) for l in wit['life']]
        sc = H.Scenario(wit['cfg'], life, wit.get('final'))
        o = H.run_scenario(sc)
        print(f'replay of {ctx.replay}: Lifecycle behaviour {life}\n  cfg {wit["cfg"]} exit_after={sc.exit_after!r}')
        print(f'  observed: {o["F"]}')
        v = H.judge_single(sc, o)
    elif mode == 'exitprop':
        pol = {f: tuple(p) for f, p in wit['policies'].items()}
        import random
        o = H.run_exitprop(wit['topo'], wit['who'], wit['kind'], pol, at=wit.get('at', 'proc'),
                           rng=None if wit.get('seed') is None else random.Random(wit['seed']))
        print(f'replay of {ctx.replay}: {wit["topo"]}, {wit["who"]} ends ({wit["kind"]}), prop/obey {pol}')
        for f in H.NAMES:
            F = o['filters'][f]
            print(f'  {f}: {F["result"]} {F["exc"] or ""} calls {F["calls"]} announced {F["announced"]}')
        v = H.judge_exitprop(wit['topo'], wit['who'], wit['kind'], pol, o, strict=wit.get('strict', True), at=wit.get('at', 'proc'))
    elif mode == 'exit_after':
        o = H.run_exit_after(wit['form'], wit['T'], wit['role'], wit['period_ms'])
        print(f'replay of {ctx.replay}: exit_after={o["value"]!r} {wit["role"]} period {wit["period_ms"]} ms')
        print(f'  observed: {o["F"]}')
        v = H.judge_exit_after(wit['form'], wit['T'], wit['role'], wit['period_ms'], o)
    elif mode == 'runner':
        from . import c08_runner
        print(f'replay of {ctx.replay}: Runner.tla behaviour on the real Filter.Runner, {wit["n"]} children, stop_exit={wit["stop_exit"]}')
        v = c08_runner.replay_witness(wit)
    else:
        raise MachineryError(f'unknown replay mode {mode!r}')
    rc = 0
    for formula, text, sig in v:
        kind = rep.violation(text, wit, dict(sig, formula=formula))
        print(f'  {formula} is false: {text}{" [matches a known finding]" if kind == "known" else ""}')
        if kind == 'new':
            rc = 1
    if rc:
        print(f'VIOLATION property={ctx.prop} replay={ctx.replay}')
    if not v:
        print('  no property formula is false on this execution')
    return rc

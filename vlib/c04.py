"""C04 - a stalled synchronized consumer stalls its producers (bounded buffering).

Specification: spec/proto/OFP.tla: `requested` is cleared by every publish that includes the client and set only by a
request of that client (SPollMsg / SendMaybe); Stall(f) is a fault action; ahead[c] counts the publishes that include c
since c stalled; C04_Bounded == ahead[c] <= 9.  Connections never time out in these configurations (ConnTicks = 0), which
is the worst case of "however long the stall lasts".
On the real code the stall is "the consumer's task is never scheduled again"; publishes of the direct publisher on the
output the stalled consumer is attached to are counted on the simulated PUB socket.
"""
from . import common, topos, observers, simzmq
from .common import Report
from .proto import SimPipeline
from .protocheck import Engine, replay_witness, run_schedule, replay_trace

PROPS = ('C04_Bounded', 'C04_NoEarlyEvict')
BOUND = 9


def count_after_stall(topo, pipe, victim, stall_step):
    """per direct publisher of `victim` (synchronized connections): number of distinct frame ids published on the output the
    victim is attached to after the stall, while the victim's client entry may still be counted."""
    out = {}
    # the direct publishers of the victim, and - "a stalled consumer stalls its producers" - every producer further upstream
    # (a relay blocked on its outputs must not keep drawing frames from its own sources)
    todo, seen = [victim], set()
    while todo:
        f = todo.pop()
        for i, s in enumerate(topo.filters[f]['srcs']):
            if s['eph'] or (s['pub'], s['out']) in seen:
                continue
            seen.add((s['pub'], s['out']))
            g, o = s['pub'], s['out']
            port = topo.port(g, o)
            mids = set()
            for ev in pipe.world.events:
                if ev[0] == 'pub' and ev[1].split('/')[0] == g and ev[5] > stall_step and int(ev[2].rsplit(':', 1)[1]) == port:
                    topic, env = simzmq.hdr(ev[3])
                    if env['mid'] >= 0:
                        mids.add((ev[4], env['mid']))
            out[g] = max(out.get(g, 0), len(mids))
            if not topo.filters[g].get('outbal') and len([c for c in topo.conns_of(g) if topo.src_of(c)['eph'] == 0]) == 1:
                todo.append(g)         # g has no other synchronized consumer: it must come to a halt too
    return out


def registered(topo, pipe, victim):
    """the victim is in the client table of each of its synchronized publishers (on a balanced output with a '?' listener
    frames reach a subscriber the publisher has not heard from yet: being handed a frame does not imply being counted)"""
    for s in topo.filters[victim]['srcs']:
        if s['eph']:
            continue
        snd = getattr(getattr(pipe.filters.get(s['pub']), 'mq', None), 'sender', None)
        if snd is None or not any(c[0] == topo.filters[victim].get('cid', victim) for c in list(snd.clients.values())):
            return False
    return True


def stall_runs(eng, rep, topo, victim, n, steps, tag):
    mx = 0
    for k in range(n):
        rng = common.rng(eng.ctx, f'{topo.name}/{victim}/{tag}/{k}')
        pipe = SimPipeline(topo)
        try:
            pipe.start()
            at = rng.randrange(5, 200) if tag != 'slow-producer' else rng.randrange(300, 900)
            run_schedule(pipe, rng, at, p_timeout=0.02, quiet=10 ** 9)
            # "stops taking frames" presupposes a consumer that is taking frames: a task frozen before its connection
            # handshake completed is not yet a consumer of the publisher (the model's `ahead` counts only publishes that
            # include the client) - run on until the victim has been handed at least one set
            extra = 0
            while not (pipe.delivered[victim] and registered(topo, pipe, victim)) and extra < 400:
                run_schedule(pipe, rng, 10, p_timeout=0.02, quiet=10 ** 9)
                extra += 10
            if not (pipe.delivered[victim] and registered(topo, pipe, victim)):
                rep.case((topo.name, victim, tag, k), nontrivial=False)     # never became a consumer under this schedule
                continue
            stall_step = pipe.world.step_no
            pipe.stall(victim)
            run_schedule(pipe, rng, steps, p_timeout=0.02, quiet=400)
            cnt = count_after_stall(topo, pipe, victim, stall_step)
            rep.case((topo.name, victim, tag, k), nontrivial=any(cnt.values()))
            rep.traces += 1
            how = {'kind': 'trace', 'topo': topo.name, 'topo_def': topo.to_dict(), 'seed': eng.ctx.seed,
                   'origin': f'stall of {victim} at step {stall_step} ({tag}/{k})', 'victim': victim,
                   'trace': [list(t) for t in pipe.world.trace]}
            for g, c in cnt.items():
                mx = max(mx, c)
                if c > BOUND:
                    rep.violation(f'C04_Bounded: {g} published {c} further frames towards stalled synchronized consumer {victim} '
                                  f'(stalled at step {stall_step}, run continued for {steps} steps)  [{topo.name} {tag}/{k}]',
                                  {'how': how, 'counts': cnt}, {'formula': 'C04_Bounded', 'topology': topo.name})
        finally:
            pipe.close()
    return mx


class EvictWatch:
    """C04_NoEarlyEvict on the real sender g: every time-out eviction ('disconnected output ... (timeout)' of zeromq.py) is
    compared with the time at which g itself took the last request of that client from its socket (g's own clock)."""

    def __init__(self, pipe, g):
        import json as _json
        self.pipe, self.g, self.heard, self.evictions = pipe, g, {}, []
        w = pipe.world
        snd = pipe.filters[g].mq.sender
        watch = self

        for pull in snd.pulls:
            orig = pull.recv_multipart

            def recv(*a, _o=orig, **k):
                msg = _o(*a, **k)
                try:
                    watch.heard[_json.loads(bytes(msg[0]).decode())['cid']] = w.time_ns()
                except Exception:   # noqa
                    pass
                return msg
            pull.recv_multipart = recv

        class LogProxy:          # the module's logger (logging is disabled in the harness: the call itself is observed)
            def __init__(self_, orig):
                self_._o = orig

            def __getattr__(self_, k):
                return getattr(self_._o, k)

            def info(self_, m, *a, **k):
                m = str(m)
                if m.startswith('disconnected output: ') and m.endswith('(timeout)') and w.cur is not None and w.cur.name == g:
                    cid = m[len('disconnected output: '):].split()[0]
                    watch.evictions.append((cid, w.time_ns(), watch.heard.get(cid)))
                return self_._o.info(m, *a, **k)
        self.orig_logger = pipe.Z.logger
        pipe.Z.logger = LogProxy(self.orig_logger)

    def close(self):
        self.pipe.Z.logger = self.orig_logger

    def early(self):
        ct = self.pipe.Z.ZMQ_CONN_TIMEOUT * 1_000_000
        return [(cid, te, th) for cid, te, th in self.evictions if th is not None and te - th < ct]


def blocking_labels(eng, rep, topo, g, labels, origin):
    """replay a TLC schedule on a pipeline whose publisher g uses the blocking send(); judge g's time-out evictions"""
    from . import proto
    pipe = SimPipeline(topo)
    watch = None
    try:
        pipe.start()
        watch = EvictWatch(pipe, g)
        beh = [{'lbl': ('init', '', 0)}] + [{'lbl': l} for l in labels]
        proto.replay(topo, beh, pipe=pipe, compare=False)
        run_schedule(pipe, common.rng(eng.ctx, origin + '/cont'), 300, p_timeout=0.05, quiet=200)
        rep.case((topo.name, origin), nontrivial=bool(watch.evictions) or any(pipe.delivered.values()))
        rep.traces += 1
        how = {'kind': 'blocking', 'topo': topo.name, 'topo_def': topo.to_dict(), 'seed': eng.ctx.seed, 'origin': origin,
               'publisher': g, 'trace': [list(t) for t in pipe.world.trace]}
        for cid, te, th in watch.early():
            rep.violation(f'C04_NoEarlyEvict: {g} (blocking send) dropped client {cid} as timed out {round((te - th) / 1e6)} ms after '
                          f'taking its last request (ZMQ_CONN_TIMEOUT = {pipe.Z.ZMQ_CONN_TIMEOUT} ms): the publisher no longer '
                          f'waits for a consumer it heard from  [{origin}, {topo.name}]',
                          {'how': how, 'evictions': watch.evictions}, {'formula': 'C04_NoEarlyEvict', 'topology': topo.name})
            break
    finally:
        if watch:
            watch.close()
        pipe.close()


def stall_labels(eng, rep, topo, labels, origin):
    """replay a TLC schedule containing a Stall step on the real code, continue promptly, count publishes after the stall"""
    from .protocheck import run_labels
    victim = next((l[1] for l in labels if l[0] == 'stall'), None)
    if victim is None:
        return
    pipe, _ = run_labels(topo, labels, common.rng(eng.ctx, origin), finish=0)
    try:
        stall_at = next(i for i, t in enumerate(pipe.world.trace) if t[0] == 'stall')
        stall_step = sum(1 for t in pipe.world.trace[:stall_at] if t[0] not in ('stall', 'resume', 'kill', 'restart'))
        run_schedule(pipe, common.rng(eng.ctx, origin + '/cont'), 1500, p_timeout=0.02, quiet=400)
        cnt = count_after_stall(topo, pipe, victim, stall_step)
        rep.case((topo.name, origin))
        rep.traces += 1
        how = {'kind': 'trace', 'topo': topo.name, 'topo_def': topo.to_dict(), 'seed': eng.ctx.seed, 'origin': origin,
               'victim': victim, 'trace': [list(t) for t in pipe.world.trace]}
        for g, c in cnt.items():
            if c > BOUND:
                rep.violation(f'C04_Bounded: {g} published {c} further frames towards stalled synchronized consumer {victim}  '
                              f'[{origin}, {topo.name}]', {'how': how, 'counts': cnt},
                              {'formula': 'C04_Bounded', 'topology': topo.name})
    finally:
        pipe.close()


def scenarios(quick):
    T = topos
    st = dict(max_faults=1, fault_kinds=['stall'])
    B = dict(pq=12, lq=6)
    return dict(
        # (topology, scheduling, bounds, faults, invariant): the invariant is the bound the design achieves in that
        # configuration (C04_TightN: at most N further publishes), far below the property's "single digits"
        mc=[(T.chain2(maxseq=8), 'SpecZL', B, dict(st, victims=['K']), 'C04_Tight5'),
            (T.chain3(maxseq=6), 'SpecZL', B, dict(st, victims=['K']), 'C04_Tight6'),
            (T.chain2(maxseq=5), 'SpecPrompt', B, dict(st, victims=['K']), 'C04_Tight5')] +
           ([] if quick else [
               (T.chain2(maxseq=6), 'SpecPrompt', B, dict(st, victims=['K']), 'C04_Tight5'),
               (T.chain3(maxseq=6), 'SpecZL', B, dict(st, victims=['A']), 'C04_Tight6'),
               (T.bal_listen(maxseq=4), 'SpecZL', B, dict(st, victims=['W1']), 'C04_Tight2')]),
        # `requested` not cleared on publish: shows with a second consumer whose requests keep triggering the recomputation
        mut=[(T.bal_listen(maxseq=4), 'SpecZL', ['bal_eph_reenables'], B, dict(st, victims=['W1'], run_maxseq=40), 'C04_Tight2')] +
            ([] if quick else [(T.tee(maxseq=9), 'SpecZL', ['no_clear_req'], dict(pq=14, lq=6), dict(st, victims=['B'], sim=(30000, 400)), 'C04_Tight6')]),
        conf=[(T.chain3(maxseq=6), 'SpecPrompt', 8 if quick else 80, 300, dict(max_faults=1, fault_kinds=['stall'], victims=['K', 'A'])),
              # a publisher that is an application using the blocking send() (timeout = None), with connection time-outs
              (T.blocking(T.tee(maxseq=3, conn_ticks=2), ['S']), 'SpecPrompt', 10 if quick else 150, 200, {})],
        # blocking publishers: a client is dropped only after ZMQ_CONN_TIMEOUT of silence, however long one send() call lasts
        blk_mc=[(T.blocking(T.chain2(maxseq=2, conn_ticks=2)), 'SpecPrompt', {}),
                (T.blocking(T.tee(maxseq=1, conn_ticks=2), ['S']), 'SpecZL', {})] +
               ([] if quick else [(T.blocking(T.tee(maxseq=2, conn_ticks=2), ['S']), 'SpecZL', {}),
                                  (T.blocking(T.chain3(maxseq=2, conn_ticks=2)), 'SpecPrompt', {})]),
        blk_mut=[(T.blocking(T.tee(maxseq=3, conn_ticks=2), ['S']), 'SpecPrompt', 'S', ['stale_t'], {})],
        stall=[(T.chain2(maxseq=40), 'K', 6 if quick else 100, 1500, 'sole'),
               (T.tee(maxseq=40), 'B', 6 if quick else 100, 2000, 'one-of-two'),
               (T.chain3(maxseq=40), 'K', 6 if quick else 100, 2000, 'behind-relay'),
               (T.chain3(maxseq=40), 'A', 6 if quick else 100, 2000, 'relay'),
               (T.chain3(maxseq=40, slow=True), 'K', 4 if quick else 60, 2500, 'slow-relay'),
               # the stalled consumer lists an ephemeral source before the synchronized one (request flags must not leak)
               (T.eph_first(maxseq=40), 'K', 4 if quick else 60, 2000, 'eph-first'),
               # a non-balanced publisher bound to two addresses: the consumer on the other address must still hold it back
               (T.two_addr(maxseq=40), 'K', 4 if quick else 60, 2000, 'two-addresses'),
               # two replicas of one consumer (same filter id, told apart by the connection's uid): one of them stalls
               (T.same_id(T.tee(maxseq=40), ['A', 'B'], 'R'), 'B', 4 if quick else 60, 2000, 'replica-of-same-id'),
               # a publisher that declares its consumers as required outputs: the stalled one still holds it back
               (topos.with_required(T.tee(maxseq=40)), 'B', 4 if quick else 60, 2000, 'required-outputs'),
               # the publisher is an application using the blocking send()
               (T.blocking(T.tee(maxseq=40), ['S']), 'B', 4 if quick else 60, 2000, 'blocking-publisher'),
               # a worker of a balanced splitter with a '?' listener on its endpoint: the listener's requests must not
               # pull frames onto the endpoint of the stalled worker
               (T.balance2_eph(maxseq=60, slow1=False), 'W1', 4 if quick else 60, 2500, 'balanced-listener'),
               # a producer slower than the request interval: the consumer's periodic re-requests must be collapsed, not queued
               (T.chain2(maxseq=60, slow_origin=True), 'K', 6 if quick else 60, 3000, 'slow-producer')],
    )


def run(ctx):
    rep = Report(ctx)
    rep.rule = ('case = one execution of the real pipeline in which a synchronized consumer is stalled (never scheduled again) '
                'at a seeded random step and the rest runs on for 1500-2500 scheduler steps; counted: distinct frame ids its direct '
                'publisher publishes on that output after the stall; non-trivial = the publisher published at least once more')
    rep.assumptions = ['simulated ZeroMQ', 'connections never time out during the stall (worst case)', 'bound checked: 9 (single digits)']
    eng = Engine(ctx, rep, PROPS)
    sc = scenarios(ctx.quick)
    for topo, spec, bounds, kw, inv in sc['mc']:
        eng.model_check(topo, spec, invariants=(inv, 'C04_Bounded', 'NoCrash'), bounds=bounds, timeout=900 if ctx.quick else 3000,
                        name=f'{topo.name}/{spec}/{inv}', **kw)
    for topo, spec, muts, bounds, kw, inv in sc['mut']:
        kw = dict(kw)
        sim = kw.pop('sim', None)
        rms = kw.pop('run_maxseq', None)        # the schedule is replayed on the same pipeline with a longer stream
        from .proto import Topo
        rtopo = Topo.from_dict(dict(topo.to_dict(), maxseq=rms)) if rms else topo
        eng2 = Engine(ctx, rep, ())          # the schedule is judged by the stall counter below, not by the delivery observers
        for mut in muts:
            labels = eng2.mutation_labels(topo, spec, mut, invariant=inv, bounds=bounds, timeout=200 if ctx.quick else 900, sim=sim, **kw)
            if labels:
                stall_labels(eng, rep, rtopo, labels, f'counterexample of design mutation {mut}')
    for topo, spec, bounds in sc['blk_mc']:
        eng.model_check(topo, spec, invariants=('C04_NoEarlyEvict', 'C01', 'C02', 'NoCrash', 'TypeOK'), bounds=bounds,
                        timeout=900 if ctx.quick else 3000, name=f'{topo.name}/{spec}/C04_NoEarlyEvict')
    for topo, spec, g, muts, bounds in sc['blk_mut']:
        eng2 = Engine(ctx, rep, ())
        for mut in muts:
            labels = eng2.mutation_labels(topo, spec, mut, invariant='C04_NoEarlyEvict', bounds=bounds, timeout=300 if ctx.quick else 900)
            if labels:
                blocking_labels(eng, rep, topo, g, labels, f'counterexample of design mutation {mut}')
    for topo, spec, num, depth, kw in sc['conf']:
        eng.conformance(topo, spec, num, depth, **kw)
    # a stalled consumer is dropped as timed out when a sibling's request makes the sender look, and has to register anew when it
    # runs again: TLC's shortest behaviour that gets there, replayed with the state compared after every step
    eng.reach(topos.tee(maxseq=3, conn_ticks=2), 'SpecPrompt', 'X_NoLiveEviction', timeout=600, max_faults=1, fault_kinds=['stall'],
              victims=['B'])
    mx = 0
    for topo, victim, n, steps, tag in sc['stall']:
        mx = max(mx, stall_runs(eng, rep, topo, victim, n, steps, tag))
    rep.extra['max_publishes_after_stall_observed'] = mx
    rep.note(f'largest number of further publishes towards a stalled consumer observed on the real code: {mx}')
    return rep.finish()


def replay(ctx):
    import json
    w = json.load(open(ctx.replay))
    how = w['witness']['how']
    from .proto import Topo
    topo = Topo.from_dict(how['topo_def'])
    if how.get('kind') == 'blocking':
        pipe = SimPipeline(topo)
        pipe.start()
        watch = EvictWatch(pipe, how['publisher'])
        try:
            replay_trace(topo, [tuple(t) for t in how['trace']], pipe=pipe)
            print('time-out evictions (client, at, last request taken at):', watch.evictions)
            if watch.early():
                print(f'VIOLATION property=C04 replay={ctx.replay}')
                return 1
            return 0
        finally:
            watch.close()
            pipe.close()
    if 'victim' not in how:
        return replay_witness(ctx, PROPS)
    pipe = replay_trace(topo, [tuple(t) for t in how['trace']])
    try:
        stall_step = next(i for i, t in enumerate(how['trace']) if t[0] == 'stall')
        # step numbers: count of performed actions before the stall entry
        nsteps = sum(1 for t in how['trace'][:stall_step] if t[0] not in ('stall', 'resume', 'kill', 'restart'))
        cnt = count_after_stall(topo, pipe, how['victim'], nsteps)
        print('publishes after stall:', cnt)
        bad = {g: c for g, c in cnt.items() if c > BOUND}
        if bad:
            print(f'VIOLATION property=C04 replay={ctx.replay}')
            return 1
        return 0
    finally:
        pipe.close()

def run_histories(ctx, rep, pool, sd, present, nw):
    pass

SPECIFICATION Spec
CONSTANTS N = 3
  StopExit = {"clean","error"}
INVARIANT TypeOK
INVARIANT R_StopTellsAll
INVARIANT R_Retcodes
PROPERTY R_StepVerdict
PROPERTY R_StopSticky
PROPERTY R_NoneWaitsForAll

--------------------------- MODULE TraceHeadFile ---------------------------
(* code -> spec binding for C14: executions of a real writer and a real RollLog(rdonly, head=...) with crashes injected
   at the file-system operations of write_head (vlib/c14.py, fault enumeration), recorded as JSON and validated against
   HeadFile.tla.  A real write_head() is one call; the recorder knows from the wrapped file layer which operations
   completed before the process died and lists them as the labels s_open, s_write, s_close, s_rename; only the state
   after the call (or after the crash) is observable, so the projection is compared where the recorder logged one
   ("obs" present) and left to the specification in between.

   The C14 invariants and action properties are INVARIANT / PROPERTY lines of the trace configuration: TLC itself judges
   the property on the real executions.  One initial state per trace; a rejected step is a deadlock. *)
EXTENDS HeadFile, Json, IOUtils

VARIABLES tid, i
Traces == JsonDeserialize(IOEnv.VERIF_TRACE)     \* sequence of [fsz, tsz, steps: Seq([l, cmp, obs])]
T == Traces[tid]

HProj ==
  LET sc == ScanLF IN
  [dir |-> [k \in 1..Len(sc) |-> [ts |-> sc[k].ts, c |-> data[dir[sc[k].ts]]]],
   head |-> [st |-> head.st, k |-> head.p.k, ts |-> head.p.ts, off |-> head.p.off],
   tmp |-> [st |-> tmp.st, k |-> tmp.p.k, ts |-> tmp.p.ts, off |-> tmp.p.off],
   up |-> up,
   r |-> [lf |-> lf[R], ridx |-> ridx[R], open |-> rf[R].ino # 0, off |-> rf[R].off]]

InitH == tid \in 1..Len(Traces) /\ i = 0 /\ fsz = T.fsz /\ tsz = T.tsz /\ InitRest
         /\ head = NoHead /\ tmp = NoHead /\ hpc = "idle" /\ hbuf = NoPos /\ up = FALSE
         /\ prevp = NoHead /\ newp = NoHead /\ delivered = {} /\ ncrash = 0 /\ nsave = 0 /\ hev = HEv("init", TRUE)
StepH ==
  /\ i < Len(T.steps)
  /\ LET s == T.steps[i + 1] IN
     /\ HNextL([a |-> s.l[1], o |-> s.l[2], x |-> s.l[3], y |-> s.l[4]])
     /\ s.cmp = 1 => (HProj' = s.obs /\ (s.l[1] \in {"read", "readblock"} => ev'.chunk = s.chunk) /\ hev'.ok = s.ok)
  /\ i' = i + 1 /\ UNCHANGED tid
DoneH == i = Len(T.steps) /\ UNCHANGED <<allvars, tid, i>>
SpecH == InitH /\ [][StepH \/ DoneH]_<<allvars, tid, i>>
=============================================================================

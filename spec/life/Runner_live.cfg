SPECIFICATION FairSpec
CONSTANTS N = 2
  StopExit = {"clean", "error"}
PROPERTY R_Terminates

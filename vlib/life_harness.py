"""Shared harness of C08 (lifecycle / exit propagation) and C18 (lineage history).

Real `Filter` subclasses from the working tree are run with the real `Filter.run(config, sig_stop=False, prop_exit=..,
obey_exit=.., stop_evt=..)` as tasks of a `simzmq.World` (deterministic in-memory ZeroMQ, cooperative scheduler,
virtual time).  Only module globals through which the code reaches the outside are substituted:

    openfilter.filter_runtime.zeromq   zmq, time_ns, sleep                (as in vlib/proto.py)
    openfilter.filter_runtime.filter   time       -> a *module object* whose time()/time_ns()/sleep() are virtual; it is a
                                                     module, not a callable, exactly like the real `time` module there
                                       threading  -> Event = real Event, Thread = inline thread (process_frames_metadata)
    openfilter.filter_runtime.utils    datetime   -> subclass whose now() reads the virtual clock ('@time' forms)
    openfilter.observability.lineage   threading  -> Thread = simzmq.SimThread (the heartbeat thread becomes a scheduled
                                                     task), Event = LinEvent, Lock = no-op lock

Lineage events are captured by `CapClient` (the `client=` argument of OpenFilterLineage - its documented injection point);
in replay mode every emission and every set() of the heartbeat's stop event is a *yield point* (the task parks with a
('lin', ..) tag that only the replay driver resumes), so that every interleaving of the specification's heartbeat
process with the main thread can be realised on the real code.

A `Rig` is one world with a few `FSpec` filters.  Behaviour of a filter = a `plan` dict interpreted by the generic
subclass `LF`: faults at construct / init / setup / k-th process / recv / send / shutdown / fini, origin pacing, commands
(send an exit message without ending, pause).  Everything observed is collected in `Obs`.
"""
from __future__ import annotations

import datetime as _dt
import inspect
import itertools
import json
import sys
import threading as _real_threading
import time as _real_time
import types

from . import common, simzmq

EPOCH_NS = 1_700_000_000_000_000_000


class Fault(RuntimeError):
    """The exception the harness injects into user callbacks (an ordinary Exception of the code under test)."""


class SockFault(simzmq.ZMQError):
    """Injected through a simulated socket (recv_multipart / send_multipart raising)."""


# ---------------------------------------------------------------------------------------------------------------------
# module-global substitutions

_M = {}


def modules():
    """Import the code under test once (after use_repo) and remember the original globals."""
    if not _M:
        common.use_repo()
        from openfilter.filter_runtime import zeromq as Z, filter as Fm, mq as Mm, utils as Um
        from openfilter.observability import lineage as Lm
        _M.update(Z=Z, Fm=Fm, Mm=Mm, Um=Um, Lm=Lm,
                  orig=dict(Fm_time=Fm.time, Fm_threading=Fm.threading, Lm_threading=Lm.threading,
                            Um_datetime=Um.datetime))
    return _M


class _InlineThread:
    """threading.Thread stand-in for filter.py: process_frames() starts a thread per processed frame set for
    process_frames_metadata(); it is run at start() (it returns at once when telemetry is off)."""

    def __init__(self, target=None, args=(), kwargs=None, daemon=None, name=None):
        self.target, self.args, self.kwargs = target, args, kwargs or {}

    def start(self):
        self.target(*self.args, **self.kwargs)

    def join(self, timeout=None):
        pass

    def is_alive(self):
        return False


class _NoLock:
    def __enter__(self):
        return self

    def __exit__(self, *a):
        return False

    def acquire(self, *a, **k):
        return True

    def release(self):
        pass


class LinEvent(simzmq.SimEvent):
    """The heartbeat's stop event: set() is a yield point in replay mode (tag ('lin', 'stophb'))."""
    yield_on_set = False

    def set(self):
        self._flag = True
        w = simzmq.Context.world
        t = w.cur if w else None
        if LinEvent.yield_on_set and t is not None and not t.killed:
            cap = getattr(w, 'lincap', None)
            if cap is not None and cap.active:
                cap.ops.append(('stophb', _call_site()))
                t.park(('lin', 'stophb'))


class LinThread(simzmq.SimThread):
    """The heartbeat thread: a scheduled task; start() is a yield point in replay mode (tag ('lin', 'hbstart'))."""

    def start(self):
        super().start()
        w = simzmq.Context.world
        t = w.cur if w else None
        cap = getattr(w, 'lincap', None)
        if LinEvent.yield_on_set and t is not None and not t.killed and cap is not None and cap.active:
            cap.ops.append(('hbstart', _call_site()))
            t.park(('lin', 'hbstart'))


def _vtime_module(world):
    """A module object like `time`, with the clock functions reading the virtual clock."""
    m = types.ModuleType('time')
    for k in dir(_real_time):
        if not k.startswith('__'):
            setattr(m, k, getattr(_real_time, k))
    m.time = world.time
    m.time_ns = world.time_ns
    m.monotonic = lambda: world.time() - 1_699_999_000.0      # a monotonic clock has an arbitrary epoch: never comparable with time()
    m.sleep = world.sleep
    return m


def _vdatetime(world):
    class VDateTime(_dt.datetime):
        @classmethod
        def now(cls, tz=None):
            return cls.fromtimestamp(world.time(), tz)
    return VDateTime


_SITE_CACHE = {}


def _run_sites():
    """Line -> name of the spec's call site for every emitter call inside Filter.run: which except handler / finally block
    it sits in ('exc', 'exit_h', 'prop', 'fin_inner', 'fin_outer')."""
    import ast
    import textwrap
    Fm = modules()['Fm']
    key = id(Fm.Filter.run)
    if key in _SITE_CACHE:
        return _SITE_CACHE[key]
    d = {}
    try:
        src, first = inspect.getsourcelines(Fm.Filter.run.__func__)
        fn = ast.parse(textwrap.dedent(''.join(src))).body[0]
        outer = next((n for n in fn.body if isinstance(n, ast.Try)), None)

        def tname(h):
            ty = h.type
            nm = ast.unparse(ty) if ty is not None else 'BaseException'
            return {'Exception': 'exc', 'BaseException': 'exc', 'Filter.Exit': 'exit_h', 'Filter.PropagateError': 'prop'}.get(nm, nm)

        def mark(nodes, name):
            for n in nodes:
                for c in ast.walk(n):
                    if isinstance(c, ast.Call) and isinstance(c.func, ast.Attribute) and c.func.attr in (
                            'emit_stop', 'emit_complete', 'stop_lineage_heart_beat'):
                        d.setdefault(first + c.lineno - 1, name)

        def visit(tr):
            for h in tr.handlers:          # innermost first: nested trys inside a handler body do not occur in run()
                mark(h.body, tname(h))
            for n in tr.body:
                for c in ast.walk(n):
                    if isinstance(c, ast.Try):
                        visit(c)
            mark(tr.finalbody, 'fin_outer' if tr is outer else
                 ('fin_inner' if any(tname(h) == 'exc' for h in tr.handlers) else 'fin'))
        if outer is not None:
            visit(outer)
    except Exception:
        pass
    _SITE_CACHE[key] = d
    return d


def _call_site():
    """Which function of filter.py (and which handler of run) is calling into the emitter: 'init', 'exit', 'fini',
    'exc', 'fin_inner', ... ; 'hb' for the heartbeat thread."""
    f = sys._getframe(2)
    fm_file = modules()['Fm'].__file__
    while f is not None:
        co = f.f_code
        if co.co_name == '_heartbeat_loop':
            return 'hb'
        if co.co_filename == fm_file:
            if co.co_name == 'run':
                return _run_sites().get(f.f_lineno, f'run@{f.f_lineno}')
            return co.co_name
        f = f.f_back
    return '?'


class CapClient:
    """Capturing OpenLineage client.  events: (kind, run_id, site, virtual time, task name)."""

    def __init__(self, world, yield_points=False):
        self.world = world
        self.events = []
        self.ops = []              # main-thread micro-operations in order: ('emit', kind, site) / ('stophb', site)
        self.yield_points = yield_points
        self.active = True

    def emit(self, event):
        if not self.active:
            return
        w = self.world
        t = w.cur
        kind = getattr(event.eventType, 'name', None) or str(event.eventType)
        site = _call_site()
        self.events.append((kind, event.run.runId, site, w.time(), t.name if t else None))
        if site != 'hb':
            self.ops.append(('emit', kind, site))
        if self.yield_points and t is not None and not t.killed:
            t.park(('lin', kind))


def install(world, *, poll_ms=100, linger_ms=20, lineage_yield=False):
    """Point the code under test at `world`."""
    m = modules()
    Z, Fm, Mm, Um, Lm = m['Z'], m['Fm'], m['Mm'], m['Um'], m['Lm']
    simzmq.Context.world = world
    Z.zmq = simzmq
    Z.ZMQContext.context = (None, 0)
    Z.time_ns = world.time_ns
    Z.sleep = world.sleep
    Z.ZMQ_POLL_TIMEOUT = poll_ms
    Mm.POLL_TIMEOUT_MS = poll_ms
    Fm.POLL_TIMEOUT_MS = poll_ms
    Fm.POLL_TIMEOUT_SEC = poll_ms / 1000
    Z.ZMQ_CONN_TIMEOUT = 10 ** 9
    Z.ZMQ_PUB_HWM = 100
    Z.ZMQ_PUSH_HWM = 20
    Z.ZMQ_CONN_HANDSHAKE = True
    Z.ZMQ_EXPLICIT_LINGER = linger_ms
    # filter.py: `time` is the module there (import time); keep its kind - a repaired tree may import the function
    orig_time = m['orig']['Fm_time']
    if isinstance(orig_time, types.ModuleType):
        Fm.time = _vtime_module(world)
    elif callable(orig_time):
        Fm.time = world.time
    Fm.threading = types.SimpleNamespace(Event=_real_threading.Event, Thread=_InlineThread, Lock=_real_threading.Lock,
                                         current_thread=_real_threading.current_thread)
    Um.datetime = _vdatetime(world)
    Lm.threading = types.SimpleNamespace(Thread=LinThread, Event=LinEvent, Lock=_NoLock)
    LinEvent.yield_on_set = lineage_yield
    world.lincap = None


def uninstall():
    m = modules()
    o = m['orig']
    m['Fm'].time, m['Fm'].threading, m['Lm'].threading, m['Um'].datetime = (o['Fm_time'], o['Fm_threading'],
                                                                             o['Lm_threading'], o['Um_datetime'])


# ---------------------------------------------------------------------------------------------------------------------
# filters

class FSpec:
    """One filter of a rig.
    plan keys (all optional):
      construct: 'raise'                                   invalid configuration -> ValueError in the constructor
      init:      'raise_pre' | 'raise_mid' | 'raise_post' | 'exit_post' | 'exit_pre'
                     pre  = invalid source address (ValueError in Filter.init before the MQ exists)
                     mid  = second output address already bound (the MQ constructor fails half way)
                     post = subclass init() raises / calls exit() after super().init()
      setup:     'raise' | 'exit'
      proc:      (k, 'raise' | 'exit')                     at the k-th process() call (1-based)
      recv:      (k, 'raise')                              armed at the end of the (k-1)-th process(): next socket read of
                                                           the receiver raises
      send:      (k, 'raise')                              armed inside the k-th process(): next socket op of the sender raises
      shutdown:  'raise' | 'exit'
      fini:      'raise' | 'exit'                          after super().fini()
      work_ms:   virtual duration of process() (a yield point)          period_ms: origin pacing
      cmds:      {k: ('exitmsg', kind) | ('pause', ms)}    executed inside the k-th process() call
    """

    def __init__(self, name, sources=(), out=False, prop='none', obey='none', plan=None, exit_after=None,
                 lineage=False, extra_cfg=None):
        self.name, self.sources, self.out = name, list(sources), out
        self.prop, self.obey = prop, obey
        self.plan = dict(plan or {})
        self.exit_after = exit_after
        self.lineage = lineage
        self.extra_cfg = dict(extra_cfg or {})


class Obs:
    """What was observed of one filter."""

    def __init__(self, name):
        self.name = name
        self.log = []             # (callback, virtual time)
        self.result = 'running'   # running | returned | raised
        self.exc = None           # repr of the exception Filter.run raised
        self.exc_type = None
        self.t_end = None
        self.stop_evt = None
        self.open_socks = None    # sockets created by the filter's task that are still open
        self.nsocks = 0
        self.announced = []       # exit messages put on the wire: (direction, kind)
        self.events = []          # lineage events
        self.exit_calls = []      # (reason, time) of Filter.exit calls
        self.filter = None
        self.setup_completed = False
        self.pausing = False
        self.inflight = []        # type names of exceptions that were propagating when shutdown() was entered

    def calls(self, collapse=True):
        out = []
        for c, _ in self.log:
            if collapse and c == 'process' and out and out[-1] == 'process':
                continue
            out.append(c)
        return out

    def nproc(self):
        return sum(1 for c, _ in self.log if c == 'process')

    def as_dict(self):
        return {'name': self.name, 'calls': self.calls(), 'nproc': self.nproc(), 'result': self.result, 'exc': self.exc,
                'stop_evt': self.stop_evt, 'open_socks': self.open_socks, 'nsocks': self.nsocks,
                'announced': self.announced, 'events': [(e[0], e[2]) for e in self.events],
                'setup_completed': self.setup_completed, 'shutdowns': sum(1 for c, _ in self.log if c == 'shutdown'),
                'inflight': list(self.inflight),
                't_end': self.t_end}


BASE_PORT = 5600


class Rig:
    def __init__(self, specs, *, poll_ms=100, lineage_yield=False, hb_interval=1, seed=None):
        self.m = modules()
        self.world = w = simzmq.World(local_clocks=False)
        w.now_ns = EPOCH_NS
        install(w, poll_ms=poll_ms, lineage_yield=lineage_yield)
        self.specs = {s.name: s for s in specs}
        self.order = [s.name for s in specs]
        self.idx = {n: i for i, n in enumerate(self.order)}
        self.obs = {n: Obs(n) for n in self.order}
        self.stop_evts = {n: _real_threading.Event() for n in self.order}
        self.caps = {}
        self.hb_interval = hb_interval
        self.lineage_yield = lineage_yield
        self.rng = seed
        self.paused = set()
        self.armed = {}
        self.excluded_prefix = set() # owners whose helper threads (name 'owner/thread-n') are driven by the replay driver
        self.excluded = set()        # task names the generic scheduler must not touch (heartbeat tasks in replay mode)
        self.steps = 0
        for s in specs:
            self._spawn(s)

    # ---- configuration ----------------------------------------------------------------------------------------------
    def port(self, name):
        return BASE_PORT + 10 * self.idx[name]

    def config(self, s: FSpec):
        cfg = {'id': s.name, 'outputs_metrics': False, 'outputs_filter': False, 'outputs_jpg': False, 'mq_log': False}
        if s.sources:
            cfg['sources'] = [f'tcp://127.0.0.1:{self.port(u)}' if isinstance(u, str) else
                              f'tcp://127.0.0.1:{self.port(u[0])}{u[1]}' for u in s.sources]
        if s.out:
            cfg['outputs'] = [f'tcp://*:{self.port(s.name)}']
        p = s.plan
        if p.get('construct') == 'raise':
            cfg['mq_log'] = 'bogus'                       # normalize_config: ValueError
        if p.get('init') == 'raise_pre':
            cfg['sources'] = ['udp://127.0.0.1:1']         # Filter.init: ValueError('invalid source ...') before the MQ
        if p.get('init') == 'raise_mid':
            other = next(n for n in self.order if n != s.name and self.specs[n].out)
            cfg['outputs'] = [f'tcp://*:{self.port(s.name)}', f'tcp://*:{self.port(other)}']   # second bind fails
        if s.exit_after is not None:
            cfg['exit_after'] = s.exit_after
        cfg.update(s.extra_cfg)
        return cfg

    def _make_class(self, s: FSpec):
        rig, w, ob, plan = self, self.world, self.obs[s.name], s.plan
        Fm = self.m['Fm']
        from openfilter.filter_runtime.frame import Frame
        emitter = None
        if s.lineage:
            Lm = self.m['Lm']
            cap = CapClient(w, yield_points=self.lineage_yield)
            self.caps[s.name] = cap
            w.lincap = cap
            emitter = Lm.OpenFilterLineage(client=cap, interval=1)
            emitter.interval = self.hb_interval      # (the constructor truncates to whole seconds)
            ob.events = cap.events

        def note(what):
            ob.log.append((what, w.time()))

        def fault(kind, self_, where):
            if kind == 'raise':
                raise Fault(f'injected at {where}')
            if kind == 'exit':
                self_.exit(f'injected exit at {where}')
            if kind == 'int':
                raise KeyboardInterrupt(f'injected at {where}')

        def arm(socks, where):
            """the next read/write on one of these sockets raises (once)"""
            def boom(*a, **k):
                for sk in socks:
                    sk.__dict__.pop('recv_multipart', None)
                    sk.__dict__.pop('send_multipart', None)
                raise SockFault(f'injected socket fault in {where}')
            for sk in socks:
                sk.recv_multipart = boom
                sk.send_multipart = boom

        def commands(self_, n):
            for cmd in (plan.get('cmds') or {}).get(n, ()):
                if cmd[0] == 'exitmsg':
                    self_.mq.send_exit_msg(cmd[1])
                elif cmd[0] == 'pause':
                    ob.pausing = True
                    w.sleep(cmd[1] / 1000)
                    ob.pausing = False

        class LF(Fm.Filter):
            def init(self_, config):
                ob.filter = self_
                note('init')
                if plan.get('init') == 'exit_pre':       # a subclass that exits before Filter.init() has created anything
                    fault('exit', self_, 'init')
                super().init(config)
                k = plan.get('init')
                if k == 'raise_post':
                    fault('raise', self_, 'init')
                elif k == 'exit_post':
                    fault('exit', self_, 'init')

            def stop_logging(self_):
                if plan.get('stop_logging') == 'raise' and not plan.get('_log_fired'):
                    plan['_log_fired'] = True             # closing the log files fails (a full disk)
                    raise Fault('injected at stop_logging')
                return super().stop_logging()

            def setup(self_, config):
                note('setup')
                fault(plan.get('setup'), self_, 'setup')
                ob.setup_completed = True
                commands(self_, 0)
                rk = plan.get('recv')
                if rk and rk[0] == 1 and self_.mq.receiver is not None:
                    arm([x.sub for x in self_.mq.receiver.senders.values()], 'recv')

            def process(self_, frames):
                note('process')
                n = ob.nproc()
                commands(self_, n)
                pk = plan.get('proc')
                if pk and (pk[0] == n or (pk[0] == 'armed' and rig.armed.get(s.name))):
                    fault(pk[1], self_, f'process#{n}')
                if plan.get('work_ms'):
                    w.sleep(plan['work_ms'] / 1000)
                rk, sk = plan.get('recv'), plan.get('send')
                if rk and rk[0] == n + 1 and self_.mq.receiver is not None:
                    arm([x.sub for x in self_.mq.receiver.senders.values()], 'recv')
                if sk and sk[0] == n and self_.mq.sender is not None:
                    arm(list(self_.mq.sender.pubs) + list(self_.mq.sender.pulls), 'send')
                if not s.sources:
                    if plan.get('period_ms'):
                        w.sleep(plan['period_ms'] / 1000)
                    return Frame({'q': n}) if s.out else None
                if not s.out:
                    return None
                fr = frames.get('main')
                return Frame(dict(fr.data)) if fr is not None and fr.data else Frame({'q': -1})

            def shutdown(self_):
                note('shutdown')
                e = sys.exc_info()[1]                 # shutdown() runs in a finally block: the exception in flight, if any
                if e is not None:
                    ob.inflight.append(type(e).__name__)
                fault(plan.get('shutdown'), self_, 'shutdown')

            def fini(self_):
                note('fini')
                super().fini()
                fault(plan.get('fini'), self_, 'fini')

            def exit(self_, reason=None, exc=None):
                ob.exit_calls.append((reason, w.time()))
                return super().exit(reason, exc)

        LF.__name__ = f'LF_{s.name}'
        LF.emitter = emitter
        return LF

    def _spawn(self, s: FSpec):
        cls, cfg, ob, ev = self._make_class(s), self.config(s), self.obs[s.name], self.stop_evts[s.name]
        w = self.world

        def fn():
            try:
                cls.run(cfg, sig_stop=False, prop_exit=s.prop, obey_exit=s.obey, stop_evt=ev)
                ob.result = 'returned'
            except simzmq.Killed:
                raise
            except BaseException as e:  # noqa: the way run() ends is the observation
                ob.result = 'raised'
                ob.exc = repr(e)[:300]
                ob.exc_type = type(e).__name__
            ob.t_end = w.time()
        w.spawn(s.name, fn)

    # ---- driving ----------------------------------------------------------------------------------------------------
    def task(self, name):
        return self.world.tasks.get(name)

    def hb_task(self, name):
        for n, t in self.world.tasks.items():
            if n.startswith(name + '/'):
                return t
        return None

    def enabled(self):
        out = []
        for a in self.world.enabled():
            x = a[1]
            if isinstance(x, simzmq.Task):
                if x.name in self.excluded or x.name in self.paused or ('/' in x.name and x.name.split('/')[0] in self.excluded_prefix):
                    continue
                if x.state == 'parked' and x.wait[0] == 'lin':
                    continue
            out.append(a)
        return out

    def step(self, rng=None):
        """One step of the prompt scheduler: some enabled non-timeout action, else the earliest timeout.
        Returns False when nothing is enabled."""
        acts = self.enabled()
        if not acts:
            return False
        nt = [a for a in acts if a[0] != 'timeout']
        if nt:
            a = rng.choice(nt) if rng is not None else nt[0]
        else:
            a = min((a for a in acts), key=lambda x: (x[1].deadline(), x[1].name))
        self.world.do(a)
        self.steps += 1
        return True

    def drive(self, until=None, *, max_steps=20000, max_time=None, rng=None):
        """Run the prompt scheduler until `until()` holds; returns True if it did.  max_time = virtual seconds from now."""
        w = self.world
        t_end = None if max_time is None else w.time() + max_time
        for _ in range(max_steps):
            if until is not None and until():
                return True
            if t_end is not None and w.time() >= t_end:
                break
            if not self.step(rng):
                break
        return bool(until is not None and until())

    def done(self, name):
        t = self.task(name)
        return t is None or t.state == 'done'

    def at_lin(self, name):
        t = self.task(name)
        return t is not None and t.state == 'parked' and t.wait[0] == 'lin'

    # ---- observation ------------------------------------------------------------------------------------------------
    def collect(self):
        w = self.world
        for n in self.order:
            ob = self.obs[n]
            t = self.task(n)
            ob.stop_evt = self.stop_evts[n].is_set()
            socks = t.sockets if t is not None else []
            ob.nsocks = len(socks)
            ob.open_socks = sum(1 for sk in socks if not sk.closed)
            ob.announced = []
        for ev in w.events:
            if ev[0] in ('pub', 'req'):
                owner = (ev[1] or '').split('/')[0]
                if owner not in self.obs:
                    continue
                try:
                    env = simzmq.hdr(ev[3])[1] if ev[0] == 'pub' else simzmq.req_hdr(ev[3])
                except Exception:
                    continue
                if env.get('mid') == -2:
                    self.obs[owner].announced.append(('down' if ev[0] == 'pub' else 'up', env.get('xtra')))
        return self.obs

    def close(self):
        w = self.world
        w.record_events = False
        for c in self.caps.values():
            c.active = False
        w.kill_all()
        uninstall()

    def __enter__(self):
        return self

    def __exit__(self, *a):
        self.close()


# ---------------------------------------------------------------------------------------------------------------------
# Lifecycle.tla behaviours -> scenarios on the rig  U -> F -> D  (F is the filter under test; U and D never end by
# themselves: prop_exit = obey_exit = 'none'; they inject exit messages / stall on command)

def has(policy, kind):
    """PROP_EXIT_FLAGS semantics: policy & flag(kind)"""
    return policy == 'all' or policy == kind


EA_SHORT = 0.35          # virtual seconds: exit_after of the 'deadline' behaviours
EA_LONG = 90.0


def exit_after_value(form, secs):
    if form == 'secs':
        return secs
    if form == 'ms':
        m, s = divmod(secs, 60)
        return f'{int(m)}:{s:05.2f}'
    if form == 'at':
        ts = EPOCH_NS / 1e9 + secs
        return '@' + _dt.datetime.fromtimestamp(ts, _dt.timezone.utc).isoformat()
    raise ValueError(form)


class Trigger:
    def __init__(self, name, cond, act, delay=0.0):
        self.name, self.cond, self.act, self.delay = name, cond, act, delay
        self.t0 = None
        self.fired = False

    def pump(self, rig):
        if self.fired:
            return
        now = rig.world.time()
        if not self.cond(rig):               # the condition must hold throughout the delay
            self.t0 = None
            return
        if self.t0 is None:
            self.t0 = now
        if now >= self.t0 + self.delay - 1e-9:
            self.fired = True
            self.act(rig)


def phase(rig, name='F'):
    """'recv' / 'send' when the filter's task is parked in a poll of its receiver / sender, else None"""
    t, flt = rig.task(name), rig.obs[name].filter
    if t is None or flt is None or t.state != 'parked' or t.wait[0] != 'poll':
        return None
    mq = getattr(flt, 'mq', None)
    if mq is None:
        return None
    if mq.receiver is not None and t.wait[1] is mq.receiver.poller:
        return 'recv'
    if mq.sender is not None and t.wait[1] is mq.sender.poller:
        return 'send'
    return None


class Scenario:
    """What a Lifecycle.tla behaviour asks of the real world.  life = the labels <<stage, choice>> of the behaviour,
    final = the model's final state record."""

    def __init__(self, cfg, life, final=None, lineage=False):
        self.cfg, self.life, self.final, self.lineage = dict(cfg), [tuple(l) for l in life], final, lineage
        prop, obey, ea = cfg['prop'], cfg['obey'], cfg['ea']
        planF, planU, planD = {'work_ms': 1}, {'period_ms': 10}, {}
        cu, cd = {}, {}
        self.triggers = []
        self.injected = []          # own faults in order: (stage, 'raise' | 'exit' | 'int')
        self.external = []          # ('stop',) / ('msg', kind, obeyed, 'up'|'down') / ('deadline',)
        self.reasons = []           # both, in the order in which they happen
        self.loose = False          # the number of process() calls is not determined by the behaviour
        typeerror = bool(final) and 'typeerror' in tuple(final.get('faults', ()))
        k = 0
        deadline = False
        for st, ch in self.life:
            if st == 'construct' and ch == 'raise':
                planF['construct'] = 'raise'
                self.injected.append(('construct', 'raise'))
            elif st == 'init' and ch != 'ok':
                if not typeerror:
                    planF['init'] = ch
                    self.injected.append(('init', 'exit' if ch in ('exit_post', 'exit_pre') else 'raise'))
            elif st == 'handlers' and ch == 'log_raise':
                planF['stop_logging'] = 'raise'
                self.injected.append(('handlers', 'raise'))
            elif st in ('setup', 'shutdown', 'fini') and ch != 'ok':
                planF[st] = ch
                self.injected.append((st, ch))
            elif st == 'iter':
                if ch == 'ok':
                    k += 1
                elif ch == 'stop_head':
                    self.external.append(('stop',))
                    kk = k
                    self.triggers.append(Trigger('stop_head', (lambda r, kk=kk: kk == 0 or r.obs['F'].nproc() >= kk),
                                                 lambda r: r.stop_evts['F'].set()))
                elif ch in ('recv_raise', 'send_raise'):
                    planF[ch[:4]] = (k + 1, 'raise')
                    self.injected.append((ch[:4], 'raise'))
                elif ch in ('proc_raise', 'proc_exit', 'proc_int'):
                    planF['proc'] = (k + 1, ch[5:])
                    self.injected.append(('proc', ch[5:]))
                elif ch.startswith('recv_msg_'):
                    kind = ch[9:]
                    cu.setdefault(k + 1, []).append(('exitmsg', kind))
                    self.external.append(('msg', kind, has(obey, kind), 'up'))
                elif ch.startswith('send_msg_'):
                    kind = ch[9:]
                    cd.setdefault(k, []).append(('exitmsg', kind))
                    self.external.append(('msg', kind, has(obey, kind), 'down'))
                    self.loose = True
                elif ch == 'recv_stop':
                    cu.setdefault(k + 1, []).append(('pause', 5000))
                    self.external.append(('stop',))
                    kk = k
                    self.triggers.append(Trigger('recv_stop', (lambda r, kk=kk: r.obs['U'].pausing and r.obs['F'].nproc() >= kk and phase(r) == 'recv'),
                                                 lambda r: r.stop_evts['F'].set(), delay=0.02))
                elif ch == 'send_stop':
                    cd.setdefault(k, []).append(('pause', 5000))
                    self.external.append(('stop',))
                    self.loose = True
                    kk = k
                    self.triggers.append(Trigger('send_stop', (lambda r, kk=kk: r.obs['D'].pausing and r.obs['F'].nproc() >= kk + 1 and phase(r) == 'send'),
                                                 lambda r: r.stop_evts['F'].set(), delay=0.12))
                elif ch == 'deadline':
                    self.external.append(('deadline',))
                    self.loose = True
                    deadline = True
            while len(self.reasons) < len(self.injected) + len(self.external):
                pending = [('fault',) + x for x in self.injected] + list(self.external)
                self.reasons.append(next(x for x in pending if x not in self.reasons or pending.count(x) > self.reasons.count(x)))
        planU['cmds'], planD['cmds'] = cu, cd
        self.exit_after = None if ea == 'none' else exit_after_value(ea, EA_SHORT if (deadline or typeerror) else EA_LONG)
        self.k = k
        self.specs = [FSpec('U', out=True, plan=planU),
                      FSpec('F', sources=['U'], out=True, prop=prop, obey=obey, plan=planF, exit_after=self.exit_after,
                            lineage=lineage),
                      FSpec('D', sources=['F'], plan=planD)]
        self.planF = planF

    # ---- what the property expects of this scenario (from the injected causes only - no model involved) --------------
    def causes(self):
        """ordered reasons of ending: own faults and obeyed / stop / deadline events"""
        return [r for r in self.reasons if not (r[0] == 'msg' and not r[2])]

    def single_cause(self):
        return len(self.causes()) == 1

    def describe(self):
        return {'cfg': self.cfg, 'life': [list(l) for l in self.life], 'exit_after': self.exit_after}


def run_scenario(sc: Scenario, *, max_time=8.0, grace=0.15):
    """C08 mode (no lineage yield points): drive until F has ended (or the time budget is used), then a grace period."""
    rig = Rig(sc.specs)
    try:
        def pump():
            for tr in sc.triggers:
                tr.pump(rig)
            return rig.done('F')
        ended = rig.drive(pump, max_time=max_time, max_steps=60000)
        rig.drive(None, max_time=grace)
        obs = rig.collect()
        return {'ended': ended, 'F': obs['F'].as_dict(), 'U': obs['U'].as_dict(), 'D': obs['D'].as_dict(),
                'steps': rig.steps, 'exit_calls': list(obs['F'].exit_calls),
                'proc_times': [t for c, t in obs['F'].log if c == 'process'], 'untriggered': [t.name for t in sc.triggers if not t.fired]}
    finally:
        rig.close()


OWN_EXCEPTIONS = ('Fault', 'SockFault', 'KeyboardInterrupt', 'Exit', 'PropagateError')


def judge_single(sc: Scenario, o, ident=None):
    """The single-filter formulas of C08 evaluated on what the real filter F did.  Returns [(formula, text, sig)]."""
    v = []
    F = o['F']
    causes = sc.causes()
    if not o['ended']:
        if causes and not (len(causes) == 1 and causes[0][0] == 'msg' and not causes[0][2]):
            kind = causes[0][0] if causes[0][0] != 'fault' else f'{causes[0][1]}_{causes[0][2]}'
            if causes[0][0] == 'deadline':
                v.append(('C08_ExitAfter', f'exit_after={sc.exit_after!r} never ended the filter while frames were flowing',
                          {'kind': 'exit_after', 'form': sc.cfg['ea'], 'error': 'never'}))
            elif causes[0][0] == 'msg':
                v.append(('C08_Propagation', f'an exit message {causes[0][1]!r} under obey_exit={sc.cfg["obey"]!r} did not end the filter',
                          {'kind': 'obey', 'msg': causes[0][1], 'obey': sc.cfg['obey']}))
            else:
                v.append(('C08_Ends', f'the filter did not end after {kind}', {'kind': 'no_end', 'cause': kind}))
        return v
    ea = sc.cfg['ea']
    if ea != 'none' and not sc.injected and all(e[0] == 'deadline' for e in sc.external) and F['result'] != 'returned':
        # a configured exit_after must end the filter cleanly - whatever else, it must not make run() fail
        v.append(('C08_ExitAfter', f'exit_after={sc.exit_after!r}: run() raised {F["exc"]}',
                  {'kind': 'exit_after', 'form': ea, 'error': (F['exc'] or '').split('(')[0]}))
    elif not causes:
        v.append(('C08_Propagation', f'the filter ended although nothing told it to (obey_exit={sc.cfg["obey"]!r}, ignored '
                  f'messages {[e for e in sc.external if e[0] == "msg"]}, run() -> {F["result"]} {F["exc"] or ""})',
                  {'kind': 'spurious_end', 'obey': sc.cfg['obey'], 'exc': (F['exc'] or '').split('(')[0]}))
    stage0 = causes[0][1] if causes and causes[0][0] == 'fault' else None
    # shutdown exactly once iff setup completed
    nshut = F['shutdowns']
    if nshut != (1 if F['setup_completed'] else 0):
        v.append(('C08_ShutdownOnceIffSetup', f'shutdown() ran {nshut} time(s), setup() completed: {F["setup_completed"]}',
                  {'kind': 'shutdown_count', 'setup_completed': F['setup_completed'], 'shutdowns': nshut}))
    # communication torn down
    if F['open_socks']:
        v.append(('C08_CommClosed', f'{F["open_socks"]} of {F["nsocks"]} sockets of the filter are still open after run() ended '
                  f'({"; ".join(map(str, causes[:2]))})',
                  {'kind': 'comm_open', 'stage': stage0 or 'other', 'where': sc.planF.get('init', '') if stage0 == 'init' else ''}))
    if not F['stop_evt']:
        v.append(('C08_StopEvtSet', 'stop_evt is not set after run() ended', {'kind': 'stop_evt'}))
    # return vs raise, announcement: judged when there is one reason of ending (or all reasons agree)
    kinds, kseq = set(), []
    for c in causes:
        if c[0] == 'fault':
            kseq.append({'raise': 'error', 'exit': 'clean', 'int': 'int'}[c[2]])
        elif c[0] == 'msg':
            kseq.append('prop_' + c[1])
        else:
            kseq.append('clean')
    kinds = set(kseq)
    if any(x not in OWN_EXCEPTIONS for x in F.get('inflight', ())):
        kinds.add('foreign')         # the code under test raised something nobody injected: the reasons of ending do not agree
    # a run that was ending cleanly (exit(), deadline, stop, an obeyed clean exit) and then hits an exception in a later stage
    # (shutdown(), fini) ends by that error: "an exception at any stage ... run() raises for errors"
    ann_kd = None
    if len(kinds) > 1 and 'foreign' not in kinds and kseq[-1] == 'error' and all(k in ('clean', 'prop_clean') for k in kseq[:-1]):
        kinds = {'error'}
        if causes[-1][1] in ('fini', 'handlers'):
            ann_kd = 'clean'         # the exit message left before fini() failed: it says what was known then
    if len(kinds) == 1:
        kd = next(iter(kinds))
        if kd == 'error' and F['result'] != 'raised':
            v.append(('C08_ReturnVsRaise', f'run() returned normally although {causes[-1]} raised', {'kind': 'return_vs_raise', 'ending': 'error'}))
        if kd in ('clean', 'prop_clean') and F['result'] != 'returned':
            v.append(('C08_ReturnVsRaise', f'run() raised {F["exc"]} on a clean exit ({causes[0]})', {'kind': 'return_vs_raise', 'ending': 'clean'}))
        # announcement (only for filters that got as far as setup(): before that there may be no MQ)
        if 'setup' in F['calls'] and kd in ('error', 'clean', 'prop_clean', 'prop_error'):
            k2 = 'error' if (ann_kd or kd) in ('error', 'prop_error') else 'clean'
            want = {('up', k2), ('down', k2)} if has(sc.cfg['prop'], k2) else set()
            got = set(map(tuple, F['announced']))
            if got != want:
                v.append(('C08_Propagation', f'ending {kd} under prop_exit={sc.cfg["prop"]!r}: exit messages on the wire {sorted(got)}, '
                          f'the policy prescribes {sorted(want)}', {'kind': 'announce', 'ending': k2, 'prop': sc.cfg['prop']}))
    return v


def compare_single(sc: Scenario, o, final):
    """Model's final state vs the real observation (conformance; a difference is drift, not a verdict)."""
    F = o['F']
    diffs = []
    mcalls = []
    for c in final['calls']:
        if c == 'process' and mcalls and mcalls[-1] == 'process':
            continue
        mcalls.append(c)
    want = {'ended': True, 'calls': mcalls, 'result': final['result'], 'stop_evt': final['stopEvt'],
            'comm_open': final['commOpen'], 'shutdowns': final['shutdownCalls'],
            'announced': final['announced']}
    ann = {k for _, k in F['announced']}
    got = {'ended': o['ended'], 'calls': F['calls'], 'result': F['result'], 'stop_evt': F['stop_evt'],
           'comm_open': F['open_socks'] > 0, 'shutdowns': F['shutdowns'],
           'announced': 'none' if not ann else (next(iter(ann)) if len(ann) == 1 else 'mixed')}
    if not sc.loose:
        want['nproc'] = sum(1 for c in final['calls'] if c == 'process')
        got['nproc'] = F['nproc']
    for k_ in want:
        if want[k_] != got[k_]:
            diffs.append(f'{k_}: model {want[k_]!r} real {got[k_]!r}')
    return diffs


# ---------------------------------------------------------------------------------------------------------------------
# ExitProp.tla cases on three real filters A, B, C

TOPOS = {'chain': [('A', 'B'), ('B', 'C')], 'tee': [('A', 'B'), ('A', 'C')], 'rejoin': [('A', 'B'), ('A', 'C'), ('B', 'C')]}
NAMES = ('A', 'B', 'C')


def reach(topo, who, kind, pol):
    """The property's own formula for who terminates: least set containing `who` closed under
    'f terminated and propagates this kind, g is a neighbour of f and obeys this kind'."""
    edges = TOPOS[topo]
    nbrs = {f: {d for u, d in edges if u == f} | {u for u, d in edges if d == f} for f in NAMES}
    r = {who}
    while True:
        add = {g for f in r if has(pol[f][0], kind) for g in nbrs[f] if has(pol[g][1], kind)} - r
        if not add:
            return r
        r |= add


def reach_up(topo, who, kind, pol):
    """The part of `reach` that does not depend on a PUB->SUB link being established: exit messages travelling UPSTREAM go
    through the PUSH pipe, which exists from connect() and loses nothing; a message published DOWNSTREAM by a filter that
    ends before its subscribers have joined is lost (slow joiner) - the pipeline is not yet connected in that direction."""
    edges = TOPOS[topo]
    ups = {f: {u for u, d in edges if d == f} for f in NAMES}
    r = {who}
    while True:
        add = {g for f in r if has(pol[f][0], kind) for g in ups[f] if has(pol[g][1], kind)} - r
        if not add:
            return r
        r |= add


def run_exitprop(topo, who, kind, pol, *, grace=0.45, rng=None, at='proc'):
    """at='proc': `who` ends in its k-th process() after the pipeline is connected; at='setup': `who` ends in setup(), before
    it ever requested a frame (its neighbours have never seen a request from it)."""
    edges = TOPOS[topo]
    specs = []
    for f in NAMES:
        ups = [u for u, d in edges if d == f]
        srcs = [(u, ';main>a') if (len(ups) > 1 and i == 0) else u for i, u in enumerate(ups)]
        plan = {'work_ms': 1}
        if not ups:
            plan['period_ms'] = 20
        if f == who:
            if at == 'setup':
                plan['setup'] = 'raise' if kind == 'error' else 'exit'
            else:
                plan['proc'] = ('armed', 'raise' if kind == 'error' else 'exit')
        specs.append(FSpec(f, sources=srcs, out=any(u == f for u, _ in edges), prop=pol[f][0], obey=pol[f][1], plan=plan))
    rig = Rig(specs)
    try:
        if at == 'proc':
            connected = rig.drive(lambda: all(rig.obs[f].nproc() >= 3 for f in NAMES), max_time=6.0, max_steps=40000, rng=rng)
            if not connected:
                return {'connected': False}
            rig.armed[who] = True
        rig.drive(lambda: rig.done(who), max_time=3.0, max_steps=40000, rng=rng)
        while True:
            n = sum(rig.done(f) for f in NAMES)
            more = rig.drive(lambda: sum(rig.done(f) for f in NAMES) > n, max_time=grace, max_steps=40000, rng=rng)
            if not more:
                break
        obs = rig.collect()
        return {'connected': True, 'filters': {f: obs[f].as_dict() for f in NAMES}, 'steps': rig.steps}
    finally:
        rig.close()


def judge_exitprop(topo, who, kind, pol, o, strict=True, at='proc'):
    """strict (one policy pair for all filters - the property's quantifier): the terminated set must equal the fixpoint.
    not strict (per-filter pairs, an extension): a filter that should have terminated but did not is returned separately
    (see ExitProp.tla, deviation "oob_read_in_matching_phase"), everything else is judged as usual."""
    v = []
    base = {'topology': topo, 'who': who, 'exit': kind}
    want = reach(topo, who, kind, pol)
    got = {f for f in NAMES if o['filters'][f]['result'] != 'running'}
    pols = {f: '/'.join(pol[f]) for f in NAMES}
    if at == 'setup':
        # `who` ended before the pipeline was connected: what must terminate is what the loss-free upstream direction reaches,
        # what may terminate is the full fixpoint
        must = reach_up(topo, who, kind, pol)
        if not (must <= got <= want):
            v.append(('C08_Propagation', f'{topo}: {who} ends ({kind}) in setup() with prop/obey {pols}: terminated {sorted(got)}, '
                      f'the policies prescribe at least {sorted(must)} and at most {sorted(want)}',
                      dict(base, kind='propagation', extra=bool(got - want), missing=bool(must - got))))
    elif got != want and (strict or got - want):
        extra, missing = sorted(got - want), sorted(want - got)
        v.append(('C08_Propagation', f'{topo}: {who} ends ({kind}) with prop/obey {pols}: terminated {sorted(got)}, the policies '
                  f'prescribe {sorted(want)}', dict(base, kind='propagation', extra=bool(extra), missing=bool(missing))))
    if at != 'setup' and strict and all(has(pol[f][0], kind) and has(pol[f][1], kind) for f in NAMES) and got != set(NAMES):
        v.append(('C08_WholePipeline', f'{topo}: matching policies {pols} but {sorted(set(NAMES) - got)} keep running after '
                  f'{who} ended ({kind})', dict(base, kind='whole_pipeline')))
    for f in sorted(got):
        F = o['filters'][f]
        if F['shutdowns'] != (1 if F['setup_completed'] else 0):
            v.append(('C08_ShutdownOnceIffSetup', f'{f}: shutdown() ran {F["shutdowns"]} times', dict(base, kind='shutdown_count')))
        if F['open_socks']:
            v.append(('C08_CommClosed', f'{f}: {F["open_socks"]} sockets still open after its run() ended', dict(base, kind='comm_open', stage='other')))
        if not F['stop_evt']:
            v.append(('C08_StopEvtSet', f'{f}: stop_evt not set after run() ended', dict(base, kind='stop_evt')))
        wres = 'raised' if (f == who and kind == 'error') else 'returned'
        if f == who and F['result'] != wres:
            v.append(('C08_ReturnVsRaise', f'{f} ended by its own {kind} exit but run() {F["result"]} {F["exc"] or ""}',
                      dict(base, kind='return_vs_raise', ending=kind)))
        ann = set(map(tuple, F['announced']))
        edges = TOPOS[topo]
        dirs = ({'up'} if any(d == f for _, d in edges) else set()) | ({'down'} if any(u == f for u, _ in edges) else set())
        wann = {(d, kind) for d in dirs} if has(pol[f][0], kind) else set()
        if ann != wann:
            v.append(('C08_Propagation', f'{f} ended ({kind}) under prop_exit={pol[f][0]!r}: exit messages on the wire {sorted(ann)}, '
                      f'prescribed {sorted(wann)}', dict(base, kind='announce', ending=kind, prop=pol[f][0])))
    return v


# ---------------------------------------------------------------------------------------------------------------------
# exit_after, timed (global virtual clock, earliest-deadline-first timeouts)

def run_exit_after(form, T, role, period_ms):
    if role == 'middle':
        specs = [FSpec('U', out=True, plan={'period_ms': period_ms}),
                 FSpec('F', sources=['U'], out=True, plan={'work_ms': 1}, exit_after=exit_after_value(form, T)),
                 FSpec('D', sources=['F'], plan={})]
    elif role == 'origin':
        specs = [FSpec('F', out=True, plan={'period_ms': period_ms}, exit_after=exit_after_value(form, T)),
                 FSpec('D', sources=['F'], plan={})]
    else:
        specs = [FSpec('U', out=True, plan={'period_ms': period_ms}),
                 FSpec('F', sources=['U'], plan={'work_ms': 1}, exit_after=exit_after_value(form, T))]
    rig = Rig(specs)
    try:
        ended = rig.drive(lambda: rig.done('F'), max_time=T + 3.0, max_steps=200000)
        obs = rig.collect()
        F = obs['F']
        return {'ended': ended, 'F': F.as_dict(), 'proc_times': [t for c, t in F.log if c == 'process'],
                'exit_calls': list(F.exit_calls), 't0': EPOCH_NS / 1e9,
                't_init': next((t for c, t in F.log if c == 'init'), None), 'value': exit_after_value(form, T)}
    finally:
        rig.close()


def judge_exit_after(form, T, role, period_ms, o):
    F = o['F']
    sig = {'kind': 'exit_after', 'form': form}
    what = f'exit_after={o["value"]!r} ({role}, a frame every {period_ms} ms)'
    if not o['ended']:
        return [('C08_ExitAfter', f'{what}: the filter was still running {3.0} s after the deadline', dict(sig, error='never'))]
    if F['result'] != 'returned':
        return [('C08_ExitAfter', f'{what}: run() raised {F["exc"]}', dict(sig, error=(F['exc'] or '').split('(')[0]))]
    t_abs = o['t0'] + T
    pt = o['proc_times']
    if len(pt) < 2:
        return []               # "a filter that is processing frames": fewer than two frames before the end - not a case
    t_exit = o['exit_calls'][-1][1] if o['exit_calls'] else F['t_end']
    gaps = [b - a for a, b in zip(pt, pt[1:])] or [period_ms / 1000]
    iter_len = max(max(gaps), period_ms / 1000) + 0.2        # one loop iteration incl. its 100 ms receive/send slices
    v = []
    if t_exit < t_abs - 1e-6:
        v.append(('C08_ExitAfter', f'{what}: ended {t_abs - t_exit:.3f} s BEFORE the deadline', dict(sig, error='early')))
    if sum(1 for t in pt if t >= t_abs - 1e-9) > 1:
        v.append(('C08_ExitAfter', f'{what}: {sum(1 for t in pt if t >= t_abs)} process() calls started after the deadline '
                  f'(more than the iteration in progress)', dict(sig, error='late')))
    if t_exit > t_abs + iter_len:
        v.append(('C08_ExitAfter', f'{what}: ended {t_exit - t_abs:.3f} s after the deadline, one iteration is at most '
                  f'{iter_len:.3f} s', dict(sig, error='late')))
    return v


# ---------------------------------------------------------------------------------------------------------------------
# Lineage.tla behaviours, step by step

class LinDriver:
    """Drives one rig in replay mode: the main thread of F from emitter call to emitter call, the heartbeat thread step
    by step; everything else (U, D, network, timeouts) by the prompt scheduler."""

    def __init__(self, sc: Scenario, hb_interval=0.004, max_time=8.0):
        self.sc, self.max_time = sc, max_time
        self.rig = Rig(sc.specs, lineage_yield=True, hb_interval=hb_interval)
        self.rig.excluded_prefix.add('F')
        self.cap = self.rig.caps['F']

    def _until(self):
        for tr in self.sc.triggers:
            tr.pump(self.rig)
        return self.rig.at_lin('F') or self.rig.done('F')

    def advance_main(self):
        """resume F from its yield point (if it is at one) and run the world until F is at the next one or has ended"""
        rig = self.rig
        if rig.at_lin('F'):
            rig.world.do(('run', rig.task('F')))
        return rig.drive(self._until, max_time=self.max_time, max_steps=60000)

    def hb_step(self):
        """one step of the heartbeat thread: up to its next wait on the stop event, or to its end.  False: no thread."""
        rig = self.rig
        hb = rig.hb_task('F')
        if hb is None:
            return False
        for _ in range(6):
            if hb.state == 'done':
                break
            if hb.state == 'new' or (hb.state == 'parked' and hb.wait[0] == 'lin'):
                rig.world.do(('run', hb))
            elif hb.state == 'parked':
                a = hb.enabled_action()
                if a is None:
                    break
                rig.world.do((a, hb))
            if hb.state == 'parked' and hb.wait[0] == 'event':
                break
        return True

    def finish_main(self):
        for _ in range(60):
            if self.rig.done('F'):
                break
            self.advance_main()

    def observe(self):
        rig = self.rig
        obs = rig.collect()
        F = obs['F']
        o = {'ended': rig.done('F'), 'F': F.as_dict(), 'U': obs['U'].as_dict(), 'D': obs['D'].as_dict(), 'steps': rig.steps,
             'exit_calls': list(F.exit_calls), 'untriggered': [t.name for t in self.sc.triggers if not t.fired]}
        return o, [(e[0], e[1], e[2]) for e in self.cap.events]

    def close(self):
        self.rig.close()


def replay_lineage(path, final, mkinds, msites, *, hb_interval=0.004, max_time=8.0):
    """Replay one behaviour of Lineage.tla on the real Filter.run + OpenFilterLineage.  The labels <<"op", ..>> are the
    emitter calls of the main thread (each one a yield point of the real run), <<"hb", ..>> the heartbeat thread's steps.
    Returns dict(sc, o, events, drift[])."""
    path = [tuple(l) for l in path]
    life = [l for l in path if l[0] not in ('op', 'hb')]
    sc = Scenario(final['cfg'], life, final, lineage=True)
    dr = LinDriver(sc, hb_interval, max_time)
    cap = dr.cap
    drift = []
    try:
        for l in path:
            if l[0] == 'op' and l[1] == 'noemit':
                continue                                      # an idempotent emitter call that emits nothing: no yield point
            if l[0] == 'op':
                n = len(cap.ops)
                dr.advance_main()
                want = ('emit', l[2], l[3]) if l[1] == 'emit' else (l[1], l[3])
                got = cap.ops[n] if len(cap.ops) > n else None
                if got != want and len(drift) < 3:
                    drift.append(f'main thread: model {want}, real {got}')
            elif l[0] == 'hb' and l[1] in ('tick', 'stopped'):
                if not dr.hb_step() and len(drift) < 3:
                    drift.append(f'heartbeat step {l[1]}: no heartbeat thread exists')
        dr.finish_main()
        o, events = dr.observe()
        ev = [(e[0], e[2]) for e in events]
        if [k for k, _ in ev] != list(mkinds):
            drift.append(f'events: model {list(mkinds)}, real {[k for k, _ in ev]}')
        elif msites and [s_ for _, s_ in ev] != list(msites):
            drift.append(f'call sites: model {list(msites)}, real {[s_ for _, s_ in ev]}')
        drift += compare_single(sc, o, final)
        return {'sc': sc, 'o': o, 'events': events, 'drift': drift}
    finally:
        dr.close()


def run_lineage_random(sc: Scenario, rng, *, p=0.35, hb_interval=0.004):
    """Model-free exploration: at every emitter call of the main thread the heartbeat thread is given 0..n steps at random
    (seeded); at the end the daemon thread is either allowed to finish or cut."""
    dr = LinDriver(sc, hb_interval)
    try:
        for _ in range(80):
            if dr.rig.done('F'):
                break
            dr.advance_main()
            while rng.random() < p:
                if not dr.hb_step():
                    break
        dr.finish_main()
        finish = rng.random() < 0.6
        if finish:
            for _ in range(3):
                dr.hb_step()
        o, events = dr.observe()
        o['hb_finished'] = finish
        return {'sc': sc, 'o': o, 'events': events}
    finally:
        dr.close()


TERMINALS = ('COMPLETE', 'ABORT', 'FAIL')


def judge_lineage(sc: Scenario, o, events):
    """C18's formula on the captured events of one run: START RUNNING* (COMPLETE | ABORT), one run id, terminal kind."""
    v = []
    kinds = [e[0] for e in events]
    F = o['F']
    if not kinds:
        if 'init' in F['calls'] and ('init', 'exit_pre') not in [tuple(l)[:2] for l in sc.life]:
            v.append(('C18_Wellformed', 'the run reached init() but emitted no lineage event at all', {'kind': 'no_start'}))
        return v
    if kinds[0] != 'START' or kinds.count('START') != 1:
        v.append(('C18_Wellformed', f'START is not exactly once and first: {kinds}', {'kind': 'start'}))
    if len({e[1] for e in events}) != 1:
        v.append(('C18_Wellformed', f'the events of one run carry {len({e[1] for e in events})} different run ids', {'kind': 'run_id'}))
    if not o['ended']:
        return v
    terms = [i for i, k in enumerate(kinds) if k in TERMINALS]
    if len(terms) != 1:
        v.append(('C18_Wellformed', f'{len(terms)} terminal events instead of exactly one: {" ".join(kinds)}',
                  {'kind': 'terminal_multiplicity', 'n': 'none' if not terms else 'many'}))
    if terms and any(k not in TERMINALS for k in kinds[terms[0] + 1:]):
        v.append(('C18_Wellformed', f'{[k for k in kinds[terms[0] + 1:] if k not in TERMINALS]} after the terminal event: {" ".join(kinds)}',
                  {'kind': 'after_terminal'}))
    causes = sc.causes()
    # a run that was ending cleanly and then fails in a later stage (shutdown(), fini(), closing the log) ended by that error
    if len(causes) > 1 and causes[-1][0] == 'fault' and causes[-1][2] == 'raise' and all(
            (c[0] == 'fault' and c[2] == 'exit') or c[0] in ('stop', 'deadline') or (c[0] == 'msg' and c[1] == 'clean') for c in causes[:-1]):
        causes = [causes[-1]]
    if len(causes) == 1 and terms:
        c = causes[0]
        if c[0] == 'fault':
            ending = {'raise': 'error', 'exit': 'clean', 'int': 'interrupted'}[c[2]]
        elif c[0] == 'msg':
            ending = 'propagated_' + c[1]
        else:
            ending = {'stop': 'stop_event', 'deadline': 'clean'}[c[0]]
        want = {'error': ('ABORT',), 'interrupted': ('ABORT',), 'clean': ('COMPLETE',), 'propagated_clean': ('COMPLETE',),
                # an obeyed error exit / an external stop request: the statement does not say which; both are accepted
                'propagated_error': ('ABORT', 'COMPLETE'), 'stop_event': ('ABORT', 'COMPLETE')}[ending]
        bad = sorted({kinds[i] for i in terms if kinds[i] not in want})
        if bad:
            v.append(('C18_Wellformed', f'the run ended {ending} ({c}) but emitted terminal event(s) {bad}: {" ".join(kinds)}',
                      {'kind': 'terminal_kind', 'ending': 'error' if ending in ('error', 'interrupted') else 'clean'}))
    return v


def run_lineage_free(sc: Scenario, *, hb_interval=1.0, after='finish', max_time=12.0):
    """A run with lineage on and NO replay yield points: the heartbeat thread is scheduled like any other task at its own
    cadence (virtual clock).  after = 'finish': the heartbeat thread is allowed to end after run() returned;
    'kill': the process ends as soon as run() has returned (the thread is a daemon)."""
    rig = Rig(sc.specs, lineage_yield=False, hb_interval=hb_interval)
    cap = rig.caps['F']
    try:
        def pump():
            for tr in sc.triggers:
                tr.pump(rig)
            return rig.done('F')
        ended = rig.drive(pump, max_time=max_time, max_steps=400000)
        if after == 'finish':
            hb = rig.hb_task('F')
            if hb is not None:
                rig.drive(lambda: hb.state == 'done', max_time=2.5 * hb_interval + 0.5, max_steps=100000)
        obs = rig.collect()
        F = obs['F']
        o = {'ended': ended, 'F': F.as_dict(), 'U': obs['U'].as_dict(), 'D': obs['D'].as_dict(), 'steps': rig.steps,
             'exit_calls': list(F.exit_calls), 'untriggered': [t.name for t in sc.triggers if not t.fired],
             'run_seconds': (F.t_end - EPOCH_NS / 1e9) if F.t_end else None}
        return {'sc': sc, 'o': o, 'events': [(e[0], e[1], e[2]) for e in cap.events]}
    finally:
        rig.close()

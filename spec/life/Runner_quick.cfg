SPECIFICATION Spec
CONSTANTS N = 2
  StopExit = {"error"}
INVARIANT TypeOK
INVARIANT R_StopTellsAll
INVARIANT R_Retcodes
PROPERTY R_StepVerdict
PROPERTY R_StopSticky
PROPERTY R_NoneWaitsForAll

SPECIFICATION SpecC
CONSTANTS
  Readers = {"r1"}
  AutoRef = {"r1"}
  Sizes = {1, 2}
  FileSizes = {1, 3}
  TotalSizes = {1, 4}
  MaxWrites = 4
  MaxTs = 2
  MaxDeletes = 2
  MaxReopens = 0
  MaxPosOps = 1
  Active = {"r1", "w"}
  Bin = FALSE
  Acts = {"write", "read", "readblock", "delete", "seek", "tell"}
  Defects = {"overwrite", "refresh_skip"}
VIEW view
ACTION_CONSTRAINT Emit

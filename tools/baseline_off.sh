#!/bin/sh
# Runs the repository's pinned baseline suite with the verification guard OFF and checks that every test of
# BASELINE.json's stable_pass list passes.  Usage: tools/baseline_off.sh [repo_dir]
REPO_DIR="${1:-/repo}"
unset OPENFILTER_VERIF
OUTF=$(mktemp /tmp/baseline_XXXXXX.xml)
cd "$REPO_DIR" && /venv/bin/python -m pytest -ra -q -p no:cacheprovider --timeout=900 --continue-on-collection-errors --junitxml="$OUTF" >/tmp/baseline_last.log 2>&1
/venv/bin/python - "$OUTF" <<'PY'
import json, sys, xml.etree.ElementTree as ET
base = json.load(open('/root/.vp/BASELINE.json'))
want = set(base['stable_pass'])
ok = set()
for tc in ET.parse(sys.argv[1]).getroot().iter('testcase'):
    name = f"{tc.get('classname')}::{tc.get('name')}"
    if not any(ch.tag in ('failure', 'error', 'skipped') for ch in tc):
        ok.add(name)
missing = sorted(want - ok)
print(f'baseline: {len(want & ok)}/{len(want)} stable tests pass')
for m in missing:
    print('  NOT PASSING:', m)
sys.exit(1 if missing else 0)
PY
RC=$?
rm -f "$OUTF"
exit $RC

SPECIFICATION HSpecC
CONSTANTS
  Readers = {"r1"}
  AutoRef = {"r1"}
  Sizes = {1}
  FileSizes = {1, 2}
  TotalSizes = {8}
  MaxWrites = 3
  MaxTs = 1
  MaxDeletes = 1
  MaxReopens = 0
  MaxPosOps = 0
  Active = {"r1"}
  Bin = FALSE
  Acts = {"write", "read", "readblock", "delete"}
  Defects = {}
  MaxCrashes = 3
  MaxSaves = 2
VIEW allview
ACTION_CONSTRAINT HEmit

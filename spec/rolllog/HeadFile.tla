------------------------------ MODULE HeadFile ------------------------------
(* C14 - a log reader's saved position survives crashes without skipping records.

   Extends RollLog.tla (directory, writer, reader R = "r1" with autorefresh - the default of a read-only RollLog) with
   the persistent read position of rolllog.py:

     write_head (l.151-160)   pos = tell();  open(head + '.tmp', 'w');  f.write(json);  f.close();  os.rename(tmp, head)
                              refined into its file-system operations  SaveOpen, SaveWrite, SaveClose, SaveRename
     Crash                    the reader process dies: between any two of those operations and between any two reader
                              operations.  A write() that was not followed by close() is still in the process' buffer:
                              none, part or all of it is in the temp file afterwards.
     Restart                  the constructor path (l.127-149): scan, open(head), JSON + shape validation, seek(pos);
                              no head file: seek(('start', 0)).

   A clean close() (l.162) is write_head followed by the end of the process: SaveOpen .. SaveRename, Crash.

   The head file holds a position p = [k, ts, off] (file name + offset); `cur` is the history component "id of the last
   record the reader had consumed when it took the position" used by the formulas only.

   Defects (none of them is in the code; they are the designs the property rules out - with one of them switched on TLC
   must exhibit a counterexample, which shows that the formulas are not vacuous):
     "head_in_place"        write the head file itself instead of a temp file
     "rename_before_close"  rename the temp file over the head before it was closed

   Scope (see DESIGN 5/C14): timestamps of the writer increase strictly.  Log files are deleted (externally / by the
   retention policy) while the reader is down; with "delete_up" in Acts also under the running reader (which then keeps
   reading the unlinked inode it has open), and with "refresh" in Acts the application calls refresh() itself - the
   documented way of a reader constructed with autorefresh=False (AutoRef = {}) to learn about new and vanished files. *)
EXTENDS RollLog

CONSTANTS MaxCrashes, MaxSaves

R == "r1"
NoHead == [st |-> "absent", p |-> NoPos]

VARIABLES
  head,       \* the head file: [st: "absent" | "ok" | "junk", p]        junk: empty or truncated JSON
  tmp,        \* the temp file, same shape
  hpc,        \* progress of the save in the running reader: "idle" | "opened" | "written" | "closed" | "renamed"
  hbuf,       \* the position being saved (tell() at the beginning of write_head)
  up,         \* the reader process is running
  prevp, newp,\* history: the head's content when the current / last save began; the position that save writes
  delivered,  \* history: ids handed to the application by any incarnation of the reader
  ncrash, nsave,
  hev         \* observation of the last step: [act, ok]; excluded from the VIEW

hvars == <<head, tmp, hpc, hbuf, up, prevp, newp, delivered, ncrash, nsave, hev>>
hview == <<head, tmp, hpc, hbuf, up, prevp, newp, delivered, ncrash, nsave>>
allvars == <<vars, hvars>>
allview == <<view, hview>>

HEv(a, ok) == [act |-> a, ok |-> ok]

HInit ==
  /\ Init
  /\ head = NoHead /\ tmp = NoHead /\ hpc = "idle" /\ hbuf = NoPos /\ up = FALSE
  /\ prevp = NoHead /\ newp = NoHead /\ delivered = {} /\ ncrash = 0 /\ nsave = 0 /\ hev = HEv("init", TRUE)

Same(v) == UNCHANGED v

(* the writer: strictly increasing timestamps *)
HWrite(sz) ==
  /\ Write(sz, IF wfile = 0 THEN maxused + 1 ELSE 0, TRUE)      \* the timestamp only matters when a file is created
  /\ hev' = HEv("write", TRUE)
  /\ UNCHANGED <<head, tmp, hpc, hbuf, up, prevp, newp, delivered, ncrash, nsave>>

(* the reader's read() / read_block(); not in the middle of write_head (same thread) *)
HRead(block) ==
  /\ up /\ hpc = "idle"
  /\ IF block THEN ReadBlock(R) ELSE Read(R)
  /\ delivered' = delivered \cup Ids(ev'.chunk)
  /\ hev' = HEv("read", TRUE)
  /\ UNCHANGED <<head, tmp, hpc, hbuf, up, prevp, newp, ncrash, nsave>>

PosOf(o) == TellOf(o)                                  \* l.155 pos = self.tell()
FileOf(p) == [st |-> "ok", p |-> p]
Junk == [st |-> "junk", p |-> NoPos]

SaveOpen ==                                            \* l.155-157
  /\ up /\ hpc = "idle" /\ nsave < MaxSaves
  /\ hbuf' = PosOf(R) /\ hpc' = "opened" /\ nsave' = nsave + 1
  /\ prevp' = head /\ newp' = FileOf(PosOf(R))
  /\ IF "head_in_place" \in Defects THEN head' = Junk /\ tmp' = tmp           \* open(head, 'w') truncates the head
     ELSE tmp' = Junk /\ head' = head                                          \* open(tmp, 'w'): empty file
  /\ hev' = HEv("s_open", TRUE)
  /\ UNCHANGED <<vars, up, delivered, ncrash>>
SaveWrite ==                                           \* l.158 f.write(...): into the process' buffer
  /\ up /\ hpc = "opened" /\ hpc' = "written"
  /\ hev' = HEv("s_write", TRUE)
  /\ UNCHANGED <<vars, head, tmp, hbuf, up, prevp, newp, delivered, ncrash, nsave>>
SaveClose ==                                           \* l.157 end of `with`: flush + close
  /\ up
  /\ IF "rename_before_close" \in Defects THEN hpc = "renamed" /\ hpc' = "idle" ELSE hpc = "written" /\ hpc' = "closed"
  /\ IF "head_in_place" \in Defects \/ "rename_before_close" \in Defects
     THEN head' = FileOf(hbuf) /\ tmp' = tmp ELSE tmp' = FileOf(hbuf) /\ head' = head
  /\ hev' = HEv("s_close", TRUE)
  /\ UNCHANGED <<vars, hbuf, up, prevp, newp, delivered, ncrash, nsave>>
SaveRename ==                                          \* l.160 os.rename(tmp, head): atomic
  /\ up
  /\ IF "rename_before_close" \in Defects THEN hpc = "written" /\ hpc' = "renamed" ELSE hpc = "closed" /\ hpc' = "idle"
  /\ IF "head_in_place" \in Defects THEN UNCHANGED <<head, tmp>> ELSE head' = tmp /\ tmp' = NoHead
  /\ hev' = HEv("s_rename", TRUE)
  /\ UNCHANGED <<vars, hbuf, up, prevp, newp, delivered, ncrash, nsave>>

(* the reader process dies.  how: what happens to a written-but-unclosed buffer (0 nothing, 1 part, 2 all of it) *)
Crash(how) ==
  /\ up /\ ncrash < MaxCrashes /\ up' = FALSE /\ ncrash' = ncrash + 1 /\ hpc' = "idle"
  /\ how # 0 => hpc \in {"written", "renamed"}
  /\ LET f == IF how = 2 THEN FileOf(hbuf) ELSE Junk
         unflushed == hpc \in {"written", "renamed"} IN
     IF ~unflushed THEN UNCHANGED <<head, tmp>>
     ELSE IF "head_in_place" \in Defects \/ hpc = "renamed" THEN head' = f /\ tmp' = tmp
     ELSE tmp' = f /\ head' = head
  \* the object is gone: its file list, index and open file mean nothing any more
  /\ lf' = [lf EXCEPT ![R] = <<>>] /\ ridx' = [ridx EXCEPT ![R] = 0] /\ rf' = [rf EXCEPT ![R] = NoFile]
  /\ last' = [last EXCEPT ![R] = Unknown] /\ pos' = [pos EXCEPT ![R] = NoPos]
  /\ ev' = [NoEv EXCEPT !.n = 1 - ev.n, !.act = "crash", !.o = R]
  /\ hev' = HEv("crash", TRUE)
  /\ UNCHANGED <<fsz, tsz, dir, data, wbuf, nino, recsz, clock, closed, wfile, total, destroyed, taintf, maxused, ndel, nreo,
                 npos, hbuf, prevp, newp, delivered, nsave>>

(* RollLog(..., rdonly=True, head=...) : l.127-149 *)
Restart ==
  /\ ~up
  /\ IF head.st = "junk"
     THEN \* json_loads / the shape check raises (l.144-147): the reader does not come up
          /\ hev' = HEv("restart", FALSE)
          /\ UNCHANGED <<vars, head, tmp, hpc, hbuf, up, prevp, newp, delivered, ncrash, nsave>>
     ELSE LET sc == ScanLF
              p  == IF head.st = "absent" THEN [NoPos EXCEPT !.k = "start", !.cur = 0] ELSE head.p    \* l.138-139
          IN /\ lf' = [lf EXCEPT ![R] = sc]
             /\ LET l == sc  n == Len(l)                     \* seek(pos) (l.149) on the fresh list
                    cand == {i \in 1..n : l[i].ts >= p.ts}
                    r == IF p.k = "start" THEN [ridx |-> 0, rf |-> NoFile]
                         ELSE IF cand = {} THEN [ridx |-> n, rf |-> NoFile]
                         ELSE LET i == Min(cand) IN
                              IF l[i].ts > p.ts THEN [ridx |-> i - 1, rf |-> NoFile]
                              ELSE [ridx |-> i - 1, rf |-> [ino |-> dir[p.ts], off |-> p.off, buf |-> <<>>]]
                IN ridx' = [ridx EXCEPT ![R] = r.ridx] /\ rf' = [rf EXCEPT ![R] = r.rf]
             /\ last' = [last EXCEPT ![R] = p.cur]
             /\ up' = TRUE /\ hev' = HEv("restart", TRUE)
             /\ ev' = [NoEv EXCEPT !.n = 1 - ev.n, !.act = "reopen", !.o = R]
             /\ UNCHANGED <<fsz, tsz, dir, data, wbuf, nino, recsz, clock, closed, wfile, total, pos, destroyed, taintf, maxused,
                            ndel, nreo, npos, head, tmp, hpc, hbuf, prevp, newp, delivered, ncrash, nsave>>

(* a log file disappears: while the reader is down, or ("delete_up") at any moment *)
HDelete(t) ==
  /\ (~up \/ "delete_up" \in Acts) /\ Delete(t)
  /\ hev' = HEv("delete", TRUE)
  /\ UNCHANGED <<head, tmp, hpc, hbuf, up, prevp, newp, delivered, ncrash, nsave>>

(* the application calls refresh() (l.453-462); not in the middle of write_head (same thread) *)
HRefresh ==
  /\ up /\ hpc = "idle" /\ Refresh(R)
  /\ hev' = HEv("refresh", TRUE)
  /\ UNCHANGED <<head, tmp, hpc, hbuf, up, prevp, newp, delivered, ncrash, nsave>>

HLabels ==
       {Lab("write", W, s, 0) : s \in Sizes}
  \cup {Lab(a, R, 0, 0) : a \in {"read", "readblock", "s_open", "s_write", "s_close", "s_rename", "restart"}}
  \cup {Lab("crash", R, h, 0) : h \in 0..2}
  \cup {Lab("delete", "env", t, 0) : t \in TsAll}
  \cup {Lab("refresh", R, 0, 0)}
HNextL(l) ==
  CASE l.a = "write"     -> HWrite(l.x)
    [] l.a = "read"      -> HRead(FALSE)
    [] l.a = "readblock" -> "readblock" \in Acts /\ HRead(TRUE)
    [] l.a = "s_open"    -> SaveOpen
    [] l.a = "s_write"   -> SaveWrite
    [] l.a = "s_close"   -> SaveClose
    [] l.a = "s_rename"  -> SaveRename
    [] l.a = "crash"     -> Crash(l.x)
    [] l.a = "restart"   -> Restart
    [] l.a = "delete"    -> "delete" \in Acts /\ HDelete(l.x)
    [] l.a = "refresh"   -> "refresh" \in Acts /\ HRefresh
HNext == \E l \in HLabels : HNextL(l)
HSpec == HInit /\ [][HNext]_allvars

(* ================================================================================================================ *)
(* C14_RestartsFromSavedPos: whenever the reader is (re)started it comes up, and from the position the last completed
   save wrote or the one the interrupted save was writing - never from a corrupt one.  As an invariant: at every
   instant (a crash can come at any instant) the head file is absent, or holds one of those two positions. *)
C14_HeadNeverCorrupt == head.st # "junk" /\ (head.st = "ok" => head \in {prevp, newp})
StepRestartOK        == hev'.act = "restart" => hev'.ok
C14_RestartsFromSavedPos == [][StepRestartOK]_allvars

(* C14_NoSkip: across all incarnations no record that is still on disk is passed over ... *)
StepNoSkipAcross ==
  (IsRead(ev') /\ hev'.act = "read" /\ ev'.chunk # <<>>) =>
     \A k \in 1..Len(recsz') : (k < Last(ev'.chunk) /\ k \notin delivered') => k \notin OnDisk'
(* ... and what is delivered again after a restart are only records read since the position that was restored
   (last[R] is set from the restored position's cursor by Restart) *)
StepBoundedReplay ==
  (IsRead(ev') /\ hev'.act = "read" /\ ev'.chunk # <<>>) =>
     /\ ChunkWhole(ev'.chunk, recsz') /\ ChunkNext(ev'.chunk, last[R])
C14_NoSkip        == [][StepNoSkipAcross]_allvars
C14_BoundedReplay == [][StepBoundedReplay]_allvars
(* the saved cursor never runs ahead of what was delivered: otherwise a restart would skip *)
C14_SavedNotAhead == head.st = "ok" => (head.p.cur = Unknown \/ \A k \in 1..Len(recsz) :
                                           (k <= head.p.cur /\ k \notin delivered) => k \notin OnDisk)

=============================================================================

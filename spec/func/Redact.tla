------------------------------- MODULE Redact -------------------------------
(* C15 - passwords embedded in URIs never leave the filter in clear text.

   An information-flow model of what happens to ONE string of a filter configuration that holds a URI with a
   'user:password@' credential, from the place where it sits in the configuration to every place where the filter
   shows configuration text to the outside (the sinks).

   The configuration is modelled by the *path* from the object handed to the constructor down to that string:

       top container  --key-->  nest[1]  -->  ...  -->  nest[n]  -->  string (one URI | comma list of URIs)

   containers:  "fconfig" = FilterConfig or a subclass         (openfilter/filter_runtime/filter.py:113)
                "adict"   = utils.adict that is NOT a FilterConfig; this is what the normalised per-source /
                            per-output records are (VideoInConfig.Source, VideoOutConfig.Output)  (video_in.py:541, video_out.py:246)
                "dict"    = plain dict,  "list",  "tuple"
   keys at the top level:  "sources" / "outputs" (the filter's own endpoints), "option" (any other option that holds
                a URI), "hidden" (an option whose name starts with '_').

   The operators follow the code one branch per branch:
       NormNest/NormLeaf ... Filter.normalize_config (filter.py:1019-1050), VideoIn.normalize_config
                             (filters/video_in.py:682-718), VideoOut.normalize_config (filters/video_out.py:349-389)
       Walk              ... the recursive lambda that prepares the configuration for the constructor log line
                             (filter.py:596-602)
       ConstructorLog    ... that log line; it is written in a `finally`, so it shows the normalised configuration when
                             normalize_config returned and the caller's object when it raised
       LineageStart      ... Filter.init builds the START facets from the configuration (filter.py:896-915), after the
                             subclass removed its own endpoints (video_in.py:721, video_out.py:392);
                             observability/lineage.py:36-78 flattens dicts and str()s list items, no masking there
       ReaderLog/MetaSrc ... VideoReader keeps only the masked source (video_in.py:162) and uses it for every log line
                             (l.176,189,199,204,219,234,318) and for meta.src (l.752)
       WriterLog         ... VideoWriter masks in the one line that shows the output (video_out.py:127)
       ErrorLog          ... Filter.run logs the exception that ends init()/setup()/the loop (filter.py:1193); the messages
                             that quote configuration text are video_out.py:81, filter.py:937,939 (unmasked) and
                             video_in.py:176,189,204 (built from the masked VideoReader.source)

   `Mask` (utils.hide_uri_users_and_pwds / hide_uri_pwds, two regular expressions) is NOT interpreted here: a Mask node
   turns "clear" into "masked" for every URI scheme class and every user/password character class.  Those two
   dimensions are carried by every case so that TLC enumerates them; the conformance harness (vlib/c15.py) instantiates
   them with concrete characters and runs the real regular expressions through the real filters.

   CONSTANT Defects names the places where the code deviates from the intended design (mask on every path):
       "walk_fconfig_only"   the constructor-log walk descends only into FilterConfig, every other dict is printed as is
       "facets_unmasked"     the lineage START facets are built from the unmasked configuration
       "errors_quote_clear"  error messages quote sources/outputs with {x!r} instead of the masked text
       "reader_source_clear", "writer_log_clear"   (not in the code; classes of regressions, used by the self-test)
   Defects = {}            : intended design, TLC proves NoCleartextAtSink on every case.
   Defects = CodeDefects   : the code as it stands, TLC exhibits a leaking case (replayed on the real code).

   The state space is the set of cases (one initial state per case); the invariants are evaluated on every case. *)
EXTENDS Integers, Sequences, FiniteSets, TLC, Json, IOUtils, SequencesExt, FiniteSetsExt

CONSTANTS Defects,        \* subset of DefectNames
          MaxDepth,       \* maximum number of containers between the top-level key and the string
          Classes,        \* filter classes enumerated
          SchemeClasses,  \* URI scheme classes (uninterpreted; instantiated by the harness)
          CharClasses     \* user/password character classes (uninterpreted; instantiated by the harness)

CodeDefects == {}   \* the deviations found (walk_fconfig_only, facets_unmasked, errors_quote_clear) were repaired by fix: commits ec257f7, 1cdf774, 07cec47
DefectNames == {"walk_fconfig_only", "facets_unmasked", "errors_quote_clear", "reader_source_clear", "writer_log_clear"}
ASSUME Defects \subseteq DefectNames

AllClasses == {"Filter", "VideoIn", "VideoOut", "ImageIn", "ImageOut", "MQTTOut", "Recorder", "REST", "Util", "Webvis"}
ASSUME Classes \subseteq AllClasses

Tops       == {"dict", "fconfig"}                       \* class of the object handed to Filter(config) / Filter.run(config)
Containers == {"list", "tuple", "dict", "adict", "fconfig"}
Nestings   == UNION {[1..n -> Containers] : n \in 0..MaxDepth}
Sinks      == {"constructor_log", "reader_log", "writer_log", "meta_src", "lineage_start", "lineage_other", "error_log"}
Status     == {"absent", "masked", "clear"}             \* what a sink shows of the credential

(* ---- which cases exist ------------------------------------------------------------------------------------------ *)
\* the filter's own endpoint key whose items are normalised into per-source / per-output records
EndpointKey(cls) == CASE cls = "VideoIn" -> "sources" [] cls = "VideoOut" -> "outputs" [] OTHER -> "none"

\* A structural case (without the two uninterpreted dimensions) is a record
\*   [cls, top, key, nest, leaf, fault]; a case adds  scheme  and  chars.
\* Family 1: a URI-valued option anywhere in the configuration, any nesting, every filter class.
\*   fault "norm_unrelated": normalize_config raises for a reason that has nothing to do with this option (the log line
\*   then shows the configuration *before* normalisation).
OptionStructs ==
  [cls : Classes, top : Tops, key : {"option", "hidden"}, nest : Nestings, leaf : {"single", "comma"},
   fault : {"none", "norm_unrelated"}]

\* Family 2: the video endpoints.  Shapes accepted by VideoIn/VideoOut.normalize_config: a string, a comma list in a
\*   string, a list of strings, a list of dict records ("silly user might have passed in dicts"), a list of adict records.
\*   faults: "norm_items"  normalize_config raises in its checks of the items (unknown option / wrong scheme), i.e.
\*                          after it has rewritten the items,
\*           "setup_quotes" VideoReader / VideoWriter raise with a message quoting the item (maxsize+resize / segtime),
\*           "adapt_restart" (VideoOut) no fault of the configuration: the output has adaptive fps and the frame rate changes in
\*                          the middle of the run, so that the writer tears the RTSP stream down and serves it again
\*                          (video_out.py write_adapt -> new_writer): everything the writer logs on that path as well.
EndpointShapes == { <<"single", <<>> >>, <<"comma", <<>> >>, <<"single", <<"list">> >>,
                    <<"single", <<"list", "dict">> >>, <<"single", <<"list", "adict">> >> }
EndpointStructs ==
  { [cls |-> cls, top |-> top, key |-> EndpointKey(cls), nest |-> sh[2], leaf |-> sh[1], fault |-> fault] :
       cls \in Classes \cap {"VideoIn", "VideoOut"}, top \in Tops, sh \in EndpointShapes,
       fault \in {"none", "norm_unrelated", "norm_items", "setup_quotes"} }
  \cup
  { [cls |-> cls, top |-> top, key |-> EndpointKey(cls), nest |-> sh[2], leaf |-> sh[1], fault |-> "adapt_restart"] :
       cls \in Classes \cap {"VideoOut"}, top \in Tops, sh \in EndpointShapes }

\* Family 3: a credentialed URI given as sources/outputs of a filter that talks ZeroMQ there; Filter.init refuses it
\*   (filter.py:936-939) *after* it has emitted the START event (l.915).
MisplacedShapes == { <<"single", <<>> >>, <<"comma", <<>> >>, <<"single", <<"list">> >> }
MisplacedStructs ==
  { [cls |-> cls, top |-> top, key |-> key, nest |-> sh[2], leaf |-> sh[1], fault |-> "init_quotes"] :
       cls \in Classes \cap {"Filter", "Util"}, top \in Tops, key \in {"sources", "outputs"}, sh \in MisplacedShapes }

Structs == OptionStructs \cup EndpointStructs \cup MisplacedStructs

\* scheme classes that make sense at a position
SchemesOf(st) ==
  IF st.key # EndpointKey(st.cls) THEN SchemeClasses       \* options, misplaced endpoints: anything
  ELSE IF st.cls = "VideoIn" THEN SchemeClasses \cap {"rtsp", "https"}     \* video_in.py:32 re_video_stream
  ELSE IF st.fault = "norm_items" THEN SchemeClasses \cap {"https"}       \* video_out.py:386: only file:// and rtsp:// pass
  ELSE SchemeClasses \cap {"rtsp"}

\* The case set is { Case(st, s, ch) : st \in Structs, s \in SchemesOf(st), ch \in CharClasses }; it is never built as one
\* value (TLC evaluates constant definitions eagerly and a UNION of thousands of sets is quadratic), only quantified over.
Case(st, s, ch) == [cls |-> st.cls, top |-> st.top, key |-> st.key, nest |-> st.nest, leaf |-> st.leaf,
                    fault |-> st.fault, scheme |-> s, chars |-> ch]
AllCases(P(_)) == \A st \in Structs : \A s \in SchemesOf(st), ch \in CharClasses : P(Case(st, s, ch))
NumCases == LET n(st) == Cardinality(SchemesOf(st)) * Cardinality(CharClasses)
            IN  FoldSet(LAMBDA st, acc : acc + n(st), 0, Structs)

(* ---- normalisation ---------------------------------------------------------------------------------------------- *)
IsEndpoint(c) == c.key = EndpointKey(c.cls)
NormRaises(c) == c.fault \in {"norm_unrelated", "norm_items"}
InitReached(c)  == ~NormRaises(c)                         \* Filter.run: cls(config) then filter.init(filter.config)
SetupReached(c) == InitReached(c) /\ c.fault # "init_quotes"

NormNest(c) ==
  IF IsEndpoint(c) THEN <<"list", "adict">>               \* video_in.py:683,695-703 / video_out.py:350,362-370: every item
                                                          \*   becomes a Source/Output record (adict, not FilterConfig)
  ELSE IF c.key \in {"sources", "outputs"} /\ c.nest = <<>>
       THEN <<"list">>                                    \* filter.py:1023-1030 split_commas_maybe
  ELSE c.nest                                             \* everything else is carried over (simpledeepcopy keeps classes)
NormLeaf(c) == IF c.key \in {"sources", "outputs"} THEN "single" ELSE c.leaf

\* filter.py:593-602: `self.config = config = self.normalize_config(config)` inside try, the log line in `finally`:
\* it shows the normalised configuration when normalize_config returned, otherwise the constructor's own deep copy of
\* the caller's object - which VideoIn/VideoOut.normalize_config has by then partly rewritten IN PLACE when the endpoints
\* were given as a list: `sources[idx] = VideoInConfig.Source(...)` (video_in.py:695-703, video_out.py:362-370) runs
\* before the checks that raise (video_in.py:710-716, video_out.py:386); a string is split into a fresh list and stays.
LoggedTop(c)  == IF NormRaises(c) THEN c.top  ELSE "fconfig"   \* normalize_config always returns a FilterConfig
LoggedNest(c) == IF ~NormRaises(c) THEN NormNest(c)
                 ELSE IF c.fault = "norm_items" /\ IsEndpoint(c) /\ c.nest # <<>> THEN <<"list", "adict">>
                 ELSE c.nest

(* ---- the recursive walk of the constructor log (filter.py:596-601) ------------------------------------------------ *)
RECURSIVE Walk(_, _, _)
Walk(path, hidden, D) ==
  IF path = <<>> THEN "masked"                            \* l.598  str        -> hide_uri_users_and_pwds(cfg)
  ELSE LET k == Head(path) IN
    IF k \in {"list", "tuple"}
      THEN Walk(Tail(path), FALSE, D)                     \* l.599  list/tuple -> same class, every item walked
    ELSE IF k # "fconfig" /\ "walk_fconfig_only" \in D
      THEN "clear"                                        \* l.600  not a FilterConfig -> returned as is (dict, adict record)
    ELSE IF hidden THEN "absent"                          \* l.601  keys starting with '_' are left out
    ELSE Walk(Tail(path), FALSE, D)                       \* l.601  keys and values walked

ConstructorLog(c, D) == Walk(<<LoggedTop(c)>> \o LoggedNest(c), c.key = "hidden", D)

(* ---- lineage START facets (filter.py:896-915, lineage.py:36-78,141-175) ------------------------------------------- *)
LineageStart(c, D) ==
  IF ~InitReached(c) THEN "absent"
  ELSE IF IsEndpoint(c) THEN "absent"                     \* video_in.py:721 `sources=None`, video_out.py:392 `outputs=None`
  ELSE IF "facets_unmasked" \in D THEN "clear"            \* facets = dict(config) minus 'model_path'; flatten; str(x)
  ELSE "masked"

\* RUNNING / COMPLETE / ABORT events carry the emitter's own facets (metrics), never configuration (lineage.py:153)
LineageOther(c, D) == "absent"

(* ---- VideoIn: VideoReader (video_in.py:162) ---------------------------------------------------------------------- *)
ReaderMade(c) == c.cls = "VideoIn" /\ IsEndpoint(c) /\ SetupReached(c)
ReaderSource(D) == IF "reader_source_clear" \in D THEN "clear" ELSE "masked"     \* self.source = hide_...(source)
ReaderLog(c, D) == IF ReaderMade(c) /\ c.fault = "none" THEN ReaderSource(D) ELSE "absent"   \* 'video open: ...' l.234
MetaSrc(c, D)   == IF ReaderMade(c) /\ c.fault = "none" THEN ReaderSource(D) ELSE "absent"   \* 'src': vid.source  l.752

(* ---- VideoOut: VideoWriter (video_out.py:127) -------------------------------------------------------------------- *)
WriterLog(c, D) ==
  IF c.cls = "VideoOut" /\ IsEndpoint(c) /\ SetupReached(c) /\ c.fault \in {"none", "adapt_restart"}
  THEN IF "writer_log_clear" \in D THEN "clear" ELSE "masked"       \* 'video serve: ...' at every (re)start, l.153
  ELSE "absent"

(* ---- the exception text logged by Filter.run (filter.py:1193) ---------------------------------------------------- *)
\* Only exceptions of init() / setup() / the loop are logged: `filter = cls(config, ...)` (filter.py:1152) sits outside
\* the try block whose handler calls logger.error(exc), so what normalize_config raises goes to the caller unlogged.
Quoted(D) == IF "errors_quote_clear" \in D THEN "clear" ELSE "masked"
ErrorLog(c, D) ==
  CASE c.fault = "init_quotes"  -> Quoted(D)              \* filter.py:937,939 {bad_src!r} / {bad_out!r}
    [] c.fault = "setup_quotes" -> IF c.cls = "VideoIn" THEN ReaderSource(D)   \* video_in.py:176 {self.source!r}
                                   ELSE Quoted(D)                             \* video_out.py:81  {output!r}
    [] OTHER -> "absent"                                  \* no error / raised by the constructor / does not mention the option

Shows(c, s, D) ==
  CASE s = "constructor_log" -> ConstructorLog(c, D)
    [] s = "reader_log"      -> ReaderLog(c, D)
    [] s = "writer_log"      -> WriterLog(c, D)
    [] s = "meta_src"        -> MetaSrc(c, D)
    [] s = "lineage_start"   -> LineageStart(c, D)
    [] s = "lineage_other"   -> LineageOther(c, D)
    [] s = "error_log"       -> ErrorLog(c, D)

(* ---- classification of the witness (facts about the input, used for known-finding signatures) --------------------- *)
PathKind(c) ==
  IF LoggedTop(c) = "dict" THEN "raw_plain_dict_config"            \* normalisation raised on a plain-dict configuration
  ELSE IF IsEndpoint(c) /\ (\E i \in DOMAIN LoggedNest(c) : LoggedNest(c)[i] \in {"dict", "adict"})
       THEN "per_source_record"
  ELSE IF \E i \in DOMAIN LoggedNest(c) : LoggedNest(c)[i] \in {"dict", "adict"} THEN "nested_dict"
  ELSE "plain"                                                     \* only str / list / tuple / FilterConfig on the path

(* ---- the property ------------------------------------------------------------------------------------------------ *)
NoCleartext(c, D) == \A s \in Sinks : Shows(c, s, D) # "clear"

\* laws of the model itself, checked at start-up on the whole case set
LawDesignMasksEverywhere == AllCases(LAMBDA c : NoCleartext(c, {}))
LawCodeLeaksOnlyWhereDefective ==     \* every leak of the code-as-is model is attributable to one of the three deviations
  AllCases(LAMBDA c : \A s \in Sinks :
     Shows(c, s, CodeDefects) = "clear" =>
        \/ s = "constructor_log" /\ Shows(c, s, CodeDefects \ {"walk_fconfig_only"}) # "clear"
        \/ s = "lineage_start"   /\ Shows(c, s, CodeDefects \ {"facets_unmasked"}) # "clear"
        \/ s = "error_log"       /\ Shows(c, s, CodeDefects \ {"errors_quote_clear"}) # "clear")
LawMaskNotDeletion ==                 \* a deviation never empties a sink: what the design shows masked, the code shows too
  AllCases(LAMBDA c : \A s \in Sinks : (Shows(c, s, {}) = "masked") => (Shows(c, s, CodeDefects) # "absent"))
LawPlainPathsSafe ==                  \* strings reachable through str/list/tuple/FilterConfig only are masked even in the code
  AllCases(LAMBDA c : PathKind(c) = "plain" => ConstructorLog(c, CodeDefects) # "clear")

ASSUME LawDesignMasksEverywhere
ASSUME LawCodeLeaksOnlyWhereDefective
ASSUME LawMaskNotDeletion
ASSUME LawPlainPathsSafe

(* ---- vectors: one per structural case (scheme / character classes are listed, the harness takes the product) ------ *)
StatusRec(st, D) == [s \in Sinks |-> Shows(st, s, D)]
Vec(st) ==
  [cls |-> st.cls, top |-> st.top, key |-> st.key, nest |-> st.nest, depth |-> Len(st.nest), leaf |-> st.leaf,
   fault |-> st.fault, schemes |-> SetToSeq(SchemesOf(st)),
   norm_nest |-> NormNest(st), norm_leaf |-> NormLeaf(st),
   logged_top |-> LoggedTop(st), logged_nest |-> LoggedNest(st), path |-> PathKind(st),
   code |-> StatusRec(st, CodeDefects), design |-> StatusRec(st, {})]

ASSUME "VERIF_OUT" \in DOMAIN IOEnv =>
         JsonSerialize(IOEnv.VERIF_OUT, [vectors |-> SetToSeq({Vec(st) : st \in Structs}),
                                         chars |-> SetToSeq(CharClasses),
                                         code_defects |-> SetToSeq(CodeDefects),
                                         nstructs |-> Cardinality(Structs), ncases |-> NumCases])

(* ---- state space = set of cases ----------------------------------------------------------------------------------- *)
\* One initial state per case, so TLC's "distinct states" is the number of cases on which the invariants were evaluated.
VARIABLE cur
Init == \E st \in Structs : \E s \in SchemesOf(st), ch \in CharClasses : cur = Case(st, s, ch)
Next == UNCHANGED cur

NoCleartextAtSink    == NoCleartext(cur, Defects)
NoClearConstructor   == Shows(cur, "constructor_log", Defects) # "clear"
NoClearLineageStart  == Shows(cur, "lineage_start", Defects) # "clear"
NoClearErrorLog      == Shows(cur, "error_log", Defects) # "clear"
NoClearReader        == Shows(cur, "reader_log", Defects) # "clear" /\ Shows(cur, "meta_src", Defects) # "clear"
NoClearWriter        == Shows(cur, "writer_log", Defects) # "clear"
TypeOK               == \A s \in Sinks : Shows(cur, s, Defects) \in Status
=============================================================================

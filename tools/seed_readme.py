#!/venv/bin/python
"""Writes /verif/seeded/README.md from seeded/*/meta.json, result.json and the notes below."""
import glob, json, os
NOTES = {
    'C08_2': 'missed at first (the exiting filter always ended after the pipeline was connected); C08 gained the exit-in-setup variant of every uniform-policy propagation case (judged over the loss-free upstream direction) - caught since',
    'C18_1': 'missed at first (the harness replaced the emitter lock by a no-op and made check+emit of the heartbeat atomic); C18 gained the emitter-level lock-discipline probe (cooperative lock, emit() yields before the event leaves, random interleavings) - caught since',
    'C02_1': 'missed at first (no consumer ever joined late; C02_Payload did not compare the id a frame was published under with the id it was delivered as); C02 gained the JoinLate topology with a late-join fault and the id comparison - caught since',
    'C02_2': 'missed at first (no two topic names were prefixes of one another); C02 gained the PrefixTopics topology - caught since (C02_Hidden)',
    'C01_1': 'missed at first (single-topic branches only); C01 gained TeeRejoinMulti (topic set varying per id, varying topic published first, lost publishes) and the design mutation inval_complete_only - caught since',
    'C01_2': 'missed at first (every rejoin was a sink, so recv() never got a state); C01 gained TeeRejoinRelay and a stored schedule (spec/proto/schedules/C01_relay_rejoin_amnesia.json) - caught since',
    'C03_1': 'missed at first (no filter id was a prefix of another); C03 gained TeeNames with the shorter-named required consumer joining late - caught since',
    'C03_2': 'missed at first (no branch was ever completed by the topics message alone next to a slow branch); C03 gained TeeRejoinAbsent - caught since',
    'C07_2': 'missed at first (single-topic frames only); C07 gained Balance2Multi, the design mutation bal_unlock_on_enter and its TLC counterexample as a stored schedule - caught since (the rejoin dies of the duplicate-topic RuntimeError after mixing ids)',
    'C04_2': 'missed at first (no consumer listed an ephemeral source before a synchronized one); C04 gained the EphFirst stall scenario, C05 its conformance replay - caught since',
    'C17_1': 'missed at first (the hazardous (side, bound) pairs were outside the enumerated and sampled domains); C17 gained the float-hazard pair family (vlib/c17.py gen_extra) - caught since',
    'C05_2': 'missed at first (no topology with a multi-topic ephemeral source next to another source); C05 gained the EphMulti topology (vlib/topos.py) in conformance and random runs - caught since (C05_EphComplete)',
    'C05_1': 'caught after simzmq learned blocking PUSH sends (no DONTWAIT: the caller blocks SNDTIMEO of virtual time) and the kill differential was run on the rejoin topology (C05_NoDelay)',
    'C04_1': 'missed at first (every producer in the stall scenarios was faster than the request interval, so requests never piled up); C04 gained the slow-producer stall scenario (spec: slow origins) - caught since',
    'C16_2': 'missed at first (every case used a fresh configuration file); C16 now rewrites ONE configuration file across cases, starting wide open - caught since',
}
rows = []
for d in sorted(glob.glob('/verif/seeded/C*_*')):
    n = os.path.basename(d)
    try:
        m = json.load(open(d + '/meta.json')); r = json.load(open(d + '/result.json'))
    except Exception:
        continue
    rows.append((n, m.get('summary', '')[:220].replace('\n', ' ').replace('|', '/'), m.get('needs', '')[:160].replace('\n', ' ').replace('|', '/'),
                 'yes' if r.get('caught') else 'NO', (r.get('check', {}).get('lines') or ['', ''])[1][:140].replace('|', '/') if len(r.get('check', {}).get('lines') or []) > 1 else '',
                 NOTES.get(n, '')))
with open('/verif/seeded/README.md', 'w') as fh:
    fh.write('# Seeded changes\n\nChanges to PlainsightAI/openfilter written by independent sub-agents that saw only the text of one property and worked in '
             'their own scratch worktree. Each was confirmed here in a fresh scratch worktree of /repo (`tools/seedtest.py`): the patch applies, '
             'the demonstration passes without it and fails with it, the related repository tests pass with it (each file in its own process and '
             'network namespace; a failure that passes when re-run alone counts as a load flake), and then the property\'s quick check was run '
             'against the patched tree (`VERIF_REPO=<worktree> ./check <Cxx>`). `result.json` holds what was run and observed.\n\n'
             '| id | change | needs | caught | first witness | note |\n|---|---|---|---|---|---|\n')
    for row in rows:
        fh.write('| ' + ' | '.join(row) + ' |\n')
print(len(rows), 'rows')

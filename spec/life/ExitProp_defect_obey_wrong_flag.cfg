CONSTANTS
  Defects = {"obey_wrong_flag"}
  TopoSet = {"chain", "tee", "rejoin"}
  PropSet = {"all", "clean", "error", "none"}
  ObeySet = {"all", "clean", "error", "none"}
  Mixed = FALSE
  Emit = FALSE
INIT Init
NEXT Next
VIEW view
INVARIANT C08_Propagation

--------------------------------- MODULE Runner ---------------------------------
(* Filter.Runner (openfilter/filter_runtime/filter.py): supervision of N filter processes by one parent.          *)
(* One action per method of the Runner / per observable step of a child, so that a behaviour can be stepped       *)
(* through the real class (vlib/c08_runner.py, child processes and their events replaced by plain objects).       *)
(*                                                                                                                *)
(*   child i :  Filter.run ends -> its stop event is set in the `finally` of run()  (ChildStopEvt)                 *)
(*              then the process exits and the parent can read proc.exitcode         (ChildExit)                   *)
(*              a child killed from outside has an exitcode but never set its event  (ChildKilled) - deviation:    *)
(*              step() only looks at exit codes of children whose event is set, so such a death is not noticed    *)
(*   parent  :  step(stop=False) | stop(join=False) | join()  and the stop event set externally / by a signal      *)
EXTENDS Naturals, FiniteSets, TLC

CONSTANTS N,          \* number of children
          StopExit    \* stop_exit policy as the set of exit kinds that stop everything: SUBSET {"clean","error"}

Child == 1..N
VARIABLES pstop,      \* pstop[i]: proc_stops[i].is_set()
          code,       \* code[i] in {"none","clean","error"}: proc.exitcode is None / 0 / other
          stopEvt,    \* runner.stop_evt
          phase,      \* "run" | "stopped" (stop() called, not joined) | "joined"
          ret,        \* runner.retcodes (<<>> until join)
          last        \* observation of the last parent call: <<name, result, reason>>
vars == <<pstop, code, stopEvt, phase, ret, last>>

Kinds == {"clean", "error"}
TypeOK == /\ pstop \in [Child -> BOOLEAN] /\ code \in [Child -> {"none"} \cup Kinds] /\ stopEvt \in BOOLEAN
          /\ phase \in {"run", "stopped", "joined"}

Init == /\ pstop = [i \in Child |-> FALSE] /\ code = [i \in Child |-> "none"] /\ stopEvt = FALSE /\ phase = "run"
        /\ ret = <<>> /\ last = <<"init", "none", "none">>

(* ---- children ---- *)
ChildStopEvt(i) == /\ ~pstop[i] /\ code[i] = "none" /\ phase = "run"
                   /\ pstop' = [pstop EXCEPT ![i] = TRUE] /\ UNCHANGED <<code, stopEvt, phase, ret, last>>
ChildExit(i, k) == /\ pstop[i] /\ code[i] = "none" /\ phase # "joined"
                   /\ code' = [code EXCEPT ![i] = k] /\ UNCHANGED <<pstop, stopEvt, phase, ret, last>>
ChildKilled(i)  == /\ ~pstop[i] /\ code[i] = "none" /\ phase = "run"
                   /\ code' = [code EXCEPT ![i] = "error"] /\ UNCHANGED <<pstop, stopEvt, phase, ret, last>>
External        == /\ phase = "run" /\ ~stopEvt /\ stopEvt' = TRUE /\ UNCHANGED <<pstop, code, phase, ret, last>>

(* ---- parent ---- *)
Seen       == {code[i] : i \in {j \in Child : pstop[j] /\ code[j] # "none"}}      \* exit_flags
AnyRunning == \E i \in Child : ~pstop[i]
Hit        == Seen \cap StopExit
Reason     == IF stopEvt THEN "external"
              ELSE IF "error" \in Hit THEN "child errored" ELSE IF Hit # {} THEN "child exited"
              ELSE IF ~AnyRunning THEN "all children exited" ELSE "none"
Step == /\ phase = "run"
        /\ LET r == Reason IN
           /\ stopEvt' = (stopEvt \/ r # "none")
           /\ last' = <<"step", IF r = "none" THEN "false" ELSE "true", r>>
        /\ UNCHANGED <<pstop, code, phase, ret>>
Stop == /\ phase = "run"
        /\ stopEvt' = TRUE /\ pstop' = [i \in Child |-> TRUE] /\ phase' = "stopped"
        /\ last' = <<"stop", "none", "none">> /\ UNCHANGED <<code, ret>>
Join == /\ phase = "stopped" /\ \A i \in Child : code[i] # "none"          \* join() blocks until every process ended
        /\ ret' = code /\ phase' = "joined" /\ last' = <<"join", "none", "none">>
        /\ UNCHANGED <<pstop, code, stopEvt>>

Next == \/ \E i \in Child : ChildStopEvt(i) \/ ChildKilled(i) \/ \E k \in Kinds : ChildExit(i, k)
        \/ External \/ Step \/ Stop \/ Join
Spec == Init /\ [][Next]_vars
FairSpec == Spec /\ WF_vars(Step) /\ WF_vars(Stop /\ stopEvt) /\ WF_vars(Join)
                 /\ \A i \in Child : WF_vars(\E k \in Kinds : ChildExit(i, k))

(* ---- properties ---- *)
\* once stopped every child has been told to stop and the runner's own event is set
R_StopTellsAll == phase # "run" => stopEvt /\ \A i \in Child : pstop[i]
\* the exit codes handed back are those of the processes, all of them ended
R_Retcodes == phase = "joined" => /\ \A i \in Child : code[i] # "none" /\ ret = code
\* step() says "keep going" exactly when nothing asked for a stop: no event, no exit matching the policy, someone running
R_StepVerdict == [][Step => LET r == last'[3] IN
                      /\ (last'[2] = "false") <=> (~stopEvt /\ Hit = {} /\ AnyRunning)
                      /\ (r = "child errored") => ("error" \in StopExit /\ \E i \in Child : pstop[i] /\ code[i] = "error")
                      /\ (r = "child exited") => ("clean" \in StopExit /\ \E i \in Child : pstop[i] /\ code[i] = "clean")
                      /\ (r = "all children exited") => \A i \in Child : pstop[i]
                      /\ (last'[2] = "true") => stopEvt']_vars
\* the stop event is never cleared
R_StopSticky == [][stopEvt => stopEvt']_vars
\* a policy that matches nothing keeps the runner going while a child is running (stop_exit = none: all must end)
R_NoneWaitsForAll == [][(Step /\ StopExit = {} /\ ~stopEvt /\ AnyRunning) => last'[2] = "false"]_vars
\* liveness: an observed exit matching the policy, or all children done, or an external stop leads to the joined state
R_Terminates == (stopEvt \/ Hit # {} \/ ~AnyRunning) ~> (phase = "joined")
\* the deviation made visible: a killed child (exit code, no event) alone never stops the runner
X_KilledUnnoticed == ~(\E i \in Child : ~pstop[i] /\ code[i] = "error" /\ last[1] = "step" /\ last[2] = "false")
=================================================================================

CONSTANTS
  Defects = {}
  Mode = "topics"
  MaxMaps = 3
  MaxOpts = 1
  MaxEntries = 2
  WsLevel = 2
INIT Init
NEXT Next
INVARIANT InvValid
INVARIANT InvRT_Topics

CONSTANTS
  StartKinds = {"rw", "ro", "lazy", "now"}
  StartFmts = {"RGB", "BGR", "GRAY"}
  MaxOps = 3
  Defects = {}
  Emit = FALSE
  CountNoops = TRUE
INIT Init
NEXT Next
VIEW view
INVARIANT TypeOK
INVARIANT Fresh
INVARIANT NoAlias
INVARIANT JpgOnlyOnFrozen
INVARIANT JpgFresh
INVARIANT ViewKind
PROPERTY RoStaysRo

----------------------------- MODULE MC_Chain2 -----------------------------
EXTENDS OFP
Src1(p) == [pub |-> p, out |-> 1, eph |-> 0, all |-> TRUE, star |-> FALSE, tmap |-> {}]
B0 == [kind |-> "relay", tseq |-> <<>>, skip |-> {}, slow |-> FALSE, lazy |-> FALSE, ren |-> {}, hid |-> FALSE, lowlat |-> FALSE]
cFilters == {"S", "K"}
cSrcs == [f \in cFilters |-> IF f = "K" THEN <<Src1("S")>> ELSE <<>>]
cNOut == [f \in cFilters |-> IF f = "S" THEN 1 ELSE 0]
cFalse == [f \in cFilters |-> FALSE]
cRequired == [f \in cFilters |-> {}]
cBeh == [f \in cFilters |-> IF f = "S" THEN [B0 EXCEPT !.kind = "origin", !.tseq = <<{"main", "b"}>>] ELSE [B0 EXCEPT !.kind = "sink"]]
cFIdx == [f \in cFilters |-> IF f = "S" THEN 1 ELSE 2]
cTopicOrder == <<"main", "b", "_filter">>
Bound == /\ \A c \in Conns : Len(pubq[c]) + Len(subq[c]) <= 8 /\ Len(reqq[c]) <= 3
         /\ \A f \in Filters : \A o \in 1..NOut[f] : Len(pullq[f][o]) <= 4
=============================================================================

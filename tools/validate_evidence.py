#!/usr/bin/env python3-vt
import json, sys, glob, jsonschema
sch = json.load(open('/root/.vp/EVIDENCE.schema.json'))
bad = 0
for f in sorted(glob.glob('/verif/evidence/*.json')):
    try:
        jsonschema.validate(json.load(open(f)), sch); print('ok ', f)
    except Exception as e:
        bad += 1; print('BAD', f, str(e)[:300])
sys.exit(bad and 1)

"""C13 - rolling logs return every record once, in order, within the size budget.

Specification: spec/rolllog/RollLog.tla (directory with inodes, clock, writer, readers, external deletion; one action per
public call of rolllog.py's RollLog; C13_ExactlyOnceInOrder / C13_Budget / C13_NewestKept / C13_NoOverwrite as action
properties; `Defects` = the code's deviations).

1. design level: TLC proves the four formulas with Defects = {} on the RollLog_<tier>_*.cfg configurations;
2. defects: for every switch in Defects TLC must exhibit a counterexample; its label path is replayed on the real
   RollLog objects (four modes) - if the real code reproduces the violation it is reported (that, not TLC's trace, is the
   witness) and the switch is part of "the code as it stands";
3. spec -> code: RollLogCover.tla emits one label path + projected target state per model transition (and per step of
   -simulate behaviours of a large configuration); the maximal paths are replayed on real objects in a scratch
   directory with a controlled clock and compared node by node (directory contents, every object's file list / index /
   open file / offset, returned records); the Python monitor's verdict on every step must equal the truth value of the
   spec's step formulas on that transition;
4. code -> spec: seeded random long histories on the real code (equal / backward timestamps, deletions, reopen, tiny
   budgets) judged by the monitor; a sample is written as ndjson and validated by TLC against TraceRollLog.tla;
5. self-test: a corrupted expectation / a corrupted trace must be rejected.
"""
import json
import os
import re
import shutil
import tempfile
from concurrent.futures import ThreadPoolExecutor

from . import common
from .common import Report, run_tlc, SPEC, NCPU, MachineryError
from . import rolllog_harness as H

SPECDIR = os.path.join(SPEC, 'rolllog')
ALL_DEFECTS = ('overwrite', 'refresh_skip', 'frac_ts')
PROPS = ('C13_ExactlyOnceInOrder', 'C13_Budget', 'C13_NewestKept', 'C13_NoOverwrite')
PROOFS = {'quick': ['RollLog_quick_w', 'RollLog_quick_r1', 'RollLog_quick_r2', 'RollLog_quick_re', 'RollLog_quick_2r',
                    'RollLog_quick_bin', 'RollLog_quick_nf', 'RollLog_quick_nf2'],
          'thorough': ['RollLog_thorough_w', 'RollLog_thorough_r1', 'RollLog_thorough_r2', 'RollLog_thorough_re',
                       'RollLog_thorough_2r', 'RollLog_thorough_s3', 'RollLog_thorough_bin', 'RollLog_thorough_nf',
                       'RollLog_thorough_nf2']}
COVERS = {'quick': ['RollLogCover_r1', 'RollLogCover_w', 'RollLogCover_r2', 'RollLogCover_re', 'RollLogCover_bin',
                    'RollLogCover_nf'],
          'thorough': ['RollLogCover_r1', 'RollLogCover_w', 'RollLogCover_r2', 'RollLogCover_re', 'RollLogCover_bin',
                       'RollLogCover_nf']}
# designs the property rules out that were never in the code (non-vacuity of the formulas; a counterexample reproduced by the
# code is a violation): base configuration per switch
DESIGN_MUTATIONS = {'skip_empty': 'RollLogExhibitNF'}
LINE_MODES = ('txt', 'json', 'binl')


def tla_set(xs):
    return '{' + ', '.join(f'"{x}"' for x in sorted(xs)) + '}'


class SpecDir:
    """scratch copy of spec/rolllog in which derived configurations (other Defects, added PROPERTY lines) are written"""

    def __init__(self):
        self.d = tempfile.mkdtemp(prefix='verif_c13spec_')
        for f in os.listdir(SPECDIR):
            shutil.copy(os.path.join(SPECDIR, f), self.d)

    def derive(self, base, name, defects=None, props=False, emit=True, extra=''):
        s = open(os.path.join(self.d, base + '.cfg')).read()
        if defects is not None:
            s = re.sub(r'Defects = \{[^}]*\}', 'Defects = ' + tla_set(defects), s)
        if not emit:
            s = s.replace('ACTION_CONSTRAINT Emit\n', '')
        if props:
            s += ''.join(f'PROPERTY {p}\n' for p in PROPS)
        s += extra
        open(os.path.join(self.d, name + '.cfg'), 'w').write(s)
        return name

    def close(self):
        shutil.rmtree(self.d, ignore_errors=True)


def path_of_counterexample(out):
    """the history variable `path` of the last state of TLC's error trace"""
    ms = list(re.finditer(r'^/\\ path = (.*?)(?=^/\\ |^\s*$)', out, flags=re.M | re.S))
    if not ms:
        return None
    v = common.parse_value(ms[-1].group(1))
    return tuple(tuple(l) for l in v)


# ---------------------------------------------------------------------------------------------------------------------
# replay workers (process pool; every process has its own World)

def _variant(i, seed):
    """deterministic variation of the concrete rendering of a path: cell size, clock step, slack inside the
    equivalence class of file_size / total_size, utc"""
    k = (i * 7919 + seed * 104729) & 0xffff
    unit = (8, 9, 13, 128)[k % 4]          # 128: offsets of one, two and three digits (saved positions of different lengths)
    step = (1.0, 0.015625, 3600.0)[(k // 4) % 3]
    slack = ((k // 9) % unit if (k // 7) % 2 else 0, (k // 11) % unit if (k // 5) % 2 else 0)
    return unit, step, slack, bool((k // 13) % 2)


def _replay_chunk(args):
    lines, paths, modes, seed, corrupt = args
    common.use_repo()
    nodes = H.parse_emit('\n'.join(lines))
    if corrupt:
        # self-test: flip one expected value in every path's last node
        for p in paths:
            o = nodes[p]
            if o['dir']:
                o['dir'] = o['dir'][:-1]
            else:
                o['total'] = o['total'] + 1
    res = {'paths': 0, 'steps': 0, 'compared': 0, 'flag_checks': 0, 'drift': [], 'flagmis': [], 'viol': {},
           'nviol': 0, 'counts': {}, 'labels': {}}
    for i, p in enumerate(paths):
        for mode in modes[i % len(modes)]:
            unit, step, slack, utc = _variant(i, seed)
            r = H.replay_path(p, nodes, mode, unit=unit, step=step, slack=slack, utc=utc)
            res['paths'] += 1
            res['steps'] += r['steps']
            res['compared'] += r['compared']
            res['flag_checks'] += r.get('flag_checks', 0)
            if r['drift'] and len(res['drift']) < 5:
                res['drift'].append({'path': p, 'mode': mode, 'step': r['drift'][0], 'diff': r['drift'][1],
                                     'render': [unit, step, slack, utc]})
            elif r['drift']:
                res['drift'].append(None)
            if r.get('flag_mismatch'):
                res['flagmis'].append({'path': p, 'mode': mode, 'what': r['flag_mismatch'][1]})
            for (formula, text, sig, stepi) in r['violations']:
                res['nviol'] += 1
                key = json.dumps(sig, sort_keys=True)
                if key not in res['viol']:
                    res['viol'][key] = {'n': 0, 'text': text, 'sig': sig, 'formula': formula,
                                        'witness': {'labels': p[:stepi + 1], 'mode': mode,
                                                    'render': {'unit': unit, 'step': step, 'slack': slack, 'utc': utc}}}
                res['viol'][key]['n'] += 1
            for k, v in r['counts'].items():
                res['counts'][k] = res['counts'].get(k, 0) + v
            for k, v in r['labels'].items():
                res['labels'][k] = res['labels'].get(k, 0) + v
    return res


_LAB = re.compile(r'<<\\"(\w+)\\", \\"(\w+)\\", (\d+), (\d+)>>')


def split_emit(out):
    """TLC stdout -> {path tuple: raw line} without parsing the (large) Obs values"""
    lines = {}
    for line in out.splitlines():
        if not line.startswith('"<<<<'):
            continue
        end = line.index('>>>>, [') if '>>>>, [' in line else None
        if end is None:
            continue
        p = tuple((a, o, int(x), int(y)) for a, o, x, y in _LAB.findall(line[:end + 4]))
        lines[p] = line
    return lines


def replay_emitted(pool, lines, modes_rota, seed, sample=None, rng=None, corrupt=False, nchunks=None):
    """replay the maximal paths among `lines` (path -> raw Emit line).  modes_rota: list of tuples of modes; path i is
    replayed in the modes modes_rota[i % len]."""
    prefixes = {p[:-1] for p in lines if len(p) > 1}
    maximal = sorted(p for p in lines if p not in prefixes and len(p) > 1)
    total_max = len(maximal)
    if sample is not None and len(maximal) > sample:
        maximal = sorted(rng.sample(maximal, sample))
    nchunks = nchunks or max(1, min(len(maximal) // 40 + 1, NCPU * 4))
    size = (len(maximal) + nchunks - 1) // nchunks
    jobs = []
    for c in range(0, len(maximal), max(1, size)):
        ps = maximal[c:c + size]
        need = {}
        for p in ps:
            for k in range(2, len(p) + 1):
                q = p[:k]
                if q in lines:
                    need[q] = lines[q]
        jobs.append((list(need.values()), ps, modes_rota, seed, corrupt))
    results = list(pool.map(_replay_chunk, jobs))
    agg = {'paths': 0, 'steps': 0, 'compared': 0, 'flag_checks': 0, 'drift': [], 'ndrift': 0, 'flagmis': [], 'viol': {},
           'nviol': 0, 'counts': {}, 'labels': {}, 'maximal_total': total_max, 'maximal_replayed': len(maximal),
           'transitions': len(lines)}
    for r in results:
        for k in ('paths', 'steps', 'compared', 'flag_checks', 'nviol'):
            agg[k] += r[k]
        agg['ndrift'] += len(r['drift'])
        agg['drift'] += [d for d in r['drift'] if d][:3]
        agg['flagmis'] += r['flagmis'][:3]
        for key, v in r['viol'].items():
            if key not in agg['viol']:
                agg['viol'][key] = v
            else:
                agg['viol'][key]['n'] += v['n']
        for f in ('counts', 'labels'):
            for k, v in r[f].items():
                agg[f][k] = agg[f].get(k, 0) + v
    return agg


# ---------------------------------------------------------------------------------------------------------------------

def report_violations(rep, viol, where):
    """viol: {sig key: {n, text, sig, formula, witness}} - one rep.violation per kind of witness"""
    for key, v in sorted(viol.items()):
        w = dict(v['witness'])
        w.update({'found_by': where, 'formula': v['formula'], 'witnesses_of_this_kind': v['n'],
                  'replay_hint': 'labels are RollLog.tla labels (a, o, x, y); ./check C13 --replay <this file>'})
        rep.violation(f'{v["formula"]}: {v["text"]} [{where}; {v["n"]} witnesses of this kind]', w, v['sig'])
        kinds = rep.extra.setdefault('violation_kinds', {})
        kinds[f'{where}: {key}'] = v['n']


def run(ctx):
    import multiprocessing as mp
    common.use_repo()
    rep = Report(ctx)
    tier = 'quick' if ctx.quick else 'thorough'
    rep.rule = ('trace = one label path of RollLog.tla (or one random history) executed on real RollLog objects in a '
                'scratch directory; case = (path, mode); non-trivial = at least one write and one read')
    rep.assumptions = [
        'one cell of the specification = 8/9/13 bytes; record sizes are whole cells; file_size / total_size are taken '
        'from the whole equivalence class of byte values with the same behaviour for such sizes (file_size down to 1 '
        'byte, total_size smaller than one record)',
        'a write() and a read() are atomic with respect to each other (flush=True, the default); unflushed writer '
        'buffers are not modelled',
        'the log directory itself is never removed; file names are a function of the microsecond timestamp',
        'environment assumption of the intended design: a writer restarted on a directory from which the newest files '
        'were deleted is not handed a timestamp <= those deleted names',
        'a None from read() is only judged when the call left the reader unchanged (then polling again cannot help)']
    for f in os.listdir(os.path.join(common.OUT, 'replays', ctx.prop)) \
            if os.path.isdir(os.path.join(common.OUT, 'replays', ctx.prop)) else ():
        if f.startswith(f'{ctx.tier}_{ctx.seed}_'):
            os.unlink(os.path.join(common.OUT, 'replays', ctx.prop, f))     # witnesses of an earlier run
    sd = SpecDir()
    pool = mp.get_context('fork').Pool(NCPU)
    tpool = ThreadPoolExecutor(max_workers=12)
    r = common.rng(ctx, 'c13')
    try:
        nw = max(2, NCPU // 4)
        # ---- 1. design-level proofs, started first, collected later
        proof_futs = [(n, tpool.submit(run_tlc, sd.d, n, 'RollLog', workers=nw, timeout=3000)) for n in PROOFS[tier]]
        # ---- 2. each defect switch: TLC counterexample -> replay on the code
        present = []
        dfuts = []
        for d in ALL_DEFECTS:
            # "overwrite": that switch alone.  Any other: all switches on (labels then mean for the model what they
            # mean for the code) in the sub-specification SpecM whose roll-overs only go to strictly newer names.
            n = sd.derive('RollLogExhibitW' if d == 'frac_ts' else 'RollLogExhibit', f'Defect_{d}',
                          defects=[d] if d == 'overwrite' else ALL_DEFECTS)
            if d != 'overwrite':
                cf = os.path.join(sd.d, n + '.cfg')
                txt = open(cf).read().replace('SPECIFICATION SpecC', 'SPECIFICATION SpecM')
                open(cf, 'w').write(txt)
            dfuts.append((d, n, tpool.submit(run_tlc, sd.d, n, 'RollLogCover', workers=nw, timeout=1200)))
        for d, n, fut in dfuts:
            res = fut.result()
            rep.add_tlc(n, res, f'Defects = {{"{d}"}}: TLC must exhibit the counterexample')
            if res.error or res.timed_out:
                raise MachineryError(f'TLC failed on {n}: {res.error or "timeout"}')
            if not res.violated:
                raise MachineryError(f'the specification with Defects = {{{d}}} no longer violates C13: the defect '
                                     f'switch and the property formulas are out of sync')
            path = path_of_counterexample(res.out)
            if not path:
                raise MachineryError(f'no path in the counterexample of {n}\n{res.out[-2000:]}')
            hit = False
            for mode in H.MODES:
                rr = H.replay_path(path, {}, mode)
                rep.traces += 1
                rep.case(('cex', d, mode))
                for (formula, text, sig, stepi) in rr['violations']:
                    hit = True
                    w = {'labels': path[:stepi + 1], 'mode': mode, 'render': {'unit': 8, 'step': 1.0},
                         'found_by': f'TLC counterexample for {res.violated} with Defects={{{d}}} replayed on the code',
                         'formula': formula}
                    rep.violation(f'{formula}: {text} [TLC counterexample of the "{d}" switch reproduced by the real '
                                  f'code, mode {mode}]', w, sig)
                    rep.sample({'defect': d, 'tlc_property': res.violated, 'labels': path, 'mode': mode,
                                'real_code': text}, 8)
            if hit:
                present.append(d)
            else:
                rep.note(f'counterexample of defect switch "{d}" is not reproduced by the code: the code does not '
                         f'have this deviation')
        rep.extra['defects_of_the_code_as_it_stands'] = present
        for d, base in DESIGN_MUTATIONS.items():
            n = sd.derive(base, f'Mutation_{d}', defects=[d])
            res = run_tlc(sd.d, n, 'RollLogCover', workers=nw, timeout=1200)
            rep.add_tlc(n, res, f'Defects = {{"{d}"}} (a design the property rules out): TLC must exhibit the counterexample')
            if res.error or res.timed_out:
                raise MachineryError(f'TLC failed on {n}: {res.error or "timeout"}')
            path = path_of_counterexample(res.out) if res.violated else None
            if not path:
                raise MachineryError(f'the specification with Defects = {{{d}}} satisfies the C13 formulas: they are vacuous there')
            got = []
            for mode in LINE_MODES:
                rr = H.replay_path(path, {}, mode)
                rep.traces += 1
                rep.case(('mut', d, mode))
                got += [(mode, v) for v in rr['violations']]
            for mode, (formula, text, sig, stepi) in got[:1]:
                rep.violation(f'{formula}: {text} [TLC counterexample of the design "{d}" reproduced by the real code, mode {mode}]',
                              {'labels': path[:stepi + 1], 'mode': mode, 'render': {'unit': 8, 'step': 1.0},
                               'found_by': f'design mutation {d}', 'formula': formula}, sig)
            rep.extra.setdefault('design_mutations', {})[d] = {
                'tlc': res.violated, 'labels': [list(l) for l in path],
                'real_code': 'reproduces it' if got else 'does not reproduce it (the code does not have this design)'}
        # ---- 3. spec -> code: transition cover with Defects = the code as it stands
        cov_futs = []
        for base in COVERS[tier]:
            n = sd.derive(base, base + '_asis', defects=present)
            cov_futs.append((base, n, tpool.submit(run_tlc, sd.d, n, 'RollLogCover', workers=nw, timeout=3000)))
        sim_n = sd.derive('RollLogSim', 'RollLogSim_asis', defects=present)
        nsim = 300 if ctx.quick else 1000         # per TLC worker
        sim_fut = tpool.submit(run_tlc, sd.d, sim_n, 'RollLogCover', workers=nw, timeout=3000,
                               simulate=f'num={nsim}', depth=30, seed=ctx.seed + 13)
        per_cfg_sample = 2500 if ctx.quick else None
        cover_stats = {}
        allviol = {}
        ndrift = 0

        def absorb(name, agg, where):
            nonlocal ndrift
            cover_stats[name] = {k: agg[k] for k in ('transitions', 'maximal_total', 'maximal_replayed', 'paths',
                                                     'steps', 'compared', 'flag_checks', 'ndrift', 'nviol')}
            cover_stats[name]['labels'] = agg['labels']
            cover_stats[name]['monitor_counts'] = agg['counts']
            rep.traces += agg['paths']
            rep.evaluations += agg['paths']
            for d in agg['drift'][:3]:
                rep.drift_note(f'{name}: {d["mode"]} path {list(d["path"])} step {d["step"]}: {d["diff"]}')
            ndrift += agg['ndrift']
            if agg['flagmis']:
                f = agg['flagmis'][0]
                raise MachineryError(f'the Python monitor and the spec\'s step formulas disagree on a conforming step '
                                     f'({name}, {f["mode"]}, {list(f["path"])}): {f["what"]}')
            for key, v in agg['viol'].items():
                if key not in allviol:
                    allviol[key] = dict(v, where=where)
                else:
                    allviol[key]['n'] += v['n']

        first_lines = None
        for base, n, fut in cov_futs:
            res = fut.result()
            if not res.ok:
                raise MachineryError(f'TLC failed on {n}: {res.error or res.violated or "timeout"}')
            rep.add_tlc(n, res, 'path cover: one label path + projected target state per transition')
            lines = split_emit(res.out)
            if not lines:
                raise MachineryError(f'{n} emitted no transitions')
            rota = [('bin',)] if base.endswith('_bin') else \
                ([(m,) for m in LINE_MODES] if ctx.quick else [LINE_MODES])
            agg = replay_emitted(pool, lines, rota, ctx.seed, sample=per_cfg_sample, rng=r)
            absorb(base, agg, f'path cover {base}')
            if first_lines is None:
                first_lines = lines
        res = sim_fut.result()
        if res.error or res.timed_out:
            raise MachineryError(f'TLC -simulate failed on {sim_n}: {res.error or "timeout"}')
        rep.add_tlc(sim_n, res, f'-simulate num={nsim} depth=30: sampled behaviours of the large configuration')
        lines = split_emit(res.out)
        agg = replay_emitted(pool, lines, [(m,) for m in LINE_MODES], ctx.seed, rng=r)
        absorb('RollLogSim', agg, 'simulated behaviours RollLogSim')
        rep.extra['cover'] = cover_stats
        rep.distinct |= {f'{k}:{i}' for k, v in cover_stats.items() for i in range(v['maximal_replayed'])}
        report_violations(rep, allviol, 'spec->code replay')
        # ---- 5a. self-test: corrupted expectations must be noticed
        st = replay_emitted(pool, first_lines, [('txt',)], ctx.seed, sample=60, rng=common.rng(ctx, 'st'), corrupt=True,
                            nchunks=4)
        if st['ndrift'] < st['paths']:
            raise MachineryError(f'self-test: only {st["ndrift"]} of {st["paths"]} corrupted expectations were noticed')
        rep.extra['selftest_corrupted_expectations_rejected'] = f'{st["ndrift"]}/{st["paths"]}'
        # ---- 4. code -> spec: random histories
        from . import c13_hist
        c13_hist.run_histories(ctx, rep, pool, sd, present, nw)
        # ---- 1 (collect)
        for n, fut in proof_futs:
            res = fut.result()
            common.tlc_must_pass(res, n)
            rep.add_tlc(n, res, 'Defects = {}: the intended design satisfies the four C13 formulas')
        rep.extra['drifting_paths'] = ndrift
        rep.exhaustive = (not ctx.quick) and ndrift == 0
        if ndrift:
            rep.note(f'{ndrift} replayed paths diverge from the specification: the design-level result does not '
                     f'transfer to those behaviours')
        return rep.finish()
    finally:
        pool.terminate()
        tpool.shutdown(wait=False, cancel_futures=True)
        sd.close()


def selftest(ctx=None):
    """The binding must notice a wrong expectation (BUILDER_BRIEF 9): (a) the projected target state of the last node of
    each of 40 cover paths is corrupted - every replay must report drift; (b) the monitor is told a wrong record size
    for one record of a clean history - it must report a torn chunk; (c) it is told nothing wrong - it must be silent.
    run() performs (a) on every run and the trace variant of it (a corrupted recorded trace must be rejected by TLC)."""
    import multiprocessing as mp
    ctx = ctx or common.Ctx('C13')
    common.use_repo()
    sd = SpecDir()
    pool = mp.get_context('fork').Pool(4)
    try:
        res = run_tlc(sd.d, 'RollLogCover_r1', 'RollLogCover', workers=4, timeout=600)
        if not res.ok:
            raise MachineryError(f'selftest: TLC failed: {res.error or res.violated}')
        lines = split_emit(res.out)
        st = replay_emitted(pool, lines, [('txt',)], 0, sample=40, rng=common.rng(ctx, 'selftest'), corrupt=True,
                            nchunks=4)
        ok_a = st['ndrift'] == st['paths'] > 0
        out = {}
        for lie in (True, False):
            with H.World('txt') as world:
                rp = H.Replayer(world, 4, 100, readers=('r1',), autoref=('r1',))
                for lab in (('write', 'w', 2, 1), ('write', 'w', 1, 0), ('read', 'r1', 0, 0)):
                    rp.do(lab)
                    if lie and lab[0] == 'write':
                        rp.mon.recsz[1] = 3
                out[lie] = [v[2].get('what') for v in rp.mon.violations]
        ok_b, ok_c = out[True] == ['torn'], out[False] == []
        print(f'selftest C13: corrupted expectations rejected {st["ndrift"]}/{st["paths"]}; monitor with a wrong record '
              f'size: {out[True]}; monitor on the clean history: {out[False]}')
        return 0 if (ok_a and ok_b and ok_c) else 2
    finally:
        pool.terminate()
        sd.close()


def replay(ctx):
    """re-run one witness: the label path of a replay file on the real code, printing what the monitor says"""
    common.use_repo()
    w = json.load(open(ctx.replay))
    wit = w['witness']
    print(json.dumps({'what': w['what'], 'signature': w['signature']}, indent=1))
    if 'labels' in wit:
        path = tuple(tuple(l) for l in wit['labels'])
        rd = wit.get('render', {})
        rr = H.replay_path(path, {}, wit.get('mode', 'txt'), unit=rd.get('unit', 8), step=rd.get('step', 1.0),
                           slack=tuple(rd.get('slack', (0, 0))), utc=rd.get('utc', True))
    else:
        from . import c13_hist
        rr = c13_hist.rerun(wit)
    for v in rr['violations']:
        print('VIOLATION-REPRODUCED', v[0], v[1], v[2])
    return 1 if rr['violations'] else 0

------------------------------- MODULE Xform -------------------------------
(* C17 - reference specification of the image transforms of the Util filter and of the video reader's size options.

   Code under test (openfilter/filter_runtime/filters/):
     util.py      Util.execute_xforms (l.221-254), execute_xform_size (l.256-300), execute_xform_box (l.302-317)
     video_in.py  VideoReader.thread_reader (l.337-403): options `maxsize` and `resize`

   What is modelled
     * the size arithmetic, branch by branch as the code computes it, over exact integers/rationals
       (int(a * b / c) of the code is Floor(a*b/c); the float scale factor `s = min(W/w, H/h)` is an exact rational here);
     * images as functions [1..h] -> [1..w] -> pixel id (every pixel of the input frame has its own id), the five
       flips/rotations as index permutations, the channel swaps as a bit on the pixel id, the box as a rectangle
       predicate; interpolated values are "not judged" (pixel 0);
     * chains of transforms (Util applies its `xforms` list in order to one frame).

   Deliberate deviations of the code from the intended design are switches in CONSTANT Defects:
     "zero_dim"          no lower clamp: an aspect-keeping scale may truncate a dimension to 0 and OpenCV raises
                         (util.py l.274/276/278-279, video_in.py l.368-373, l.382-386)
     "float_scale"       the both-sides branch multiplies by the *float* s; when the exact product is an integer n the
                         float product may be n - epsilon and int() yields n - 1 (e.g. 49 * (1/49) < 1)
     "vresize_overshoot" video reader `resize=WxH` (aspect form): the "one side already equal" shortcuts (l.381-384)
                         scale by the *other* side's ratio even when that enlarges beyond the box (2x4 in 4x4 -> 4x8)
   With Defects = {} the module is the intended design and TLC proves every law on every case (Xform_quick.cfg,
   Xform_thorough.cfg); with "zero_dim" or "vresize_overshoot" switched on TLC exhibits the counterexample
   (Xform_d_zero.cfg: InvNoFail, Xform_d_vresize.cfg: InvVResizeFit); with only "float_scale" on every law still holds
   (Xform_d_float.cfg) - the clamp of the intended design also absorbs the float truncation.  The vectors carry both the
   intended result and the result of the code as it stands (CONSTANT AsIs); the conformance harness (vlib/c17.py)
   executes every case against the real code.

   The state space is the set of cases (one state per case, see the end of the module); the laws are invariants. *)
EXTENDS Integers, Sequences, FiniteSets, TLC, Json, IOUtils, SequencesExt

CONSTANTS MaxDim,      \* image sides 1..MaxDim in the size cases
          MaxBound,    \* bounds 1..MaxBound in the size cases
          MaxImg,      \* image sides 1..MaxImg in the chain cases (pixel level)
          Chain3Fmt,   \* BOOLEAN: chains of three also range over the format conversions
          Defects,     \* deviations switched on for the laws checked in this run
          AsIs         \* deviations present in the code as it stands (expected result of the conformance vectors)

KnownDefects == {"zero_dim", "float_scale", "vresize_overshoot"}
ASSUME Defects \subseteq KnownDefects /\ AsIs \subseteq KnownDefects

PxLimit == 100         \* images with more pixels are handled at size level only (px = <<>>)
Den     == 16          \* box coordinates are given in sixteenths of the frame (exact in binary floating point)

Lo(a, b) == IF a <= b THEN a ELSE b
Hi(a, b) == IF a >= b THEN a ELSE b
Abs(x)   == IF x >= 0 THEN x ELSE 0 - x

RECURSIVE Gcd(_, _)
Gcd(a, b) == IF b = 0 THEN a ELSE Gcd(b, a % b)
RECURSIVE IsPow2(_)
IsPow2(n) == n = 1 \/ (n % 2 = 0 /\ IsPow2(n \div 2))
Dyadic(num, den) == IsPow2(den \div Gcd(num, den))     \* num/den is exact in binary floating point

(* ------------------------------------------------------------------------------------------------------------------
   Size arithmetic.  Every operator returns the SET of sizes <<width, height>> the transform may produce (a singleton
   except under "float_scale"); a size with a dimension < 1 means cv2.resize raises.                                  *)

(* int(x * s) with s = B / y a float (util.py l.278-279, l.291-292; video_in.py l.372-373, l.386).  Exact value x*B/y. *)
Trunc(D, x, B, y) ==
  LET n == (x * B) \div y IN
  IF "float_scale" \in D /\ (x * B) % y = 0 /\ ~Dyadic(B, y) THEN {n, n - 1} ELSE {n}

(* the intended design clamps computed dimensions to >= 1 (proposed repair) *)
Clamp(D, s) == IF "zero_dim" \in D THEN s ELSE <<Hi(1, s[1]), Hi(1, s[2])>>

(* util.py l.267-269: resize ignores the aspect flag - always exactly the requested size *)
UtilResize(w, h, W, H) == {<<W, H>>}

(* util.py l.272-279 / video_in.py l.365-373: the aspect-keeping branch, entered when at least one side is over *)
MaxScaled(D, w, h, W, H) ==
  LET hgt == h > H
      wgt == w > W
  IN IF ~hgt THEN {<<w, (h * W) \div w>>}                                              \* only width over:  l.273-274
     ELSE IF ~wgt THEN {<<(w * H) \div h, h>>}                                         \* only height over: l.275-276
     ELSE IF W * h <= H * w                                                            \* both over: s = min(W/w, H/h)
          THEN {<<a, b>> : a \in Trunc(D, w, W, w), b \in Trunc(D, h, W, w)}           \*   s = W/w
          ELSE {<<a, b>> : a \in Trunc(D, w, H, h), b \in Trunc(D, h, H, h)}           \*   s = H/h

Maxsize(D, w, h, W, H, asp) ==
  LET raw == IF asp /\ (h > H \/ w > W) THEN MaxScaled(D, w, h, W, H) ELSE {<<w, h>>}
  IN  {Clamp(D, <<Lo(s[1], W), Lo(s[2], H)>>) : s \in raw}                             \* l.281-282 / video l.375

(* util.py l.285-295 *)
MinScaled(D, w, h, W, H) ==
  LET hlt == h < H
      wlt == w < W
  IN IF ~hlt THEN {<<w, (h * W) \div w>>}                                              \* only width under:  l.286-287
     ELSE IF ~wlt THEN {<<(w * H) \div h, h>>}                                         \* only height under: l.288-289
     ELSE IF W * h >= H * w                                                            \* both under: s = max(W/w, H/h)
          THEN {<<a, b>> : a \in Trunc(D, w, W, w), b \in Trunc(D, h, W, w)}
          ELSE {<<a, b>> : a \in Trunc(D, w, H, h), b \in Trunc(D, h, H, h)}

Minsize(D, w, h, W, H, asp) ==
  LET raw == IF asp /\ (h < H \/ w < W) THEN MinScaled(D, w, h, W, H) ELSE {<<w, h>>}
  IN  {Clamp(D, <<Hi(s[1], W), Hi(s[2], H)>>) : s \in raw}                             \* l.294-295

(* video_in.py l.378-389.  Intended: the largest aspect-preserving size inside W x H; nothing to do when equal. *)
FitInside(D, w, h, W, H) ==
  IF W * h <= H * w
  THEN {<<a, b>> : a \in Trunc(D, w, W, w), b \in Trunc(D, h, W, w)}
  ELSE {<<a, b>> : a \in Trunc(D, w, H, h), b \in Trunc(D, h, H, h)}

VResize(D, w, h, W, H, asp) ==
  LET over == "vresize_overshoot" \in D
      raw  == IF w = W /\ h = H THEN {<<w, h>>}                                        \* l.379: nothing differs
              ELSE IF ~asp THEN {<<W, H>>}                                             \* l.380-381
              ELSE IF h = H /\ (w > W \/ over) THEN {<<W, (h * W) \div w>>}            \* l.382-383 (as coded: any w)
              ELSE IF w = W /\ (h > H \/ over) THEN {<<(w * H) \div h, H>>}            \* l.384-385 (as coded: any h)
              ELSE FitInside(D, w, h, W, H)                                            \* l.386
  IN  {Clamp(D, s) : s \in raw}

SizeActs == {"resize", "maxsize", "minsize"}
Sizes(D, site, xf, w, h) ==
  CASE xf.act = "resize"  -> IF site = "video" THEN VResize(D, w, h, xf.W, xf.H, xf.asp) ELSE UtilResize(w, h, xf.W, xf.H)
    [] xf.act = "maxsize" -> Maxsize(D, w, h, xf.W, xf.H, xf.asp)
    [] xf.act = "minsize" -> Minsize(D, w, h, xf.W, xf.H, xf.asp)

(* ------------------------------------------------------------------------------------------------------------------
   Images.  [w, h, fmt, px]: px[r][c] is
        0              not judged (interpolated by a resize or a conversion to GRAY)
        2*id + s       the input pixel id = (r0-1)*w0 + c0, s = 1 iff its three channels are reversed w.r.t. the input
      -(2*j + s)       drawn by the box that is the j-th transform of the chain (colour Cols[j]), s as above
   px = <<>> for frames above PxLimit (size level only) and for the failed frame (a dimension < 1).                  *)
Fmts == {"GRAY", "BGR", "RGB"}

Px0(w, h) == IF w * h <= PxLimit THEN [r \in 1..h |-> [c \in 1..w |-> 2 * ((r - 1) * w + c)]] ELSE <<>>
Img0(w, h, fmt) == [w |-> w, h |-> h, fmt |-> fmt, px |-> Px0(w, h)]

Failed(img)  == img.w < 1 \/ img.h < 1
Tracked(img) == img.px # <<>>

SwapPix(p) == IF p = 0 THEN 0
              ELSE IF p > 0 THEN (IF p % 2 = 0 THEN p + 1 ELSE p - 1)
              ELSE (IF (0 - p) % 2 = 0 THEN p - 1 ELSE p + 1)

Remap(img, ow, oh, F(_, _)) ==       \* new frame ow x oh whose pixel (r, c) is F(r, c)
  [w |-> ow, h |-> oh, fmt |-> img.fmt,
   px |-> IF Tracked(img) THEN [r \in 1..oh |-> [c \in 1..ow |-> F(r, c)]] ELSE <<>>]

(* util.py l.227-236: cv2.flip(.., 1 / 0 / -1), cv2.rotate(.., CLOCKWISE / COUNTERCLOCKWISE) *)
FlipX(img)    == Remap(img, img.w, img.h, LAMBDA r, c : img.px[r][img.w + 1 - c])
FlipY(img)    == Remap(img, img.w, img.h, LAMBDA r, c : img.px[img.h + 1 - r][c])
FlipBoth(img) == Remap(img, img.w, img.h, LAMBDA r, c : img.px[img.h + 1 - r][img.w + 1 - c])
RotCW(img)    == Remap(img, img.h, img.w, LAMBDA r, c : img.px[img.h + 1 - c][r])
RotCCW(img)   == Remap(img, img.h, img.w, LAMBDA r, c : img.px[c][img.w + 1 - r])

(* util.py l.237-244 and Frame.rgb/.bgr/.gray (frame.py l.362-417): RGB <-> BGR reverses the channels, to GRAY weighs
   them (not judged), GRAY -> colour replicates the value *)
MapPix(img, fmt, F(_)) ==
  [w |-> img.w, h |-> img.h, fmt |-> fmt,
   px |-> IF Tracked(img) THEN [r \in 1..img.h |-> [c \in 1..img.w |-> F(img.px[r][c])]] ELSE <<>>]
SwapRGB(img) == IF img.fmt = "GRAY" THEN img ELSE MapPix(img, img.fmt, SwapPix)
FmtTo(img, fmt) ==
  IF img.fmt = fmt THEN img
  ELSE IF fmt = "GRAY" THEN MapPix(img, "GRAY", LAMBDA p : 0)
  ELSE IF img.fmt = "GRAY" THEN MapPix(img, fmt, LAMBDA p : p)
  ELSE MapPix(img, fmt, SwapPix)

(* util.py l.302-317: cv2.rectangle(image, (int(w*x0), int(h*y0)), (int(w*x1), int(h*y1)), c, -1) - both corners are
   inclusive, clipped to the frame.  xf.b = <<x0, y0, width, height>> in 1/Den of the frame. *)
InRect(xf, w, h, r, c) ==
  /\ (w * xf.b[1]) \div Den <= c - 1 /\ c - 1 <= (w * (xf.b[1] + xf.b[3])) \div Den
  /\ (h * xf.b[2]) \div Den <= r - 1 /\ r - 1 <= (h * (xf.b[2] + xf.b[4])) \div Den
Box(img, xf, j) ==
  Remap(img, img.w, img.h, LAMBDA r, c : IF InRect(xf, img.w, img.h, r, c) THEN 0 - 2 * j ELSE img.px[r][c])

Palette == << <<255, 0, 0>>, <<18, 52, 87>>, <<255, 0, 17>> >>      \* #f00  #123457  #ff0011 ("#f01")
Rgb(col) == IF col = 0 THEN <<0, 0, 0>> ELSE Palette[col]            \* no colour given: black (l.305-306)
BoxColour(fmt, col) ==                                               \* l.305-310: the colour in the frame's own order
  LET k == Rgb(col) IN
  IF fmt = "RGB" THEN k
  ELSE IF fmt = "BGR" THEN <<k[3], k[2], k[1]>>
  ELSE LET g == (k[1] + k[2] + k[3] + 1) \div 3 IN <<g, g, g>>       \* round(sum / 3); sum/3 is never x.5

Resized(img, s) ==
  IF s = <<img.w, img.h>> THEN img                                   \* l.297: same size - the frame is passed through
  ELSE IF s[1] < 1 \/ s[2] < 1 THEN [w |-> s[1], h |-> s[2], fmt |-> img.fmt, px |-> <<>>]
  ELSE [w |-> s[1], h |-> s[2], fmt |-> img.fmt,
        px |-> IF Tracked(img) /\ s[1] * s[2] <= PxLimit THEN [r \in 1..s[2] |-> [c \in 1..s[1] |-> 0]] ELSE <<>>]

(* one transform (the j-th of its chain) on one frame: the set of possible results; a failed frame stays failed *)
Apply(D, site, xf, img, j) ==
  IF Failed(img) THEN {img}
  ELSE CASE xf.act = "flipx"    -> {FlipX(img)}
         [] xf.act = "flipy"    -> {FlipY(img)}
         [] xf.act = "flipboth" -> {FlipBoth(img)}
         [] xf.act = "rotcw"    -> {RotCW(img)}
         [] xf.act = "rotccw"   -> {RotCCW(img)}
         [] xf.act = "swaprgb"  -> {SwapRGB(img)}
         [] xf.act = "fmtrgb"   -> {FmtTo(img, "RGB")}
         [] xf.act = "fmtbgr"   -> {FmtTo(img, "BGR")}
         [] xf.act = "fmtgray"  -> {FmtTo(img, "GRAY")}
         [] xf.act = "box"      -> {Box(img, xf, j)}
         [] xf.act \in SizeActs -> {Resized(img, s) : s \in Sizes(D, site, xf, img.w, img.h)}

(* Trace(D, c)[k] = the set of frames the chain of case c may have produced after its first k transforms *)
RECURSIVE TraceFrom(_, _, _, _, _)
TraceFrom(D, site, xs, S, j) ==
  IF j > Len(xs) THEN <<>>
  ELSE LET S1 == UNION {Apply(D, site, xs[j], i, j) : i \in S}
       IN  <<S1>> \o TraceFrom(D, site, xs, S1, j + 1)
Trace(D, c) == TraceFrom(D, c.site, c.xs, {Img0(c.w, c.h, c.fmt)}, 1)

(* all (input frame, transform, index, output frame) steps of a case *)
Steps(D, c) ==
  LET T == Trace(D, c)
      In(j) == IF j = 1 THEN {Img0(c.w, c.h, c.fmt)} ELSE T[j - 1]
  IN  UNION {UNION {{[xf |-> c.xs[j], j |-> j, in |-> i, out |-> o] : o \in Apply(D, c.site, c.xs[j], i, j)}
                    : i \in {i0 \in In(j) : ~Failed(i0)}} : j \in 1..Len(c.xs)}

(* ------------------------------------------------------------------------------------------------------------------
   The laws of C17, per step st = [xf, j, in, out] with a valid (not failed) input frame.                            *)
AspectWithin1(w, h, a, b) ==       \* \E s > 0 : |a - s*w| <= 1 /\ |b - s*h| <= 1
  (a - 1) * h <= (b + 1) * w /\ (b - 1) * w <= (a + 1) * h
NearLargestInside(w, h, W, H, a, b) ==     \* within one pixel of s*(w, h), s = min(W/w, H/h)
  IF W * h <= H * w THEN Abs(a - W) <= 1 /\ Abs(b * w - h * W) <= w
                    ELSE Abs(a * h - w * H) <= h /\ Abs(b - H) <= 1

IsAct(st, a) == st.xf.act = a
Flat(img) == [k \in 1..(img.w * img.h) |-> img.px[((k - 1) \div img.w) + 1][((k - 1) % img.w) + 1]]
SameBag(s, t) == Len(s) = Len(t) /\ \A v \in ToSet(s) : Cardinality({i \in DOMAIN s : s[i] = v}) = Cardinality({i \in DOMAIN t : t[i] = v})

LawNoFail(st)        == st.out.w >= 1 /\ st.out.h >= 1
LawResizeExact(site, st) ==
  IsAct(st, "resize") /\ (site = "util" \/ ~st.xf.asp) /\ ~Failed(st.out) => st.out.w = st.xf.W /\ st.out.h = st.xf.H
LawVResizeFit(site, st) ==
  IsAct(st, "resize") /\ site = "video" /\ st.xf.asp /\ ~Failed(st.out) =>
     /\ st.out.w <= st.xf.W /\ st.out.h <= st.xf.H
     /\ NearLargestInside(st.in.w, st.in.h, st.xf.W, st.xf.H, st.out.w, st.out.h)
LawMaxBound(st)      == IsAct(st, "maxsize") => st.out.w <= st.xf.W /\ st.out.h <= st.xf.H
LawMaxNoEnlarge(st)  == IsAct(st, "maxsize") => st.out.w <= st.in.w /\ st.out.h <= st.in.h
LawMinBound(st)      == IsAct(st, "minsize") => st.out.w >= st.xf.W /\ st.out.h >= st.xf.H
LawMinNoShrink(st)   == IsAct(st, "minsize") => st.out.w >= st.in.w /\ st.out.h >= st.in.h
LawAspectX(st)       == st.xf.act \in {"maxsize", "minsize"} /\ st.xf.asp /\ ~Failed(st.out) =>
                          AspectWithin1(st.in.w, st.in.h, st.out.w, st.out.h)
LawIndependentPlus(st) ==
  /\ IsAct(st, "maxsize") /\ ~st.xf.asp => st.out.w = Lo(st.in.w, st.xf.W) /\ st.out.h = Lo(st.in.h, st.xf.H)
  /\ IsAct(st, "minsize") /\ ~st.xf.asp => st.out.w = Hi(st.in.w, st.xf.W) /\ st.out.h = Hi(st.in.h, st.xf.H)
LawPermutation(st) ==
  /\ st.xf.act \in {"flipx", "flipy", "flipboth"} => st.out.w = st.in.w /\ st.out.h = st.in.h
  /\ st.xf.act \in {"rotcw", "rotccw"} => st.out.w = st.in.h /\ st.out.h = st.in.w
  /\ st.xf.act \in {"flipx", "flipy", "flipboth", "rotcw", "rotccw"} /\ Tracked(st.in) =>
       st.out.fmt = st.in.fmt /\ SameBag(Flat(st.in), Flat(st.out))
LawFmtKeepsSize(st) ==
  st.xf.act \in {"swaprgb", "fmtrgb", "fmtbgr", "fmtgray"} => st.out.w = st.in.w /\ st.out.h = st.in.h
LawBox(st) ==
  IsAct(st, "box") =>
    /\ st.out.w = st.in.w /\ st.out.h = st.in.h /\ st.out.fmt = st.in.fmt
    /\ Tracked(st.in) => \A r \in 1..st.in.h, c \in 1..st.in.w :
         IF InRect(st.xf, st.in.w, st.in.h, r, c) THEN st.out.px[r][c] = 0 - 2 * st.j
                                                   ELSE st.out.px[r][c] = st.in.px[r][c]

(* algebra of the permutations, for every tracked frame reached in a case (and for every small frame: ASSUME below) *)
Algebra(i) ==
  /\ FlipX(FlipX(i)) = i /\ FlipY(FlipY(i)) = i /\ FlipBoth(FlipBoth(i)) = i
  /\ RotCW(RotCCW(i)) = i /\ RotCCW(RotCW(i)) = i
  /\ FlipBoth(i) = FlipX(FlipY(i)) /\ FlipBoth(i) = FlipY(FlipX(i))
  /\ RotCW(RotCW(i)) = FlipBoth(i)
  /\ SwapRGB(SwapRGB(i)) = i
ASSUME \A w \in 1..(MaxImg + 1), h \in 1..(MaxImg + 1), f \in Fmts : Algebra(Img0(w, h, f))
ASSUME \A f \in {"RGB", "BGR"}, col \in 0..Len(Palette) :     \* the colour is the requested RGB in the frame's own order
         LET k == BoxColour(f, col) IN (IF f = "RGB" THEN k ELSE <<k[3], k[2], k[1]>>) = Rgb(col)

(* ------------------------------------------------------------------------------------------------------------------
   Cases.  A case is [site, fmt, w, h, xs]; a transform is [act, W, H, asp, b, col] (uniform fields).                *)
XF(act) == [act |-> act, W |-> 0, H |-> 0, asp |-> TRUE, b |-> <<0, 0, 0, 0>>, col |-> 0]
SizeXF(act, W, H, asp) == [act |-> act, W |-> W, H |-> H, asp |-> asp, b |-> <<0, 0, 0, 0>>, col |-> 0]
BoxXF(b, col) == [act |-> "box", W |-> 0, H |-> 0, asp |-> TRUE, b |-> b, col |-> col]

(* Cases are addressed by an index (mixed-radix decoding) instead of being collected in one big set: TLC sorts large
   sets of records in quadratic time. *)
Digit(k, below, radix) == (k \div below) % radix

SiteActs == << <<"util", "resize">>, <<"util", "maxsize">>, <<"util", "minsize">>, <<"video", "maxsize">>, <<"video", "resize">> >>
NSize == Len(SiteActs) * 2 * MaxDim * MaxDim * MaxBound * MaxBound
SizeCaseAt(k) ==      \* k \in 0..NSize-1: (site, act) x form x w x h x W x H
  LET H  == Digit(k, 1, MaxBound) + 1
      W  == Digit(k, MaxBound, MaxBound) + 1
      h  == Digit(k, MaxBound * MaxBound, MaxDim) + 1
      w  == Digit(k, MaxBound * MaxBound * MaxDim, MaxDim) + 1
      x  == Digit(k, MaxBound * MaxBound * MaxDim * MaxDim, 2) = 0
      sa == SiteActs[Digit(k, MaxBound * MaxBound * MaxDim * MaxDim * 2, Len(SiteActs)) + 1]
  IN [site |-> sa[1], fmt |-> "BGR", w |-> w, h |-> h, xs |-> <<SizeXF(sa[2], W, H, x)>>]

(* the alphabet of the enumerated chains: 5 permutations, 4 format conversions, 4 boxes, 5 size transforms *)
Alphabet == << XF("flipx"), XF("flipy"), XF("flipboth"), XF("rotcw"), XF("rotccw"),
               XF("swaprgb"), XF("fmtrgb"), XF("fmtbgr"), XF("fmtgray"),
               BoxXF(<<0, 0, 8, 8>>, 1), BoxXF(<<4, 8, 8, 4>>, 2), BoxXF(<<8, 8, 12, 12>>, 0), BoxXF(<<5, 3, 0, 7>>, 3),
               SizeXF("resize", 2, 3, TRUE), SizeXF("maxsize", 2, 2, TRUE), SizeXF("maxsize", 3, 1, FALSE),
               SizeXF("minsize", 3, 4, TRUE), SizeXF("minsize", 2, 5, FALSE) >>
NA  == Len(Alphabet)
NA3 == IF Chain3Fmt THEN 9 ELSE 5            \* chains of three range over the first NA3 letters
NChains == NA + NA * NA + NA3 * NA3 * NA3
ChainAt(k) ==         \* k \in 0..NChains-1
  IF k < NA THEN <<Alphabet[k + 1]>>
  ELSE IF k < NA + NA * NA
       THEN LET j == k - NA IN <<Alphabet[Digit(j, NA, NA) + 1], Alphabet[Digit(j, 1, NA) + 1]>>
       ELSE LET j == k - NA - NA * NA
            IN <<Alphabet[Digit(j, NA3 * NA3, NA3) + 1], Alphabet[Digit(j, NA3, NA3) + 1], Alphabet[Digit(j, 1, NA3) + 1]>>
FmtSeq == <<"GRAY", "BGR", "RGB">>
NChainCases == 3 * MaxImg * MaxImg * NChains
ChainCaseAt(k) ==     \* k \in 0..NChainCases-1: fmt x w x h x chain
  [site |-> "util", fmt |-> FmtSeq[Digit(k, NChains * MaxImg * MaxImg, 3) + 1],
   w |-> Digit(k, NChains * MaxImg, MaxImg) + 1, h |-> Digit(k, NChains, MaxImg) + 1, xs |-> ChainAt(k % NChains)]

(* cases supplied by the harness (large-size boundary families, sampled chains with arbitrary parameters) *)
ExtraCases == IF "VERIF_IN" \in DOMAIN IOEnv THEN JsonDeserialize(IOEnv.VERIF_IN) ELSE <<>>

NCases == NSize + NChainCases + Len(ExtraCases)
CaseAt(k) ==          \* k \in 1..NCases
  IF k <= NSize THEN SizeCaseAt(k - 1)
  ELSE IF k <= NSize + NChainCases THEN ChainCaseAt(k - 1 - NSize)
  ELSE ExtraCases[k - NSize - NChainCases]

(* ------------------------------------------------------------------------------------------------------------------
   Vectors: per case the set of frames after every prefix of the chain, for the code as it stands (AsIs) and - when
   different - for the intended design; the format before each step and the colour each box draws.                   *)
RECURSIVE FmtsBefore(_, _, _)
FmtsBefore(xs, fmt, j) ==
  IF j > Len(xs) THEN <<>>
  ELSE LET a == xs[j].act
           f == IF a = "fmtrgb" THEN "RGB" ELSE IF a = "fmtbgr" THEN "BGR" ELSE IF a = "fmtgray" THEN "GRAY" ELSE fmt
       IN  <<fmt>> \o FmtsBefore(xs, f, j + 1)
TraceSeq(D, c) == LET T == Trace(D, c) IN [j \in 1..Len(T) |-> SetToSeq(T[j])]
Vec(c) ==
  LET fb == FmtsBefore(c.xs, c.fmt, 1)
      ta == TraceSeq(AsIs, c)
      ti == TraceSeq({}, c)
  IN [c |-> c, asis |-> ta, ideal |-> IF ti = ta THEN <<>> ELSE ti, fmts |-> fb,
      cols |-> [j \in 1..Len(c.xs) |-> IF c.xs[j].act = "box" THEN BoxColour(fb[j], c.xs[j].col) ELSE <<0, 0, 0>>]]

ASSUME "VERIF_OUT" \in DOMAIN IOEnv =>
         JsonSerialize(IOEnv.VERIF_OUT, [vectors |-> [k \in 1..NCases |-> Vec(CaseAt(k))]])

(* ------------------------------------------------------------------------------------------------------------------ *)
(* One state per case: n is the index of the case, `case` the case itself (so that a counterexample shows it).  Only to
   let TLC's workers share the evaluation the cases are reached in two levels: every Chunk-th index is an initial
   state, the other indices of its chunk are its successors.  TLC's distinct-state count is the number of cases. *)
VARIABLES n, case
Chunk == 64
Init == n \in {k \in 1..NCases : k % Chunk = 1} /\ case = CaseAt(n)
Next == IF n % Chunk = 1 THEN n' \in (n + 1)..Lo(n + Chunk - 1, NCases) /\ case' = CaseAt(n')
                         ELSE UNCHANGED <<n, case>>

StepsNow == Steps(Defects, case)
InvNoFail          == \A st \in StepsNow : LawNoFail(st)
InvResizeExact     == \A st \in StepsNow : LawResizeExact(case.site, st)
InvVResizeFit      == \A st \in StepsNow : LawVResizeFit(case.site, st)
InvMaxBound        == \A st \in StepsNow : LawMaxBound(st)
InvMaxNoEnlarge    == \A st \in StepsNow : LawMaxNoEnlarge(st)
InvMinBound        == \A st \in StepsNow : LawMinBound(st)
InvMinNoShrink     == \A st \in StepsNow : LawMinNoShrink(st)
InvAspectX         == \A st \in StepsNow : LawAspectX(st)
InvIndependentPlus == \A st \in StepsNow : LawIndependentPlus(st)
InvPermutation     == \A st \in StepsNow : LawPermutation(st)
InvFmtKeepsSize    == \A st \in StepsNow : LawFmtKeepsSize(st)
InvBox             == \A st \in StepsNow : LawBox(st)
InvAlgebra         == \A st \in StepsNow : Tracked(st.in) => Algebra(st.in)
=============================================================================

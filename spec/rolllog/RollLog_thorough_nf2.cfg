SPECIFICATION Spec
CONSTANTS
  Readers = {"r1", "r2"}
  AutoRef = {"r1"}
  Sizes = {1, 2}
  FileSizes = {1, 3}
  TotalSizes = {1, 4}
  MaxWrites = 3
  MaxTs = 2
  MaxDeletes = 1
  MaxReopens = 0
  MaxPosOps = 2
  Active = {"r1", "r2", "w"}
  Bin = FALSE
  Acts = {"write", "writenf", "flush", "read", "refresh", "delete"}
  Defects = {}
VIEW view
INVARIANT TypeOK
INVARIANT OpenImpliesIdx
PROPERTY C13_ExactlyOnceInOrder
PROPERTY C13_Budget
PROPERTY C13_NewestKept
PROPERTY C13_NoOverwrite

------------------------------- MODULE Emitter -------------------------------
(* C18 at the level of the lineage emitter object (openfilter/observability/lineage.py `OpenFilterLineage`) and everything that
   calls it during and after a run:

     main thread      Filter.init: emit_start, start_lineage_heart_beat; Filter.exit / Filter.run: stop_lineage_heart_beat,
                      emit_stop (ABORT), emit_complete (COMPLETE) - several times, in any order, from the handlers
     heartbeat thread one iteration of _heartbeat_loop at a time (Tick)
     telemetry bridge observability/bridge.py OTelLineageExporter.export -> update_heartbeat_lineage(facets=...) and
                      force_flush -> update_heartbeat_lineage(): driven by the OpenTelemetry reader thread, at its own
                      interval and once more when the meter provider shuts down - i.e. also AFTER the run has ended
     backend          the client's emit() may raise (a transport error): BackendFail makes the next emission fail

   `hist` records every event HANDED to client.emit() (the property's observation point), failed or not.
   One emitter object serves the consecutive runs of a process (emit_start begins a new run).

   Defects = {} is the design of the repaired code.  Design mutations (never part of a conformance run):
     "latch_after_success"   the terminal flag is set only if the emission succeeded ("retry on a transport error")
     "export_emits"          the bridge pushes a RUNNING heartbeat with every export / flush
     "tick_ignores_term"     the heartbeat loop does not look at the terminal flag
     "start_keeps_term"      emit_start does not clear the terminal flag of the previous run
     "terminal_without_start" a terminal call made before any START (Filter.run's finally after an exit() before init) emits *)
EXTENDS Naturals, Sequences, FiniteSets, TLC

CONSTANTS Defects, MaxCalls, MaxRuns

VARIABLES phase,     \* main thread: "idle" (no run) / "started" (emit_start done) / "running" (heartbeat started) / "ending"
          hb,        \* heartbeat thread: "off" / "on"
          stopFlag,  \* _stop_event
          term,      \* _terminal_sent
          failNext,  \* the next client.emit() raises
          hist,      \* events handed to client.emit(): <<kind, ok>>
          started,   \* _run_started: a START has been emitted on this emitter
          runs, n, lbl
vars == <<phase, hb, stopFlag, term, failNext, hist, started, runs, n, lbl>>

D(x) == x \in Defects
Terminal == {"COMPLETE", "ABORT"}

Init == /\ phase = "idle" /\ hb = "off" /\ stopFlag = FALSE /\ term = FALSE /\ failNext = FALSE
        /\ hist = <<>> /\ started = FALSE /\ runs = 0 /\ n = 0 /\ lbl = <<"init", "">>

Attempt(kind) == /\ hist' = Append(hist, <<kind, ~failNext>>)
                 /\ failNext' = FALSE
Quiet == UNCHANGED <<hist, failNext>>
Count(l) == n' = n + 1 /\ lbl' = l

\* ---- main thread -----------------------------------------------------------------------------------------------------
EmitStart ==
  /\ phase = "idle" /\ runs < MaxRuns
  /\ Attempt("START")
  /\ term' = IF D("start_keeps_term") THEN term ELSE FALSE
  /\ phase' = "started" /\ runs' = runs + 1 /\ started' = TRUE
  /\ Count(<<"main", "emit_start">>)
  /\ UNCHANGED <<hb, stopFlag>>
HbStart ==                       \* start_lineage_heart_beat: no-op while the thread is alive
  /\ phase = "started"
  /\ IF hb = "on" THEN UNCHANGED <<hb, stopFlag>> ELSE hb' = "on" /\ stopFlag' = FALSE
  /\ phase' = "running"
  /\ Quiet /\ Count(<<"main", "hb_start">>)
  /\ UNCHANGED <<term, runs, started>>
StopHb ==
  /\ phase \in {"running", "ending"}
  /\ stopFlag' = TRUE /\ phase' = "ending"
  /\ Quiet /\ Count(<<"main", "hb_stop">>)
  /\ UNCHANGED <<hb, term, runs, started>>
EmitTerminal(kind) ==            \* emit_stop / emit_complete: _emit_terminal under the lock
  /\ phase \in {"running", "ending"}
  /\ IF term THEN Quiet /\ UNCHANGED term
     ELSE /\ Attempt(kind)
          /\ term' = IF D("latch_after_success") THEN ~failNext ELSE TRUE
  /\ phase' = "ending"
  /\ Count(<<"main", IF kind = "ABORT" THEN "emit_stop" ELSE "emit_complete">>)
  /\ UNCHANGED <<hb, stopFlag, runs, started>>
RunOver ==                       \* Filter.run has returned: its outer finally made the last (idempotent) emit_complete call
  /\ phase = "ending" /\ stopFlag /\ term
  /\ phase' = "idle"
  /\ Quiet /\ Count(<<"main", "run_over">>)
  /\ UNCHANGED <<hb, stopFlag, term, runs, started>>

\* Filter.run's finally blocks call emit_complete also when the run never got as far as its START (exit() before Filter.init())
EarlyTerminal ==
  /\ phase = "idle"
  /\ IF (~started /\ ~D("terminal_without_start")) \/ term THEN Quiet /\ UNCHANGED term
     ELSE Attempt("COMPLETE") /\ term' = TRUE
  /\ Count(<<"main", "early_complete">>)
  /\ UNCHANGED <<phase, hb, stopFlag, runs, started>>

\* ---- heartbeat thread: one iteration of `while not stop: with lock: if terminal: break; emit RUNNING; wait` ------------
Tick ==
  /\ hb = "on"
  /\ IF stopFlag THEN hb' = "off" /\ Quiet
     ELSE IF term /\ ~D("tick_ignores_term") THEN hb' = "off" /\ Quiet
     ELSE hb' = "on" /\ Attempt("RUNNING")
  /\ Count(<<"hb", "tick">>)
  /\ UNCHANGED <<phase, stopFlag, term, runs, started>>

\* ---- telemetry bridge (its own thread; runs while the process lives) ---------------------------------------------------
Export ==
  /\ runs > 0
  /\ IF D("export_emits") THEN Attempt("RUNNING") ELSE Quiet
  /\ Count(<<"bridge", "export">>)
  /\ UNCHANGED <<phase, hb, stopFlag, term, runs, started>>
Flush ==
  /\ runs > 0
  /\ IF D("export_emits") THEN Attempt("RUNNING") ELSE Quiet
  /\ Count(<<"bridge", "flush">>)
  /\ UNCHANGED <<phase, hb, stopFlag, term, runs, started>>

\* ---- backend ------------------------------------------------------------------------------------------------------------
BackendFail ==
  /\ ~failNext
  /\ failNext' = TRUE
  /\ Count(<<"backend", "fail_next">>)
  /\ UNCHANGED <<phase, hb, stopFlag, term, hist, runs, started>>

Next == /\ n < MaxCalls
        /\ \/ EmitStart \/ EarlyTerminal \/ HbStart \/ StopHb \/ EmitTerminal("ABORT") \/ EmitTerminal("COMPLETE") \/ RunOver
           \/ Tick \/ Export \/ Flush \/ BackendFail
Spec == Init /\ [][Next]_vars

(* ------------------------------------------------ the property -------------------------------------------------- *)
Kind(i) == hist[i][1]
\* the run an event belongs to = the number of STARTs up to and including it
RunOf(i) == Cardinality({j \in 1..i : Kind(j) = "START"})
C18_StartFirst == hist # <<>> => Kind(1) = "START"
C18_OneTerminal == \A i, j \in 1..Len(hist) : (Kind(i) \in Terminal /\ Kind(j) \in Terminal /\ RunOf(i) = RunOf(j)) => i = j
C18_NothingAfterTerminal == \A i, j \in 1..Len(hist) : (i < j /\ Kind(i) \in Terminal /\ RunOf(i) = RunOf(j)) => FALSE
C18_Emitter == C18_StartFirst /\ C18_OneTerminal /\ C18_NothingAfterTerminal
\* a run that is over has its terminal event (handed to the backend at least)
C18_Terminated == phase = "idle" /\ runs > 0 => \E i \in 1..Len(hist) : Kind(i) \in Terminal /\ RunOf(i) = runs
TypeOK == /\ phase \in {"idle", "started", "running", "ending"} /\ hb \in {"off", "on"}
          /\ \A i \in 1..Len(hist) : Kind(i) \in {"START", "RUNNING", "COMPLETE", "ABORT"}
=============================================================================

"""Shared machinery: paths, TLC runner, TLA+ value parser, evidence writer, known findings, verdict reporting.

Every check is `run(ctx)` in a module vlib/cNN.py; ctx is a `Ctx` (tier, seed, replay path).  A check decides its
property with a TLA+ specification under /verif/spec checked by TLC and binds it to the code in /repo's working tree.
"""
from __future__ import annotations

import hashlib
import json
import os
import re
import shutil
import subprocess
import sys
import tempfile
import time

VERIF = os.path.dirname(os.path.dirname(os.path.abspath(__file__)))
REPO = os.environ.get('VERIF_REPO', '/repo')
SPEC = os.path.join(VERIF, 'spec')
OUT = os.path.join(VERIF, 'out')           # run-time scratch that must survive the run (replay files); git-ignored
# evidence of runs against a scratch copy (mutant / seeded-change testing) must not overwrite the real evidence
EVID = os.path.join(VERIF, 'evidence') if REPO == '/repo' else os.path.join(OUT, 'evidence_scratch')
NCPU = min(16, os.cpu_count() or 4)
TLA_CP = '/opt/veriftools/tla/tla2tools.jar:/opt/veriftools/tla/CommunityModules-deps.jar'


def use_repo():
    """Make `import openfilter` resolve to the working tree under REPO (never an installed copy)."""
    if sys.path[0] != REPO:
        sys.path.insert(0, REPO)
    for k in ('LOG_PATH', 'DO_NOT_TRACK', 'GPU_METRICS'):
        os.environ.setdefault(k, {'LOG_PATH': 'false', 'DO_NOT_TRACK': 'true', 'GPU_METRICS': 'false'}[k])
    import logging
    logging.disable(logging.CRITICAL)


# ---------------------------------------------------------------------------------------------------------------------
# TLA+ value parser (TLC's printed values: records, functions via :> @@, sequences, sets, strings, ints, bools)

_TOK = re.compile(r'\s*(<<|>>|\[|\]|\{|\}|\(|\)|\|->|:>|@@|\.\.|,|"(?:[^"\\]|\\.)*"|-?\d+|[A-Za-z_][A-Za-z_0-9]*)')


def _tokenize(s):
    pos, out = 0, []
    n = len(s)
    while pos < n:
        m = _TOK.match(s, pos)
        if not m:
            if s[pos:].strip() == '':
                break
            raise ValueError(f'bad TLA+ token at {s[pos:pos + 40]!r}')
        out.append(m.group(1))
        pos = m.end()
    return out


class _P:
    def __init__(self, toks):
        self.t, self.i = toks, 0

    def peek(self):
        return self.t[self.i] if self.i < len(self.t) else None

    def eat(self, x=None):
        tok = self.t[self.i]
        if x is not None and tok != x:
            raise ValueError(f'expected {x} got {tok} at {self.i}')
        self.i += 1
        return tok

    def value(self):
        v = self.atom()
        if self.peek() == ':>':
            d = {}
            k = v
            while True:
                self.eat(':>')
                d[freeze(k)] = self.atom()
                if self.peek() == '@@':
                    self.eat('@@')
                    k = self.atom()
                else:
                    break
            return d
        return v

    def _list(self, close):
        xs = []
        while self.peek() != close:
            xs.append(self.value())
            if self.peek() == ',':
                self.eat(',')
        self.eat(close)
        return xs

    def atom(self):
        tok = self.eat()
        if tok == '<<':
            return tuple(self._list('>>'))
        if tok == '{':
            return frozenset(freeze(x) for x in self._list('}'))
        if tok == '[':
            d = {}
            while self.peek() != ']':
                k = self.eat()
                self.eat('|->')
                d[k] = self.value()
                if self.peek() == ',':
                    self.eat(',')
            self.eat(']')
            return d
        if tok == '(':
            v = self.value()
            self.eat(')')
            return v
        if tok.startswith('"'):
            return tok[1:-1].replace('\\"', '"').replace('\\\\', '\\')
        if tok in ('TRUE', 'FALSE'):
            return tok == 'TRUE'
        if re.fullmatch(r'-?\d+', tok):
            if self.peek() == '..':
                self.eat('..')
                return frozenset(range(int(tok), int(self.eat()) + 1))
            return int(tok)
        return tok  # model value


def freeze(x):
    if isinstance(x, dict):
        return tuple(sorted(((freeze(k), freeze(v)) for k, v in x.items()), key=repr))
    if isinstance(x, (list, tuple)):
        return tuple(freeze(v) for v in x)
    if isinstance(x, (set, frozenset)):
        return frozenset(freeze(v) for v in x)
    return x


def parse_value(s):
    return _P(_tokenize(s)).value()


def parse_state(text):
    parts = re.split(r'^\s*/\\ ', text, flags=re.M)
    st = {}
    for p in parts:
        p = p.strip()
        if not p:
            continue
        name, val = p.split('=', 1)
        st[name.strip()] = parse_value(val)
    return st


def parse_sim_file(path):
    """A `-simulate file=` behaviour: list of (action_name | None, state dict)."""
    txt = open(path).read()
    out = []
    for m in re.finditer(r'(?:^\\\* <?(\w+)[^\n]*\n)?^STATE_(\d+) ==\s*\n(.*?)(?=^\s*$|^\\\*|^STATE_|\Z)', txt,
                         flags=re.M | re.S):
        out.append((m.group(1), parse_state(m.group(3))))
    return out


def parse_counterexample(output):
    """States of a TLC error trace printed on stdout: list of (action, state dict)."""
    out = []
    for m in re.finditer(r'^State (\d+): <?([^\n>]*)>?\n(.*?)(?=^\s*$)', output, flags=re.M | re.S):
        act = m.group(2).split(' ')[0]
        try:
            out.append((act, parse_state(m.group(3))))
        except Exception:
            out.append((act, {'_raw': m.group(3)}))
    return out


# ---------------------------------------------------------------------------------------------------------------------
# TLC

def _die_with_parent():
    """a TLC child must not outlive a killed check (PR_SET_PDEATHSIG = 1, SIGKILL = 9)"""
    try:
        import ctypes
        ctypes.CDLL('libc.so.6', use_errno=True).prctl(1, 9)
    except Exception:
        pass


class TLCResult(dict):
    __getattr__ = dict.get


_RE_STATES = re.compile(r'(\d+) states generated, (\d+) distinct states found')
_RE_DEPTH = re.compile(r'The depth of the complete state graph search is (\d+)')
_RE_INV = re.compile(r'Invariant (\S+) is violated')
_RE_PROP = re.compile(r'(?:Action property|Temporal propert(?:y|ies)) (\S*) ?(?:is|was|were) violated')


def run_tlc(spec_dir, cfg, module=None, *, workers=None, simulate=None, depth=None, seed=None, env=None, timeout=3600,
            extra=(), deadlock=False, dfs_queue=False, coverage=False, keep_meta=False):
    """Run TLC on spec_dir/<module>.tla with spec_dir/<cfg>.  Returns TLCResult: ok, states, distinct, depth, violated,
    out, wall_s, cmd.  `simulate` is the string after -simulate (e.g. 'num=100' or 'file=/x/tr,num=100')."""
    cfgp = cfg if cfg.endswith('.cfg') else cfg + '.cfg'
    module = module or os.path.splitext(os.path.basename(cfgp))[0]
    meta = tempfile.mkdtemp(prefix='tlcmeta_')
    cmd = ['java', '-XX:+UseParallelGC', '-Xmx12g']
    if dfs_queue:
        cmd.append('-Dtlc2.tool.queue.IStateQueue=StateDeque')
    cmd += ['-cp', TLA_CP, 'tlc2.TLC', '-metadir', meta, '-noGenerateSpecTE', '-config', cfgp]
    cmd += ['-workers', str(workers or NCPU)]
    if not deadlock:
        cmd.append('-deadlock')  # -deadlock DISABLES deadlock checking
    if simulate is not None:
        cmd += ['-simulate', simulate]
    if depth is not None:
        cmd += ['-depth', str(depth)]
    if seed is not None:
        cmd += ['-seed', str(seed)]
    if coverage:
        cmd += ['-coverage', '1']
    cmd += list(extra) + [module]
    e = dict(os.environ)
    e.pop('JAVA_TOOL_OPTIONS', None)
    if env:
        e.update({k: str(v) for k, v in env.items()})
    t0 = time.time()
    try:
        p = subprocess.run(cmd, cwd=spec_dir, env=e, capture_output=True, text=True, timeout=timeout,
                           preexec_fn=_die_with_parent)
        out, rc, timed_out = p.stdout + p.stderr, p.returncode, False
    except subprocess.TimeoutExpired as ex:
        out = (ex.stdout or b'').decode(errors='replace') if isinstance(ex.stdout, bytes) else (ex.stdout or '')
        rc, timed_out = -9, True
    wall = time.time() - t0
    if not keep_meta:
        shutil.rmtree(meta, ignore_errors=True)
    ms = _RE_STATES.findall(out)
    gen, dist = (int(ms[-1][0]), int(ms[-1][1])) if ms else (0, 0)
    md = _RE_DEPTH.findall(out)
    viol = None
    if (m := _RE_INV.search(out)):
        viol = m.group(1)
    elif (m := _RE_PROP.search(out)):
        viol = m.group(1) or 'temporal'
    elif 'Deadlock reached' in out:
        viol = 'deadlock'
    finished = 'Model checking completed' in out or 'Finished in' in out or (simulate is not None and not timed_out)
    err = None
    if viol is None and ('Error:' in out or rc not in (0,)) and not timed_out:
        # rc 0 = ok; 12 = safety violation; 13 = liveness violation; others = errors
        if rc not in (0, 12, 13):
            err = out[-3000:]
        elif 'Error:' in out and 'violated' not in out:
            err = out[-3000:]
    return TLCResult(ok=(viol is None and err is None and not timed_out), states=gen, distinct=dist,
                     depth=int(md[-1]) if md else None, violated=viol, error=err, timed_out=timed_out, rc=rc,
                     out=out, wall_s=round(wall, 2), cmd=' '.join(cmd[cmd.index('tlc2.TLC'):]), finished=finished,
                     meta=meta if keep_meta else None)


class MachineryError(Exception):
    """The verification machinery itself failed (TLC crashed, a spec does not parse ...): exit code 2."""


def tlc_must_pass(res, what):
    if res.error or res.timed_out:
        raise MachineryError(f'TLC failed on {what}: {"timeout" if res.timed_out else res.error}')
    if res.violated:
        raise MachineryError(f'TLC reports {res.violated} violated on the specification {what}; the design-level '
                             f'model and its expected verdict are out of sync\n{res.out[-4000:]}')
    return res


def tlc_emit_json(spec_dir, cfg, out_name='VERIF_OUT', module=None, env=None, **kw):
    """Run a spec whose ASSUME/POSTCONDITION serialises its cases with Json!JsonSerialize(IOEnv.VERIF_OUT, ...).
    Returns (TLCResult, parsed json)."""
    fd, path = tempfile.mkstemp(prefix='tlcvec_', suffix='.json')
    os.close(fd)
    e = dict(env or {})
    e[out_name] = path
    try:
        res = run_tlc(spec_dir, cfg, module, env=e, **kw)
        if res.error or res.timed_out:
            raise MachineryError(f'TLC failed on {cfg}: {res.error or "timeout"}')
        try:
            data = json.load(open(path))
        except Exception as ex:
            raise MachineryError(f'TLC wrote no vectors for {cfg}: {ex}\n{res.out[-3000:]}')
        return res, data
    finally:
        try:
            os.unlink(path)
        except OSError:
            pass


# ---------------------------------------------------------------------------------------------------------------------
# Known findings

def load_findings():
    p = os.path.join(VERIF, 'known_findings.json')
    if not os.path.exists(p):
        return {'open': [], 'fixed': []}
    return json.load(open(p))


# ---------------------------------------------------------------------------------------------------------------------
# Context / report

class Ctx:
    def __init__(self, prop, tier='quick', seed=0, replay=None):
        self.prop, self.tier, self.seed, self.replay = prop, tier, seed, replay
        self.quick = tier == 'quick'


class Report:
    """Collects what a check covered and what it found; writes the evidence file; prints verdict lines."""

    def __init__(self, ctx: Ctx, level='model_checking'):
        self.ctx, self.level = ctx, level
        self.t0 = time.time()
        self.states = 0
        self.transitions = 0
        self.traces = 0
        self.evaluations = 0
        self.distinct = set()
        self.samples = []
        self.tlc_runs = []
        self.notes = []
        self.drift = []
        self.violations = []   # (signature_key, text, witness)
        self.known_hits = {}
        self.assumptions = []
        self.extra = {}
        self.findings = [f for f in load_findings().get('open', []) if f['property'] == ctx.prop]
        self.exhaustive = None
        self.rule = ''

    # -- coverage ----------------------------------------------------------------------------------------------------
    def add_tlc(self, name, res, purpose=''):
        self.states += res.distinct
        self.transitions += res.states
        self.tlc_runs.append({'config': name, 'distinct_states': res.distinct, 'states_generated': res.states,
                              'depth': res.depth, 'wall_s': res.wall_s, 'result': res.violated or 'ok',
                              'purpose': purpose})

    def case(self, key, nontrivial=True):
        """Count one executed case against the implementation; key identifies it for distinctness."""
        self.evaluations += 1
        if nontrivial:
            self.distinct.add(key if isinstance(key, (str, int)) else hashlib.md5(repr(key).encode()).hexdigest())

    def sample(self, x, limit=6):
        if len(self.samples) < limit:
            self.samples.append(x)

    def note(self, s):
        self.notes.append(s)

    def drift_note(self, s):
        if len(self.drift) < 50:
            self.drift.append(s)
        print(f'DRIFT property={self.ctx.prop} {s}')

    # -- verdicts ----------------------------------------------------------------------------------------------------
    def violation(self, what, witness, sig=None):
        """A witnessed violation of the property's own formula on the real code.  `sig` is a dict of facts about the
        witness; it is matched against known_findings.json signatures."""
        sig = sig or {}
        for f in self.findings:
            if all(sig.get(k) == v for k, v in f.get('signature', {}).items()):
                self.known_hits.setdefault(f['id'], [0, f, what, witness])
                self.known_hits[f['id']][0] += 1
                return 'known'
        self.violations.append((what, witness, sig))
        return 'new'

    def selftest(self, fn, *a, **k):
        """Run a harness self-test.  Some of them evaluate a conforming vector on the real code: on a tree that violates the
        property that half may fail for that very reason, so a failure is settled at finish(): with witnesses at hand the
        self-test is void (recorded), without any it is a machinery failure."""
        try:
            return fn(*a, **k)
        except MachineryError as e:
            self._selftest_err = e
            return None

    def finish(self):
        ctx = self.ctx
        err = getattr(self, '_selftest_err', None)
        if err is not None:
            if not self.violations and not self.known_hits:
                raise err
            self.extra['selftest'] = f'void on a violating tree: {err}'
        os.makedirs(EVID, exist_ok=True)
        rc = 0
        for fid, (n, f, what, witness) in self.known_hits.items():
            print(f'KNOWN-FINDING: property={ctx.prop} {fid}: {f["what"]} ({n} witnesses this run; e.g. {what})')
        shown = set()
        for i, (what, witness, sig) in enumerate(self.violations):
            rc = 1
            key = json.dumps(sig, sort_keys=True, default=str)
            if key in shown and len(shown) >= 1 and i >= 5:
                continue
            shown.add(key)
            d = os.path.join(OUT, 'replays', ctx.prop)
            os.makedirs(d, exist_ok=True)
            path = os.path.join(d, f'{ctx.tier}_{ctx.seed}_{i}.json')
            with open(path, 'w') as fh:
                json.dump({'property': ctx.prop, 'what': what, 'signature': sig, 'witness': witness}, fh, indent=1,
                          default=str)
            print(f'VIOLATION property={ctx.prop} replay={path}')
            print(f'  {what}')
            if i >= 9:
                print(f'  ... {len(self.violations) - 10} more witnesses not written')
                break
        cov = {
            'states': self.states, 'transitions': self.transitions,
            'traces_validated_against_impl': self.traces,
            'evaluations': self.evaluations, 'distinct_nontrivial': len(self.distinct),
            'rule': self.rule, 'samples': self.samples or ['(none)'],
            'tlc_runs': self.tlc_runs, 'drift': self.drift, 'notes': self.notes,
            'known_findings_hit': {k: v[0] for k, v in self.known_hits.items()},
        }
        if self.exhaustive is not None:
            cov['exhaustive'] = self.exhaustive
        cov.update(self.extra)
        ev = {'property_id': ctx.prop, 'tier': ctx.tier, 'seed': int(ctx.seed), 'level': self.level, 'coverage': cov,
              'assumptions': self.assumptions, 'wall_s': round(time.time() - self.t0, 2),
              'violations': len(self.violations)}
        with open(os.path.join(EVID, f'{ctx.prop}.json'), 'w') as fh:
            json.dump(ev, fh, indent=1, default=str)
        print(f'{ctx.prop} {ctx.tier}: states={self.states} transitions={self.transitions} impl_traces={self.traces} '
              f'cases={self.evaluations} distinct={len(self.distinct)} drift={len(self.drift)} '
              f'known={sum(v[0] for v in self.known_hits.values())} violations={len(self.violations)} '
              f'wall={ev["wall_s"]}s')
        return rc


def rng(ctx, salt=''):
    import random
    return random.Random(f'{ctx.seed}/{ctx.prop}/{salt}')


def scratch_dir(prefix='verif_'):
    return tempfile.mkdtemp(prefix=prefix)

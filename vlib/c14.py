"""C14 - a log reader's saved position (head file) survives crashes without skipping records.

Specification: spec/rolllog/HeadFile.tla (extends RollLog.tla): write_head refined into SaveOpen / SaveWrite / SaveClose /
SaveRename, Crash between any two of them and between any two reader operations (an unflushed write leaves none, part
or all of the buffer in the temp file), Restart = the constructor path.  C14_HeadNeverCorrupt,
C14_RestartsFromSavedPos, C14_NoSkip, C14_BoundedReplay, C14_SavedNotAhead.

1. design level: TLC proves the formulas on HeadFile_<tier>.cfg; with each of the designs the property rules out
   ("head_in_place", "rename_before_close") TLC must exhibit a counterexample (non-vacuity), which the real code must
   NOT reproduce;
2. spec -> code: HeadFileCover emits one label path + projection per transition; the maximal paths are replayed on a
   real writer and a real RollLog(rdonly, head=...) with the crash injected at the corresponding file-system operation
   of the real write_head (wrapped open / write / close / os.rename of the module); head file, temp file, directory,
   reader state and returned records are compared at every node;
3. code -> spec: fault enumeration on reference histories of the real code: a crash at every file-system operation
   of every save (x what is left of the unflushed buffer) and between any two reader operations, up to 3 stop/restart
   cycles, files deleted while the reader is down; judged by a monitor that mirrors the C14 formulas on what the
   application sees (records delivered, restart succeeded) and on the real head file;
4. self-test: corrupted expectations are noticed; a head written in place (simulated in the harness' file layer) is
   caught by the monitor.
"""
import json
import os
import re
import random
from concurrent.futures import ThreadPoolExecutor

from . import common
from .common import Report, run_tlc, NCPU, MachineryError
from . import rolllog_harness as H
from . import c13

W, R = 'w', 'r1'
VARIANTS = ('head_in_place', 'rename_before_close')
FAULT_NAMES = ('open', 'write', 'close', 'rename')


# ---------------------------------------------------------------------------------------------------------------------
# the C14 formulas on real observations

class HeadMonitor:
    """cursor = id of the last record handed to the application.  `cands`: the cursors the running reader may
    legitimately continue from (one value, except right after a restart that followed an interrupted save: previously
    saved or newly saved).  Mirrors C14_RestartsFromSavedPos / C14_NoSkip / C14_BoundedReplay / C14_HeadNeverCorrupt."""

    def __init__(self, world):
        self.w = world
        self.cands = {0}            # of the running reader
        self.committed = {0}        # cursor(s) of the position in the head file (no head file: start of all logs)
        self.pending = None         # cursor(s) of the position an unfinished save was writing
        self.delivered = set()
        self.violations = []
        self.counts = {}
        self.crash_op = None

    def _c(self, k):
        self.counts[k] = self.counts.get(k, 0) + 1

    def on_disk(self):
        ids = set()
        for _, raw in self.w.listing():
            ids |= set(self.w.codec.cells_of_raw(raw)[0])
        ids.discard(0)
        return ids

    def save_begin(self):
        self.pending = set(self.cands)

    def save_done(self):
        self.committed, self.pending = set(self.pending), None
        self._c('save_completed')
        self.check_head('after a completed save')

    def crashed(self, op):
        self.crash_op = op
        self._c(f'crash_at_{op}')
        self.check_head(f'after a crash at {op}')

    def check_head(self, when):
        """C14_HeadNeverCorrupt on the real head file: absent, or a well-formed position"""
        hp = self.w.head
        if not os.path.exists(hp):
            return
        try:
            pos = json.loads(open(hp).read().strip())
            ok = isinstance(pos, list) and len(pos) == 2 and isinstance(pos[0], str) and isinstance(pos[1], int)
        except Exception:
            ok = False
        if not ok:
            self.violations.append(('C14_HeadNeverCorrupt', f'the head file is corrupt {when}: '
                                                            f'{open(hp, "rb").read()!r}',
                                    {'kind': 'head_corrupt', 'crash_op': self.crash_op}))

    def restarted(self, exc):
        self._c('restart')
        if exc is not None:                                           # StepRestartOK
            self.violations.append(('C14_RestartsFromSavedPos', f'restart failed with {exc!r} after a crash at '
                                                                f'{self.crash_op}',
                                    {'kind': 'restart_failed', 'crash_op': self.crash_op}))
            return
        self.cands = set(self.committed) | (set(self.pending) if self.pending is not None else set())
        # whichever of the two it was: that one is now the position on disk
        self.pending_after_restart = True

    def after_read(self, cells, whole_ok):
        if not cells:
            self._c('read_none')
            return
        self._c('read_chunk')
        ondisk = self.on_disk()
        ids = sorted(set(cells))
        first = ids[0]
        # a cursor the reader may continue from explains this chunk if the chunk starts after it and nothing that is on disk
        # lies in between (the chunk itself may come from a file that was unlinked while the reader had it open)
        matched = [c for c in self.cands if first > c and not any(c < k < first for k in ondisk)]
        bad = None
        if not whole_ok:
            bad = ('torn', f'the reader got a torn chunk {cells}')
        elif not matched:
            if all(first <= c for c in self.cands):
                bad = ('replay_before_saved_position',
                       f'record {first} delivered again although the restored position must be one of the cursors '
                       f'{sorted(self.cands)} (C14_BoundedReplay)')
            else:
                miss = sorted(k for k in ondisk if k < first and k not in self.delivered)
                bad = ('skip', f'record {first} delivered while the reader should continue after one of the cursors '
                               f'{sorted(self.cands)}; on disk and never delivered: {miss} (C14_NoSkip)')
        else:
            # inside the chunk: nothing that is on disk is left out
            want = [k for k in sorted(ondisk) if first <= k <= ids[-1]]
            if not set(want) <= set(ids):
                bad = ('skip', f'chunk {ids} leaves out {sorted(set(want) - set(ids))} which are on disk (C14_NoSkip)')
        if bad:
            self.violations.append(('C14_NoSkip' if bad[0] != 'replay_before_saved_position' else 'C14_BoundedReplay',
                                    bad[1], {'kind': bad[0], 'crash_op': self.crash_op}))
        if len(self.cands) > 1 and matched:
            # the restart used this position; it is what the head file holds now
            self.committed = {matched[0]} if len(matched) == 1 else set(matched)
        self.delivered |= set(ids)
        self.cands = {ids[-1]}


# ---------------------------------------------------------------------------------------------------------------------
# driving the real objects

class WriterBroken(Exception):
    """the log writer of the code under test raised: C14 cannot continue this history (that is C13's subject)"""


class HeadRun:
    """a real writer + a real reader with head file in one World"""

    def __init__(self, world, fsz, tsz, slack=(0, 0), autoref=True):
        self.w = world
        self.rp = H.Replayer(world, fsz, tsz, readers=(), autoref=(R,) if autoref else (), slack=slack, autocreate=False)
        self.rp.readers = (R,)
        self.rp.objs[W] = self.rp._new(W)
        self.mon = HeadMonitor(world)
        self.up = False
        self.maxused = 0
        self.restart_exc = None

    def write(self, sz):
        wo = self.rp.objs[W]
        y = 0 if wo.write_file not in (None, False) else self.maxused + 1
        out = self.rp.do(('write', W, sz, y))
        if out.get('fatal'):
            raise WriterBroken(repr(out['exc']))
        for e in out['events']:
            if e[0] == 'create':
                self.maxused = max(self.maxused, self.rp.ts_of_name(e[1]))
        return out

    def read(self, block=False):
        out = self.rp.do(('readblock' if block else 'read', R, 0, 0))
        raw = self.w.codec.raw_of_return(out['ret'], block or self.w.mode == 'bin') if out['exc'] is None else b'?'
        cells, ok = self.w.codec.cells_of_raw(raw)
        ok = ok and out['exc'] is None and all(cells.count(k) == self.rp.mon.recsz.get(k) for k in set(cells))
        self.mon.after_read(cells if out['exc'] is None else [0], ok)
        return out

    def save(self, fault_at=None, partial=0):
        """write_head(); with fault_at = n the process dies at the n-th file-system operation.  Returns the name of
        the operation at which it died, or None."""
        w = self.w
        rd = self.rp.objs[R]
        self.mon.save_begin()
        w.fault_n, w.fault_at, w.fault_log = 0, fault_at, []
        buf_len = len(json.dumps(rd.tell()) + '\n')
        w.fault_partial = {0: 0, 1: buf_len // 2, 2: buf_len}[partial] if fault_at == 3 else 0
        try:
            rd.write_head()
        except H.Crash as c:
            w.fault_at = None
            self.crash(str(c.args[0]))
            return str(c.args[0])
        finally:
            w.fault_at = None
        self.mon.save_done()
        if fault_at is not None:
            # write_head has fewer file-system operations than the planned crash point: it completed; the process dies
            # right after it
            self.crash('after_last_operation')
            return 'after_last_operation'

    def crash(self, op='between_reader_operations'):
        self.rp.objs.pop(R, None)          # abandoned: no close(), no flush
        self.up = False
        self.mon.crashed(op)

    def restart(self):
        self.w.now = self.w.ts_of(self.maxused + 1)        # time has moved on (constructor guard l.132)
        self.restart_exc = None
        try:
            self.rp.objs[R] = self.rp._new(R, head=self.w.head)
            self.up = True
        except H.Crash:
            raise
        except Exception as e:   # noqa - a failing constructor is the observation
            self.restart_exc = e
        self.mon.restarted(self.restart_exc)
        return self.restart_exc is None

    def delete(self, ts):
        self.rp.do(('delete', 'env', ts, 0))

    def refresh(self):
        return self.rp.do(('refresh', R, 0, 0))

    # -- projection into HObs ------------------------------------------------------------------------------------------
    def _file(self, path):
        if not os.path.exists(path):
            return {'st': 'absent', 'k': 'none', 'ts': 0, 'off': 0}
        try:
            pos = json.loads(open(path).read().strip())
            assert isinstance(pos, list) and len(pos) == 2 and isinstance(pos[0], str) and isinstance(pos[1], int)
        except Exception:
            return {'st': 'junk', 'k': 'none', 'ts': 0, 'off': 0}
        if pos[0] == 'start':
            return {'st': 'ok', 'k': 'start', 'ts': 0, 'off': 0}
        return {'st': 'ok', 'k': 'file', 'ts': self.rp.ts_of_name(pos[0]), 'off': H._div(pos[1], self.w.unit)}

    def project(self, out=None):
        d = []
        for n, raw in self.w.listing():
            cells, ok = self.w.codec.cells_of_raw(raw)
            d.append({'ts': self.rp.ts_of_name(n), 'c': cells if ok else cells + ['?']})
        res = {'dir': d, 'head': self._file(self.w.head), 'tmp': self._file(self.w.head + '.tmp'), 'up': self.up}
        if self.up:
            ob = self.rp.objs[R]
            f = ob.read_file if ob.read_file not in (None, False) else None
            res['r'] = {'lf': [{'ts': self.rp.ts_of_name(l.path), 'sz': H._div(l.size, self.w.unit), 'fr': False}
                               for l in ob.logfiles],
                        'ridx': ob.read_idx, 'open': f is not None, 'off': H._div(f.tell(), self.w.unit) if f else 0}
        else:
            res['r'] = {'lf': [], 'ridx': 0, 'open': False, 'off': 0}
        res['chunk'] = list(out['cells']) if out else []
        return res


def norm_hobs(o):
    return {'dir': [{'ts': e['ts'], 'c': list(e['c'])} for e in o['dir']], 'head': dict(o['head']),
            'tmp': dict(o['tmp']), 'up': o['up'], 'chunk': list(o['chunk']),
            'r': {'lf': [dict(e) for e in o['r']['lf']], 'ridx': o['r']['ridx'], 'open': o['r']['open'],
                  'off': o['r']['off'] if o['r']['open'] else 0}}


def diff_hobs(e, g, with_chunk=True):
    for k in ('dir', 'head', 'tmp', 'up', 'r') + (('chunk',) if with_chunk else ()):
        if e[k] != g[k]:
            return f'{k}: spec {e[k]} code {g[k]}'
    return None


def parse_hemit(lines):
    nodes = {}
    for line in lines:
        m = H._EMIT.match(line)
        if not m:
            continue
        s = m.group(1).replace('\\"', '"').replace('\\\\', '\\')
        path, obs = common.parse_value(s)
        nodes[tuple(tuple(l) for l in path)] = obs
    return nodes


def replay_head_path(path, nodes, mode, unit=8, step=1.0, slack=(0, 0), utc=True, corrupt=False, crash_at_end=False,
                     autoref=True):
    """one label path of HeadFile.tla on the real code"""
    fsz, tsz = path[0][2], path[0][3]
    res = {'steps': 0, 'compared': 0, 'drift': None, 'violations': [], 'counts': {}, 'crashes': {}}
    with H.World(mode, unit, step, utc) as world:
        hr = HeadRun(world, fsz, tsz, slack, autoref=autoref)
        i = 1
        n = len(path)
        while i < n:
            a, o, x, y = path[i]
            out = None
            end = i + 1
            if a in ('read', 'readblock', 's_open', 'crash', 'refresh') and not hr.up:
                if res['drift'] is None:
                    res['drift'] = (i, f'{path[i]}: the reader is not running in the real world')
                break
            if a == 'write':
                try:
                    out = hr.write(x)
                except WriterBroken as e:
                    res['drift'] = res['drift'] or (i, f'the writer raised {e}')
                    hr.mon._c('writer_raised')
                    break
            elif a in ('read', 'readblock'):
                out = hr.read(a == 'readblock')
            elif a == 's_open':
                j = 1
                while i + j < n and path[i + j][0] in ('s_write', 's_close', 's_rename'):
                    j += 1
                if j == 4:
                    hr.save()
                    end = i + 4
                elif i + j < n and path[i + j][0] == 'crash':
                    op = hr.save(fault_at=j + 1, partial=path[i + j][2])
                    res['crashes'][op] = res['crashes'].get(op, 0) + 1
                    end = i + j + 1
                elif crash_at_end:
                    # a counterexample that ends inside write_head: the process dies there and is restarted, which is
                    # how the state inside the call becomes observable
                    hr.save(fault_at=j + 1, partial=0)
                    hr.restart()
                    end = n
                else:
                    break                      # the path ends inside write_head: nothing observable to compare
            elif a == 'crash':
                hr.crash()
                res['crashes']['between'] = res['crashes'].get('between', 0) + 1
            elif a == 'restart':
                hr.restart()
            elif a == 'refresh':
                hr.refresh()
            elif a == 'delete':
                try:
                    hr.delete(x)
                except MachineryError as e:       # the real directory differs from the model's: drift, not a failure
                    res['drift'] = res['drift'] or (i, f'{path[i]}: {e}')
                    break
            else:
                raise MachineryError(f'unexpected label {path[i]}')
            res['steps'] += end - i
            exp = nodes.get(path[:end])
            if exp is not None and res['drift'] is None:
                e = norm_hobs(exp)
                if corrupt:
                    e['head']['st'] = 'junk' if e['head']['st'] != 'junk' else 'ok'
                if a == 'restart' and not exp['ok'] and hr.restart_exc is None:
                    res['drift'] = (i, 'spec: restart fails; code: restart succeeded')
                d = diff_hobs(e, hr.project(out), with_chunk=a in ('read', 'readblock'))
                res['compared'] += 1
                if d and res['drift'] is None:
                    res['drift'] = (i, f'after {path[i:end]}: {d}')
            i = end
        for v in hr.mon.violations:
            res['violations'].append(v)
        res['counts'] = hr.mon.counts
    return res


def _replay_chunk(args):
    lines, paths, modes, seed, corrupt = args[:5]
    autoref = args[5] if len(args) > 5 else True
    common.use_repo()
    nodes = parse_hemit(lines)
    agg = {'paths': 0, 'steps': 0, 'compared': 0, 'ndrift': 0, 'drift': [], 'viol': {}, 'counts': {}, 'crashes': {},
           'cpaths': 0}
    for i, p in enumerate(paths):
        mode = modes[i % len(modes)]
        unit, step, slack, utc = c13._variant(i, seed)
        r = replay_head_path(p, nodes, mode, unit, step, slack, utc, corrupt=corrupt, autoref=autoref)
        agg['paths'] += 1
        agg['steps'] += r['steps']
        agg['compared'] += r['compared']
        agg['cpaths'] += r['compared'] > 0
        if r['drift']:
            agg['ndrift'] += 1
            if len(agg['drift']) < 3:
                agg['drift'].append({'path': p, 'mode': mode, 'diff': r['drift'][1]})
        for (formula, text, sig) in r['violations']:
            key = json.dumps(sig, sort_keys=True)
            agg['viol'].setdefault(key, {'n': 0, 'text': text, 'sig': sig, 'formula': formula,
                                         'witness': {'labels': p, 'mode': mode, 'autoref': autoref,
                                                     'render': {'unit': unit, 'step': step, 'slack': slack,
                                                                'utc': utc}}})['n'] += 1
        for f in ('counts', 'crashes'):
            for k, v in r[f].items():
                agg[f][k] = agg[f].get(k, 0) + v
    return agg


def replay_cover(pool, lines, seed, sample, rng, corrupt=False, autoref=True):
    prefixes = {p[:-1] for p in lines if len(p) > 1}
    maximal = sorted(p for p in lines if p not in prefixes and len(p) > 1)
    total = len(maximal)
    if sample and len(maximal) > sample:
        maximal = sorted(rng.sample(maximal, sample))
    nch = max(1, min(len(maximal) // 30 + 1, NCPU * 4))
    size = (len(maximal) + nch - 1) // nch
    jobs = []
    for c in range(0, len(maximal), max(1, size)):
        ps = maximal[c:c + size]
        need = {}
        for p in ps:
            for k in range(2, len(p) + 1):
                if p[:k] in lines:
                    need[p[:k]] = lines[p[:k]]
        jobs.append((list(need.values()), ps, c13.LINE_MODES, seed, corrupt, autoref))
    agg = {'paths': 0, 'steps': 0, 'compared': 0, 'ndrift': 0, 'drift': [], 'viol': {}, 'counts': {}, 'crashes': {},
           'maximal_total': total, 'transitions': len(lines), 'cpaths': 0}
    for r in pool.map(_replay_chunk, jobs):
        for k in ('paths', 'steps', 'compared', 'ndrift', 'cpaths'):
            agg[k] += r[k]
        agg['drift'] += r['drift']
        for key, v in r['viol'].items():
            if key in agg['viol']:
                agg['viol'][key]['n'] += v['n']
            else:
                agg['viol'][key] = v
        for f in ('counts', 'crashes'):
            for k, v in r[f].items():
                agg[f][k] = agg[f].get(k, 0) + v
    return agg


# ---------------------------------------------------------------------------------------------------------------------
# code -> spec: fault enumeration on reference histories

def reference_history(seed, nops, ex=False):
    """ops of the reader side and the writer: ('w', size) | ('r',) | ('rb',) | ('save',); ex: the reader has no autorefresh
    and the application calls ('refresh',) itself; ('del', 0 | 1): the file the reader is in / the oldest file is deleted
    under the running reader"""
    if ex and seed % 1000 == 500:
        # scripted: the reader is in the middle of the oldest file when that file is deleted; refresh(); positions saved after it
        return [('w', 1)] * 6 + [('refresh',), ('r',), ('del', 0), ('refresh',), ('r',), ('save',), ('w', 1), ('r',), ('save',), ('refresh',),
                                 ('r',), ('rb',), ('save',), ('w', 2), ('refresh',), ('r',), ('save',)]
    rnd = random.Random(f'c14ref/{seed}/{int(ex)}' if ex else f'c14ref/{seed}')
    ops = []
    for _ in range(nops):
        if ex:
            ops.append(rnd.choice([('w', 1), ('w', 2), ('w', 1), ('w', 1), ('r',), ('r',), ('r',), ('rb',), ('save',), ('save',),
                                   ('refresh',), ('refresh',), ('del', 0), ('del', 1)]))
        else:
            ops.append(rnd.choice([('w', 1), ('w', 2), ('w', 1), ('r',), ('r',), ('r',), ('rb',), ('save',), ('save',)]))
    ops.append(('save',))
    return ops


def run_plan(args):
    """execute a reference history with the crashes of `plan`: list of (op index, fault_at or 0 for 'between reader
    operations', partial, delete_while_down).  Returns violations."""
    seed, nops, plan, mode, fsz, inplace = args[:6]
    record = len(args) > 6 and args[6]
    ex = len(args) > 7 and args[7]
    common.use_repo()
    ops = reference_history(seed, nops, ex)
    plan = {p[0]: p for p in plan}
    unit, step, slack, utc = c13._variant(seed, len(plan))
    res = {'violations': [], 'counts': {}, 'crashes': 0, 'saves': 0, 'cycles': 0, 'steps': [], 'fsz': fsz,
           'tsz': 10 ** 6}
    SOPS = {'open': 's_open', 'write': 's_write', 'close': 's_close', 'rename': 's_rename'}

    def rec(lab, out=None, cmp=1):
        if record:
            pr = hr.project(out)
            chunk = pr.pop('chunk')
            res['steps'].append({'l': list(lab), 'cmp': cmp, 'obs': pr, 'chunk': chunk,
                                 'ok': hr.restart_exc is None if lab[0] == 'restart' else True})

    def rec_save(died_at, partial):
        if not record:
            return
        done = [SOPS.get(n) for n in world.fault_log]
        if died_at in SOPS:
            done = done[:-1]                    # the operation at which the process died did not happen
        if None in done or done != ['s_open', 's_write', 's_close', 's_rename'][:len(done)]:
            res['steps'].append({'l': ['unknown_fs_ops'] + [0, 0, 0], 'cmp': 0, 'obs': {}, 'chunk': [], 'ok': True})
            return
        for k, lab in enumerate(done):
            last = died_at is None and k == len(done) - 1
            if last:
                rec((lab, R, 0, 0))
            else:
                res['steps'].append({'l': [lab, R, 0, 0], 'cmp': 0, 'obs': {}, 'chunk': [], 'ok': True})
        if died_at is not None:
            rec(('crash', R, partial if died_at == 'close' else 0, 0))

    with H.World(mode, unit, step, utc) as world:
        if inplace:
            _simulate_in_place(world)
        hr = HeadRun(world, fsz, 10 ** 6, slack, autoref=not ex)
        hr.restart()
        rec(('restart', R, 0, 0))
        for i, op in enumerate(ops):
            pl = plan.get(i)
            if not hr.up:
                break
            if op[0] == 'w':
                try:
                    rec(('write', W, op[1], 0), hr.write(op[1]))
                except WriterBroken:
                    hr.mon._c('writer_raised')
                    break
                continue
            if op[0] == 'refresh':
                hr.refresh()
                hr.mon._c('refresh')
                rec(('refresh', R, 0, 0))
                continue
            if op[0] == 'del':
                names = sorted(os.listdir(world.logs))
                ob = hr.rp.objs[R]
                cur = os.path.basename(ob.logfiles[ob.read_idx].path) if ob.read_idx < len(ob.logfiles) else None
                victim = (cur if cur in names else None) if op[1] == 0 else (names[0] if names else None)
                if victim is not None and victim != names[-1]:          # (not the file the writer is writing)
                    mid = op[1] == 0 and ob.read_file not in (None, False) and ob.read_file.tell() > 0
                    t = hr.rp.ts_of_name(victim)
                    hr.delete(t)
                    hr.mon._c('delete_under_reader_mid_file' if mid else 'delete_under_reader')
                    rec(('delete', 'env', t, 0))
                continue
            crashed = False
            if pl and (pl[1] == 0 or op[0] != 'save'):
                hr.crash()
                rec(('crash', R, 0, 0))
                crashed = True
            elif op[0] == 'save':
                res['saves'] += 1
                died = hr.save(fault_at=pl[1] if pl else None, partial=pl[2] if pl else 0)
                crashed = died is not None
                rec_save(died, pl[2] if pl else 0)
            elif op[0] == 'r' and mode != 'bin':
                rec(('read', R, 0, 0), hr.read(False))
            else:
                rec(('readblock', R, 0, 0), hr.read(True))
            if crashed:
                res['crashes'] += 1
                if pl[3]:
                    names = sorted(os.listdir(world.logs))
                    if len(names) > 1:
                        t = hr.rp.ts_of_name(names[0] if pl[3] == 1 else names[len(names) // 2])
                        hr.delete(t)
                        rec(('delete', 'env', t, 0))
                res['cycles'] += 1
                ok = hr.restart()
                rec(('restart', R, 0, 0))
                if not ok:
                    break
        if hr.up:                      # drain: everything still on disk must arrive
            for rnd_ in range(2 if ex else 1):
                if ex:
                    hr.refresh()
                    rec(('refresh', R, 0, 0))
                for _ in range(200):
                    out = hr.read(mode == 'bin')
                    rec(('readblock' if mode == 'bin' else 'read', R, 0, 0), out)
                    if out['ret'] is None and out['exc'] is None:
                        break
            ondisk = hr.mon.on_disk()
            left = sorted(k for k in ondisk if k not in hr.mon.delivered)
            if left:
                hr.mon.violations.append(('C14_NoSkip', f'records {left} are on disk and were never delivered',
                                          {'kind': 'skip', 'crash_op': hr.mon.crash_op}))
        res['violations'] = hr.mon.violations
        res['counts'] = hr.mon.counts
    return res


def _simulate_in_place(world):   # noqa
    """self-test only: make the file layer behave as if write_head wrote the head file itself (the '.tmp' path is
    redirected to the head and the rename does nothing) - the monitor must notice corrupt heads / failing restarts."""
    orig_open = world._open
    R_ = world.R

    def open2(path, mode='r', *a, **k):
        if isinstance(path, str) and path.endswith('.tmp') and 'w' in mode:
            world._fault('open')
            return H._FaultyFile(world, open(path[:-4], mode, *a, **k))
        return orig_open(path, mode, *a, **k)

    class OS2:
        def __getattr__(self, k):
            return getattr(os, k)

        @staticmethod
        def unlink(p, *a, **k):
            return os.unlink(p, *a, **k)

        @staticmethod
        def rename(a, b):
            world._fault('rename')

    R_.open = open2
    R_.os = OS2()


def validate_head_traces(sd, traces, nw, cfg='TraceHeadFile'):
    import tempfile
    fd, path = tempfile.mkstemp(prefix='verif_c14trace_', suffix='.json')
    try:
        with os.fdopen(fd, 'w') as fh:
            json.dump(traces, fh)
        res = run_tlc(sd.d, cfg, 'TraceHeadFile', workers=nw, timeout=3000, deadlock=True,
                      env={'VERIF_TRACE': path})
    finally:
        os.unlink(path)
    return res, sum(len(t['steps']) + 1 for t in traces)


def _last_tid(out, pick):
    ms = list(re.finditer(r'^/\\ tid = (\d+)', out, flags=re.M))
    mi = list(re.finditer(r'^/\\ i = (\d+)', out, flags=re.M))
    if ms and mi:
        return f'trace {ms[-1].group(1)} step {int(mi[-1].group(1)) + 1}'
    return 'no trace in the TLC output'


def enumerate_plans(seed, nops, cycles, rnd, budget, ex=False):
    """single crashes exhaustively; pairs / triples exhaustively if they fit the budget, else sampled"""
    ops = reference_history(seed, nops, ex)
    points = []
    for i, op in enumerate(ops):
        if op[0] == 'save':
            for k in (1, 2, 3, 4):
                for part in ((0, 1, 2) if k == 3 else (0,)):
                    points.append((i, k, part))
            points.append((i, 5, 0))      # after the rename: save completed, then the process dies at the next operation
        elif op[0] in ('r', 'rb'):
            points.append((i, 0, 0))
    plans = [[(p[0], p[1], p[2], d)] for p in points for d in (0, 1)]
    if cycles >= 2:
        pairs = [[(a[0], a[1], a[2], da), (b[0], b[1], b[2], db)] for a in points for b in points if b[0] > a[0]
                 for da in (0, 1) for db in (0, 2)]
        if len(pairs) > budget:
            pairs = rnd.sample(pairs, budget)
        plans += pairs
    if cycles >= 3:
        triples = []
        for _ in range(budget):
            t = sorted(rnd.sample(points, 3), key=lambda p: p[0])
            if len({p[0] for p in t}) == 3:
                triples.append([(p[0], p[1], p[2], rnd.choice((0, 1, 2))) for p in t])
        plans += triples
    return plans


# ---------------------------------------------------------------------------------------------------------------------

def run(ctx):
    import multiprocessing as mp
    common.use_repo()
    rep = Report(ctx)
    tier = 'quick' if ctx.quick else 'thorough'
    rep.rule = ('trace = one label path of HeadFile.tla, or one reference history with a crash plan, executed on a real '
                'writer and a real RollLog(rdonly, head=...); non-trivial = at least one crash and one restart')
    rep.assumptions = [
        'crash = death of the reader process (exception injected at the n-th file-system operation of write_head, the '
        'object is abandoned): closed files and completed renames persist, an unflushed write leaves none / half / all '
        'of its bytes; power loss (un-synced renames) is not modelled',
        'log files are deleted only while the reader is down (deletion under a running reader is C13); the retention '
        'budget is large; writer timestamps increase strictly; the clock is ahead of the newest file at restart',
        'one cell = 8/9/13 bytes as for C13']
    sd = c13.SpecDir()
    pool = mp.get_context('fork').Pool(NCPU)
    tpool = ThreadPoolExecutor(max_workers=6)
    rnd = common.rng(ctx, 'c14')
    try:
        nw = max(2, NCPU // 2)
        proof = tpool.submit(run_tlc, sd.d, f'HeadFile_{tier}', 'HeadFile', workers=nw, timeout=3000)
        cover_n = f'HeadFileCover_{tier}'
        cover = tpool.submit(run_tlc, sd.d, cover_n, 'HeadFileCover', workers=max(2, NCPU // 4), timeout=3000)
        proofs_ex = [(n, tpool.submit(run_tlc, sd.d, n, 'HeadFile', workers=nw, timeout=3000))
                     for n in ([f'HeadFile_{tier}_ex'] + ([] if ctx.quick else ['HeadFile_thorough_exa']))]
        cover_ex = tpool.submit(run_tlc, sd.d, 'HeadFileCover_ex', 'HeadFileCover', workers=max(2, NCPU // 4), timeout=3000)
        vfuts = []
        for v in VARIANTS:
            n = sd.derive('HeadFileCover_quick', f'HeadFile_{v}', defects=[v], emit=False,
                          extra='INVARIANT C14_HeadNeverCorrupt\nPROPERTY C14_RestartsFromSavedPos\n'
                                'PROPERTY C14_NoSkip\nPROPERTY C14_BoundedReplay\n')
            cf = os.path.join(sd.d, n + '.cfg')
            txt = open(cf).read().replace('ACTION_CONSTRAINT HEmit\n', '')
            open(cf, 'w').write(txt)
            vfuts.append((v, n, tpool.submit(run_tlc, sd.d, n, 'HeadFileCover', workers=2, timeout=1200)))
        # ---- 2. spec -> code
        res = cover.result()
        if not res.ok:
            raise MachineryError(f'TLC failed on {cover_n}: {res.error or res.violated or "timeout"}')
        rep.add_tlc(cover_n, res, 'path cover: one label path + projected target state per transition')
        lines = c13.split_emit(res.out)
        if not lines:
            raise MachineryError(f'{cover_n} emitted no transitions')
        agg = replay_cover(pool, lines, ctx.seed, 6000 if ctx.quick else None, rnd)
        rep.traces += agg['paths']
        rep.evaluations += agg['paths']
        rep.distinct |= {f'cover:{i}' for i in range(agg['paths'])}
        for d in agg['drift'][:3]:
            rep.drift_note(f'{cover_n}: {d["mode"]} path {list(d["path"])}: {d["diff"]}')
        rep.extra['cover'] = {k: agg[k] for k in ('transitions', 'maximal_total', 'paths', 'steps', 'compared', 'ndrift',
                                                  'counts', 'crashes')}
        allviol = {k: dict(v, where='spec->code replay') for k, v in agg['viol'].items()}
        st = replay_cover(pool, lines, ctx.seed, 80, common.rng(ctx, 'st'), corrupt=True)
        if st['ndrift'] < st['cpaths'] or not st['cpaths']:
            raise MachineryError(f'self-test: only {st["ndrift"]} of {st["cpaths"]} corrupted expectations noticed')
        rep.extra['selftest_corrupted_expectations_rejected'] = f'{st["ndrift"]}/{st["cpaths"]}'
        # ---- 2b. the same for a reader without autorefresh whose application calls refresh(), files deleted under it
        resx = cover_ex.result()
        if not resx.ok:
            raise MachineryError(f'TLC failed on HeadFileCover_ex: {resx.error or resx.violated or "timeout"}')
        rep.add_tlc('HeadFileCover_ex', resx, 'path cover (reader with autorefresh=False, explicit refresh(), deletion under '
                                              'the running reader): one label path + projected target state per transition')
        linesx = c13.split_emit(resx.out)
        aggx = replay_cover(pool, linesx, ctx.seed, 4000 if ctx.quick else None, rnd, autoref=False)
        rep.traces += aggx['paths']
        rep.evaluations += aggx['paths']
        rep.distinct |= {f'coverx:{i}' for i in range(aggx['paths'])}
        for d in aggx['drift'][:3]:
            rep.drift_note(f'HeadFileCover_ex: {d["mode"]} path {list(d["path"])}: {d["diff"]}')
        rep.extra['cover_explicit_refresh'] = {k: aggx[k] for k in ('transitions', 'maximal_total', 'paths', 'steps', 'compared',
                                                                    'ndrift', 'counts', 'crashes')}
        for k, v in aggx['viol'].items():
            allviol.setdefault(k, dict(v, where='spec->code replay (explicit refresh)'))
        # ---- 3. code -> spec: fault enumeration
        nref = 3 if ctx.quick else 12
        nops = 14 if ctx.quick else 18
        jobs = []
        for h in range(nref):
            seed = ctx.seed * 1000 + h
            plans = enumerate_plans(seed, nops, 3, rnd, 150 if ctx.quick else 2500)
            for pi, plan in enumerate(plans):
                jobs.append((seed, nops, plan, H.MODES[(pi + h) % 4], (1, 2, 4)[(pi // 4 + h) % 3], False))
        fe = {'runs': 0, 'crashes': 0, 'saves': 0, 'cycles': 0, 'counts': {}, 'by_cycles': {}}
        for job, r in zip(jobs, pool.map(run_plan, jobs, chunksize=8)):
            fe['runs'] += 1
            fe['crashes'] += r['crashes']
            fe['saves'] += r['saves']
            fe['by_cycles'][r['cycles']] = fe['by_cycles'].get(r['cycles'], 0) + 1
            for k, v in r['counts'].items():
                fe['counts'][k] = fe['counts'].get(k, 0) + v
            rep.case(('plan', job[0], tuple(job[2]), job[3]), nontrivial=r['crashes'] > 0)
            for (formula, text, sig) in r['violations']:
                key = json.dumps(sig, sort_keys=True)
                allviol.setdefault(key, {'n': 0, 'text': text, 'sig': sig, 'formula': formula,
                                         'where': 'fault enumeration',
                                         'witness': {'reference_seed': job[0], 'nops': job[1], 'plan': job[2],
                                                     'mode': job[3], 'fsz': job[4],
                                                     'history': reference_history(job[0], job[1])}})['n'] += 1
        rep.traces += fe['runs']
        rep.extra['fault_enumeration'] = fe
        # the same with a reader without autorefresh, refresh() called by the application and files deleted under the reader
        jobsx = []
        for h in range(2 if ctx.quick else 10):
            seed = ctx.seed * 1000 + 500 + h
            for pi, plan in enumerate([[]] + enumerate_plans(seed, nops + 8, 2, rnd, 100 if ctx.quick else 1500, ex=True)):
                jobsx.append((seed, nops + 8, plan, H.MODES[(pi + h) % 4], (1, 2, 4)[(pi // 4 + h) % 3], False, False, True))
        fx = {'runs': 0, 'crashes': 0, 'saves': 0, 'counts': {}}
        for job, r in zip(jobsx, pool.map(run_plan, jobsx, chunksize=8)):
            fx['runs'] += 1
            fx['crashes'] += r['crashes']
            fx['saves'] += r['saves']
            for k, v in r['counts'].items():
                fx['counts'][k] = fx['counts'].get(k, 0) + v
            rep.case(('planx', job[0], tuple(job[2]), job[3]), nontrivial=r['crashes'] > 0)
            for (formula, text, sig) in r['violations']:
                key = json.dumps(dict(sig, explicit_refresh=True), sort_keys=True)
                allviol.setdefault(key, {'n': 0, 'text': text, 'sig': sig, 'formula': formula,
                                         'where': 'fault enumeration (explicit refresh, deletion under the reader)',
                                         'witness': {'reference_seed': job[0], 'nops': job[1], 'plan': job[2],
                                                     'mode': job[3], 'fsz': job[4], 'ex': True,
                                                     'history': reference_history(job[0], job[1], True)}})['n'] += 1
        rep.traces += fx['runs']
        if not fx['counts'].get('delete_under_reader_mid_file') or not fx['counts'].get('refresh'):
            raise MachineryError(f'the explicit-refresh histories never deleted the file the reader was in the middle of: {fx["counts"]}')
        rep.extra['fault_enumeration_explicit_refresh'] = fx
        rep.sample({'reference_history': reference_history(ctx.seed * 1000, nops), 'one_plan': jobs[len(jobs) // 2][2],
                    'plan_format': '(op index, file-system operation of write_head at which the process dies '
                                   '[1 open, 2 write, 3 close, 4 rename, 5 after rename, 0 between reader operations], '
                                   'bytes of the unflushed buffer left [0 none, 1 half, 2 all], file deleted while '
                                   'down)'})
        # ---- 3b. a sample of these executions, recorded and validated by TLC against TraceHeadFile
        ntr = 60 if ctx.quick else 800
        pick = [jobs[k] for k in sorted(rnd.sample(range(len(jobs)), min(ntr, len(jobs))))]
        recs = pool.map(run_plan, [j + (True,) for j in pick], chunksize=4)
        traces = [{'fsz': r['fsz'], 'tsz': r['tsz'], 'steps': r['steps']} for r in recs
                  if r['steps'] and all(s['l'][0] != 'unknown_fs_ops' for s in r['steps'])]
        tres, expect = validate_head_traces(sd, traces, nw)
        rep.add_tlc('TraceHeadFile', tres, f'{len(traces)} recorded crash/restart executions of the real code validated '
                                           f'against HeadFile.tla; C14 invariants and step formulas judged by TLC')
        if tres.error or tres.timed_out:
            raise MachineryError(f'TLC failed on TraceHeadFile: {tres.error or "timeout"}')
        if tres.violated == 'deadlock' or (not tres.violated and tres.distinct != expect):
            rep.drift_note(f'a recorded crash/restart execution is rejected by TraceHeadFile '
                           f'({tres.distinct} of {expect} states): {_last_tid(tres.out, pick)}')
        elif tres.violated:
            # TLC's own verdict on a real execution; the Python monitor must have reported it as well
            if not allviol:
                raise MachineryError(f'TLC reports {tres.violated} on a recorded execution but the monitor found '
                                     f'nothing\n{tres.out[-3000:]}')
            rep.note(f'TLC reports {tres.violated} on a recorded real execution (see the violations)')
        else:
            rep.traces += len(traces)
        pickx = [jobsx[k] for k in sorted(rnd.sample(range(len(jobsx)), min(ntr // 2, len(jobsx))))]
        recsx = pool.map(run_plan, [j[:6] + (True, True) for j in pickx], chunksize=4)
        tracesx = [{'fsz': r['fsz'], 'tsz': r['tsz'], 'steps': r['steps']} for r in recsx
                   if r['steps'] and all(s_['l'][0] != 'unknown_fs_ops' for s_ in r['steps'])]
        tresx, expectx = validate_head_traces(sd, tracesx, nw, cfg='TraceHeadFile_ex')
        rep.add_tlc('TraceHeadFile_ex', tresx, f'{len(tracesx)} recorded executions (explicit refresh(), deletion under the running '
                                               f'reader, crashes) validated against HeadFile.tla')
        if tresx.error or tresx.timed_out:
            raise MachineryError(f'TLC failed on TraceHeadFile_ex: {tresx.error or "timeout"}')
        if tresx.violated == 'deadlock' or (not tresx.violated and tresx.distinct != expectx):
            rep.drift_note(f'a recorded explicit-refresh execution is rejected by TraceHeadFile_ex '
                           f'({tresx.distinct} of {expectx} states): {_last_tid(tresx.out, pickx)}')
        elif tresx.violated:
            if not allviol:
                raise MachineryError(f'TLC reports {tresx.violated} on a recorded execution but the monitor found '
                                     f'nothing\n{tresx.out[-3000:]}')
            rep.note(f'TLC reports {tresx.violated} on a recorded real execution with explicit refresh (see the violations)')
        else:
            rep.traces += len(tracesx)
        fx['traces_validated_by_tlc'] = len(tracesx)
        bad = json.loads(json.dumps(traces[:6]))
        for t in bad:
            cs = [s for s in t['steps'] if s['cmp'] == 1 and s['l'][0] == 'restart']
            if cs:
                cs[-1]['obs']['head']['st'] = 'junk'
        tres2, _ = validate_head_traces(sd, bad, nw)
        if tres2.violated != 'deadlock':
            raise MachineryError('self-test: TraceHeadFile accepted corrupted traces')
        fe['traces_validated_by_tlc'] = len(traces)
        fe['tlc_states'] = tres.distinct
        fe['selftest_corrupted_trace_rejected'] = True
        # self-test: a head written in place must be caught
        stj = [(j[0], j[1], j[2], j[3], j[4], True) for j in jobs if len(j[2]) == 1 and j[2][0][1] in (2, 3)][:60]
        caught = sum(1 for r in pool.map(run_plan, stj, chunksize=4) if r['violations'])
        if not stj or caught == 0:
            raise MachineryError('self-test: a head file written in place was not caught by the monitor')
        rep.extra['selftest_in_place_head_caught'] = f'{caught}/{len(stj)} single-crash plans'
        for key, v in sorted(allviol.items()):
            w = dict(v['witness'])
            w.update({'found_by': v['where'], 'formula': v['formula']})
            rep.violation(f'{v["formula"]}: {v["text"]} [{v["where"]}; {v["n"]} witnesses of this kind]', w, v['sig'])
        # ---- 1. design level
        for v, n, fut in vfuts:
            r = fut.result()
            rep.add_tlc(n, r, f'Defects = {{"{v}"}}: a design the property rules out - TLC must find the counterexample')
            if r.error or r.timed_out:
                raise MachineryError(f'TLC failed on {n}: {r.error or "timeout"}')
            if not r.violated:
                raise MachineryError(f'HeadFile with "{v}" satisfies every C14 formula: the formulas are vacuous')
            cex = c13.path_of_counterexample(r.out)
            if cex:
                # a counterexample of the specification is not a verdict: replayed on the code
                got = []
                for mode in c13.LINE_MODES:
                    rr = replay_head_path(cex, {}, mode, crash_at_end=True)
                    rep.traces += 1
                    got += rr['violations']
                for (formula, text, sig) in got[:1]:
                    rep.violation(f'{formula}: {text} [TLC counterexample of the design "{v}" reproduced by the real '
                                  f'code]', {'labels': cex, 'mode': 'txt', 'found_by': f'design variant {v}'}, sig)
                rep.extra.setdefault('design_variants', {})[v] = {
                    'tlc': r.violated, 'labels': [list(l) for l in cex],
                    'real_code': 'reproduces it' if got else 'does not reproduce it (the code does not have this design)'}
        for n, fut in proofs_ex:
            r = fut.result()
            common.tlc_must_pass(r, n)
            rep.add_tlc(n, r, 'Defects = {}: the C14 formulas with refresh() called by the application and files deleted under '
                              'the running reader')
        r = proof.result()
        common.tlc_must_pass(r, f'HeadFile_{tier}')
        rep.add_tlc(f'HeadFile_{tier}', r, 'Defects = {}: temp file + rename satisfies the C14 formulas')
        rep.exhaustive = (not ctx.quick) and agg['ndrift'] == 0
        return rep.finish()
    finally:
        pool.terminate()
        tpool.shutdown(wait=False, cancel_futures=True)
        sd.close()


def selftest(ctx=None):
    """(a) corrupted expectations (head state flipped at every compared node) must make every replay drift; (b) with
    the file layer redirected so that write_head writes the head in place, single-crash plans must produce violations;
    (c) the same plans on the unmodified layer must be silent."""
    import multiprocessing as mp
    ctx = ctx or common.Ctx('C14')
    common.use_repo()
    sd = c13.SpecDir()
    pool = mp.get_context('fork').Pool(4)
    try:
        res = run_tlc(sd.d, 'HeadFileCover_quick', 'HeadFileCover', workers=4, timeout=600)
        if not res.ok:
            raise MachineryError(f'selftest: TLC failed: {res.error or res.violated}')
        st = replay_cover(pool, c13.split_emit(res.out), 0, 60, common.rng(ctx, 'selftest'), corrupt=True)
        plans = [p for p in enumerate_plans(1, 12, 1, common.rng(ctx, 'st2'), 0) if p[0][1] in (2, 3)][:40]
        bad = sum(1 for r in pool.map(run_plan, [(1, 12, p, 'txt', 2, True) for p in plans]) if r['violations'])
        good = sum(1 for r in pool.map(run_plan, [(1, 12, p, 'txt', 2, False) for p in plans]) if r['violations'])
        print(f'selftest C14: corrupted expectations rejected {st["ndrift"]}/{st["cpaths"]}; head written in place: '
              f'{bad}/{len(plans)} plans flagged; unmodified: {good}/{len(plans)} flagged')
        return 0 if (st['ndrift'] == st['cpaths'] > 0 and bad > 0 and good == 0) else 2
    finally:
        pool.terminate()
        sd.close()


def replay(ctx):
    common.use_repo()
    w = json.load(open(ctx.replay))
    wit = w['witness']
    print(json.dumps({'what': w['what'], 'signature': w['signature']}, indent=1))
    if 'labels' in wit:
        rd = wit.get('render', {})
        rr = replay_head_path(tuple(tuple(l) for l in wit['labels']), {}, wit['mode'], rd.get('unit', 8),
                              rd.get('step', 1.0), tuple(rd.get('slack', (0, 0))), rd.get('utc', True),
                              autoref=wit.get('autoref', True))
    else:
        rr = run_plan((wit['reference_seed'], wit['nops'], [tuple(p) for p in wit['plan']], wit['mode'], wit['fsz'],
                       False, False, bool(wit.get('ex'))))
    for v in rr['violations']:
        print('VIOLATION-REPRODUCED', v)
    return 1 if rr['violations'] else 0

"""C17 - resize keeps bounds and aspect; flips and rotations are exact inverses.

Specification: spec/func/Xform.tla - exact-integer reference of the size arithmetic of Util.execute_xform_size and of the
video reader's `maxsize` / `resize` options (branch by branch), images as functions [1..h] -> [1..w] -> pixel id, the
flips/rotations as index permutations, channel swaps as a bit on the pixel id, the box as a rectangle predicate; chains
of transforms; the laws of C17 as invariants; the code's deviations as `Defects` switches.

TLC checks every law on every case (state space = set of cases: all sizes x bounds of the tier, all chains of <= 2
transforms over an 18-letter alphabet and of 3 over the permutations on all small frames, plus the cases this harness
supplies through VERIF_IN: large-size boundary families up to ~4000 px and sampled chains with arbitrary parameters) and
serialises one vector per case.  Every vector is executed against the real code:

  * Util: the xform strings are parsed by the real `Util.normalize_config` and run by the real `Util.execute_xforms`
    (and through it execute_xform_size / execute_xform_box / Frame.rgb|bgr|gray) on coordinate-encoded frames;
  * video reader: a `VideoReader` built by its real constructor (vidgear's VideoGear replaced by a stub, no video file),
    its real `thread_reader` loop run on injected frames.

On every real result the property's own formulas are evaluated (violation); the result is compared with the reference
(size, format, every judged pixel; a difference alone is drift).  Interpolated pixel values are not judged.
"""
import json
import os
import tempfile
import threading
from collections import Counter, deque
from fractions import Fraction

from . import common
from .common import Report, run_tlc, tlc_emit_json, tlc_must_pass, MachineryError, SPEC

SPEC_DIR = os.path.join(SPEC, 'func')
DEN = 16
PALETTE = {0: None, 1: 'f00', 2: '123457', 3: 'f01'}
PALETTE_RGB = {0: (0, 0, 0), 1: (255, 0, 0), 2: (18, 52, 87), 3: (255, 0, 17)}
INTERPS = ('', 'n', 'near', 'l', 'lin', 'c', 'cub', 'N', 'Lin', 'CUB', ' near', ' c')
PERMS = ('flipx', 'flipy', 'flipboth', 'rotcw', 'rotccw')
FMTS = ('swaprgb', 'fmtrgb', 'fmtbgr', 'fmtgray')
SIZES = ('resize', 'maxsize', 'minsize')
INVERSE_PAIRS = {('flipx', 'flipx'), ('flipy', 'flipy'), ('flipboth', 'flipboth'), ('rotcw', 'rotccw'),
                 ('rotccw', 'rotcw')}
MAX_AREA = 20_000_000       # largest frame (pixels) the harness lets a transform produce
# expected TLC verdict of the defect configurations (spec with one deviation switched on)
DEFECT_CFGS = {'Xform_d_zero': 'InvNoFail', 'Xform_d_vresize': 'InvVResizeFit', 'Xform_d_float': None}


# ---------------------------------------------------------------------------------------------------------------------
# cases (the vocabulary of Xform.tla)

def xf(act, W=0, H=0, asp=True, b=(0, 0, 0, 0), col=0):
    return {'act': act, 'W': int(W), 'H': int(H), 'asp': bool(asp), 'b': [int(x) for x in b], 'col': int(col)}


def case(site, fmt, w, h, xs):
    return {'site': site, 'fmt': fmt, 'w': int(w), 'h': int(h), 'xs': list(xs)}


def case_key(c):
    return json.dumps(c, sort_keys=True)


def _dec(k):
    """k/16 as a decimal string the code's regular expression accepts (exact in binary floating point)."""
    s = f'{k / DEN:.4f}'.rstrip('0')
    return (s[:-1] or '0') if s.endswith('.') else s


def render(x, variant=0):
    """The xform string of the Util config (or the video reader's option value) for one reference transform."""
    a = x['act']
    if a in SIZES:
        sep = 'x' if x['asp'] else '+'
        interp = INTERPS[variant % len(INTERPS)]
        sp = ' ' if (variant // len(INTERPS)) % 2 else ''
        return f'{a} {x["W"]}{sp}{sep}{sp}{x["H"]}{interp}'
    if a == 'box':
        x0, y0, bw, bh = x['b']
        s = f'box {_dec(x0)}+{_dec(y0)}x{_dec(bw)}x{_dec(bh)}'
        if x['col']:
            s += '#' + PALETTE[x['col']]
        return s
    return a if variant % 3 else a.upper() if variant % 2 else a


def est_out(site, x, w, h):
    """Rough upper estimate of the output size of one size transform (only to keep generated cases affordable)."""
    a, W, H, asp = x['act'], x['W'], x['H'], x['asp']
    if a == 'resize':
        if site == 'video' and asp:          # the as-is shortcuts may leave the box
            return (max(W, w * H // h + 1), max(H, h * W // w + 1))
        return (W, H)
    if a == 'maxsize':
        return (min(w, W), min(h, H))
    if not asp:
        return (max(w, W), max(h, H))
    s = max(Fraction(W, w), Fraction(H, h), 1)
    return (int(w * s) + 1, int(h * s) + 1)


def gen_extra(ctx):
    """Cases beyond the enumerated domain: large-size boundary families, the float-truncation squares, chains with
    arbitrary parameters on small (pixel-tracked) and on large frames.  Deterministic in (seed, tier)."""
    r = common.rng(ctx, 'extra')
    q = ctx.quick
    out, seen = [], set()

    def add(c):
        k = case_key(c)
        if k not in seen:
            seen.add(k)
            out.append(c)

    for c, _asis, _ideal in PINNED:
        add(c)
    # --- size families ------------------------------------------------------------------------------------------------
    bases = [(4000, 4000), (4000, 1), (1, 4000), (1000, 1), (1, 1000), (4000, 3), (3, 4000), (1920, 1080),
             (1080, 1920), (640, 480), (3999, 4000), (255, 257), (49, 49), (98, 98), (103, 107), (1, 1), (2, 1),
             (2999, 17), (17, 2999), (3523, 1215), (1388, 1394)]
    if not q:
        bases += [(4000, 2), (2, 4000), (3840, 2160), (2160, 3840), (161, 161), (187, 187), (197, 197), (1024, 768),
                  (4000, 3999), (333, 4000), (4000, 333), (7, 3001), (3001, 7), (1985, 3146), (2711, 1458)]
        for _ in range(40):
            bases.append((r.randint(1, 4000), r.randint(1, 4000)))
    site_acts = [('util', 'resize'), ('util', 'maxsize'), ('util', 'minsize'), ('video', 'maxsize'), ('video', 'resize')]
    for (w, h) in bases:
        bounds = {(w, h), (w + 1, h), (w, h + 1), (w + 1, h + 1), (w - 1, h), (w, h - 1), (w - 1, h - 1),
                  (w - 1, h + 1), (w + 1, h - 1), (1, 1), (1, h), (w, 1), (10, 10), (4000, 4000), (4000, 1), (1, 4000),
                  (w // 2, h // 2), (w * 2, h * 2), (w // 3, h), (w, h // 3), (h, w), (49, 49), (7, 4000), (4000, 7)}
        for _ in range(2 if q else 8):
            bounds.add((r.randint(1, 4000), r.randint(1, 4000)))
            bounds.add((r.randint(1, max(1, w)), r.randint(1, max(1, h))))
        bounds = sorted(b for b in bounds if 1 <= b[0] <= 4100 and 1 <= b[1] <= 4100)
        if q:
            r.shuffle(bounds)
            bounds = sorted(bounds[:9] + [b for b in ((w, h), (10, 10), (1, 1), (w - 1, h + 1), (w + 1, h))
                                           if b[0] >= 1 and b[1] >= 1])
        for (W, H) in bounds:
            for (site, act) in site_acts:
                for asp in (True, False):
                    if q and r.random() < 0.5 and (W, H) not in ((10, 10), (1, 1)):
                        continue
                    x = xf(act, W, H, asp)
                    ew, eh = est_out(site, x, w, h)
                    if ew * eh > MAX_AREA or ew > 16000 or eh > 16000:
                        continue
                    add(case(site, 'BGR', w, h, [x]))
    # squares n x n -> 1x1 and n x n -> k x k (exact product an integer: float truncation), incl. the classic 49
    for nn in ([49, 98, 103, 107, 161] if q else range(3, 400)):
        add(case('util', 'BGR', nn, nn, [xf('maxsize', 1, 1, True)]))
        add(case('video', 'BGR', nn, nn, [xf('maxsize', 1, 1, True)]))
        if not q:
            add(case('video', 'BGR', nn, nn, [xf('resize', 1, 1, True)]))
            add(case('util', 'BGR', nn, 2 * nn, [xf('maxsize', 2, 4, True)]))

    # float-hazard pairs: side * (bound / side) computed in floats lands a hair below the integer bound and int() truncates
    # it to bound - 1 (about 4 % of all pairs); only the final clamp to the bounds keeps the size laws - exercise exactly
    # those pairs with the hazardous ratio dominating, both sides short (minsize) / both sides long (maxsize, resize)
    hz = [(sd, bd) for sd in range(1, 34 if q else 80) for bd in range(1, 90 if q else 260)
          if sd != bd and int(sd * (bd / sd)) != bd]
    if q:
        r.shuffle(hz)
        hz = sorted(hz[:70])
    for sd, bd in hz:
        other = bd - 1 if bd > sd else bd + 1          # the other bound gives the non-dominating ratio
        if other < 1 or (bd > sd and other <= sd):
            continue
        for (w, h, W, H) in ((sd, sd, bd, other), (sd, sd, other, bd)):
            for (site, act) in (('util', 'minsize'), ('util', 'maxsize'), ('video', 'maxsize'), ('video', 'resize')):
                if (act == 'minsize') != (bd > sd):
                    continue
                add(case(site, 'BGR', w, h, [xf(act, W, H, True)]))

    # --- chains with arbitrary parameters ---------------------------------------------------------------------------------
    def rand_xf(w, h, small):
        k = r.random()
        if k < 0.30:
            return xf(r.choice(PERMS))
        if k < 0.45:
            return xf(r.choice(FMTS))
        if k < 0.65:
            x0, y0 = r.randint(0, 16), r.randint(0, 16)
            return xf('box', b=(x0, y0, r.randint(0, 20), r.randint(0, 20)), col=r.randint(0, 3))
        act = r.choice(SIZES)
        top = 12 if small else 4100
        near = [(w, h), (w + 1, h), (w, h - 1), (w - 1, h + 1), (w * 2, h), (w, h * 2), (w // 2, h // 2)]
        W, H = r.choice(near) if r.random() < 0.5 else (r.randint(1, top), r.randint(1, top))
        return xf(act, max(1, W), max(1, H), r.random() < 0.6)

    def rand_chain(w, h, fmt, small):
        xs, cw, ch = [], w, h
        for _ in range(r.choice((1, 2, 3, 3, 3))):
            for _try in range(20):
                x = rand_xf(cw, ch, small)
                if x['act'] in SIZES:
                    ew, eh = est_out('util', x, cw, ch)
                    if ew * eh > (144 if small else MAX_AREA) or ew > 8000 or eh > 8000:
                        continue
                    cw, ch = (x['W'], x['H']) if x['act'] == 'resize' else (ew, eh)
                elif x['act'] in ('rotcw', 'rotccw'):
                    cw, ch = ch, cw
                break
            else:
                x = xf('flipx')
            xs.append(x)
        return case('util', fmt, w, h, xs)

    for _ in range(1500 if q else 12000):
        add(rand_chain(r.randint(1, 10), r.randint(1, 10), r.choice(('GRAY', 'BGR', 'RGB')), True))
    big = [(4000, 3000), (3000, 4000), (4000, 1), (1, 4000), (1279, 721), (257, 4000)]
    if not q:
        big += [(4000, 4000), (3, 3999), (3999, 3), (2048, 2048), (1000, 1), (641, 479)]
    for (w, h) in big:
        for fmt in ('GRAY', 'BGR', 'RGB'):
            if q and fmt == 'RGB' and w * h > 4_000_000:
                continue
            for a, b in sorted(INVERSE_PAIRS) + [('flipx', 'flipy'), ('flipy', 'flipx')]:
                if q and (w * h) > 4_000_000 and fmt != 'BGR' and a != 'rotcw':
                    continue
                add(case('util', fmt, w, h, [xf(a), xf(b)]))
            for _ in range(2 if q else 12):
                add(rand_chain(w, h, fmt, False))
    return out


# ---------------------------------------------------------------------------------------------------------------------
# the property's formulas, evaluated on real results

def aspect_within1(w, h, a, b):
    return (a - 1) * h <= (b + 1) * w and (b - 1) * w <= (a + 1) * h


def near_largest_inside(w, h, W, H, a, b):
    if W * h <= H * w:
        return abs(a - W) <= 1 and abs(b * w - h * W) <= w
    return abs(a * h - w * H) <= h and abs(b - H) <= 1


def size_laws(site, x, w, h, a, b, count=None):
    """Names of the size laws of C17 that (w, h) -> (a, b) under transform x falsifies."""
    act, W, H, asp = x['act'], x['W'], x['H'], x['asp']
    bad = []

    def law(name, ok):
        if count is not None:
            count[name] += 1
        if not ok:
            bad.append(name)

    if act == 'resize':
        if site == 'util' or not asp:
            law('resize_exact', (a, b) == (W, H))
        else:
            law('vresize_inside', a <= W and b <= H)
            law('vresize_largest', near_largest_inside(w, h, W, H, a, b))
    elif act == 'maxsize':
        law('max_bound', a <= W and b <= H)
        law('max_no_enlarge', a <= w and b <= h)
        if asp:
            law('aspect_x', aspect_within1(w, h, a, b))
        else:
            law('independent_plus', (a, b) == (min(w, W), min(h, H)))
    elif act == 'minsize':
        law('min_bound', a >= W and b >= H)
        law('min_no_shrink', a >= w and b >= h)
        if asp:
            law('aspect_x', aspect_within1(w, h, a, b))
        else:
            law('independent_plus', (a, b) == (max(w, W), max(h, H)))
    return bad


def branch_of(x, w, h):
    act, W, H = x['act'], x['W'], x['H']
    if act == 'resize':
        return 'resize:' + ('same' if (w, h) == (W, H) else 'w_equal' if w == W else 'h_equal' if h == H else 'both_differ')
    over = (w > W, h > H) if act == 'maxsize' else (w < W, h < H)
    return f'{act}:' + {(False, False): 'none', (True, False): 'w_only', (False, True): 'h_only',
                        (True, True): 'both'}[over] + ('' if x['asp'] else '+')


def perm_formula(np, act, arr):
    """The five permutations as index maps (numpy views of the step's real input): out[r][c] = ..."""
    if act == 'flipx':
        return arr[:, ::-1]                  # in[r][w-1-c]
    if act == 'flipy':
        return arr[::-1]                     # in[h-1-r][c]
    if act == 'flipboth':
        return arr[::-1, ::-1]               # in[h-1-r][w-1-c]
    if act == 'rotcw':
        return np.swapaxes(arr, 0, 1)[:, ::-1] if arr.ndim == 2 else np.transpose(arr, (1, 0, 2))[:, ::-1]  # in[h-1-c][r]
    if act == 'rotccw':
        return np.swapaxes(arr, 0, 1)[::-1] if arr.ndim == 2 else np.transpose(arr, (1, 0, 2))[::-1]        # in[c][w-1-r]
    raise ValueError(act)


def rect_of(x, w, h):
    """Pixel rectangle of a box, both corners inclusive, clipped (0-based half-open slices)."""
    x0, y0, bw, bh = x['b']
    c0, c1 = (w * x0) // DEN, (w * (x0 + bw)) // DEN
    r0, r1 = (h * y0) // DEN, (h * (y0 + bh)) // DEN
    return (min(r0, h), min(r1 + 1, h), min(c0, w), min(c1 + 1, w))


def inner_rect_of(x, w, h):
    """The pixels that lie entirely within the real-valued rectangle [w*x0, w*x1] x [h*y0, h*y1] (these must be drawn
    whatever the rounding convention of the edges)."""
    x0, y0, bw, bh = x['b']
    c0, c1 = -((-w * x0) // DEN), (w * (x0 + bw)) // DEN
    r0, r1 = -((-h * y0) // DEN), (h * (y0 + bh)) // DEN
    return (min(r0, h), min(max(r1, r0), h), min(c0, w), min(max(c1, c0), w))


def box_colour(fmt, col):
    k = PALETTE_RGB[col]
    if fmt == 'RGB':
        return k
    if fmt == 'BGR':
        return k[::-1]
    return None     # GRAY: the property does not say which luminance - compared with the reference only (drift)


# ---------------------------------------------------------------------------------------------------------------------
# real-code drivers

class Real:
    """Runs the real transform code.  Results are ('ok', array, fmt) or ('raised', exception type, text)."""

    def __init__(self):
        common.use_repo()
        import numpy as np
        import cv2  # noqa: F401
        from openfilter.filter_runtime.filters.util import Util
        from openfilter.filter_runtime.filters import video_in
        from openfilter.filter_runtime import Frame
        from openfilter.filter_runtime.utils import adict
        self.np, self.Util, self.Frame, self.adict, self.video_in = np, Util, Frame, adict, video_in
        self.util = object.__new__(Util)      # execute_xforms & co. use no instance state
        self._cfgs, self._proc_util = {}, None
        self._parsed = {}
        self._src = {}
        self.calls = 0

    # -- frames ----------------------------------------------------------------------------------------------------------
    def source(self, w, h, fmt, plane=None):
        """Coordinate-encoded frame: pixel (r, c) carries id = r*w + c in its three channels (little end first); a GRAY
        frame carries one byte of it (plane 0..2) - frames of <= 256 pixels are fully encoded by plane 0."""
        np = self.np
        key = (w, h, fmt, plane or 0)
        arr = self._src.get(key)
        if arr is None:
            ids = np.arange(w * h, dtype=np.uint32).reshape(h, w)
            if fmt == 'GRAY':
                arr = ((ids >> (8 * (plane or 0))) & 255).astype(np.uint8)
            else:
                arr = np.empty((h, w, 3), np.uint8)
                for ch in range(3):
                    arr[:, :, ch] = (ids >> (8 * ch)) & 255
            arr.flags.writeable = False         # every run gets its own copy
            if w * h > 100000:
                if len(self._src) > 3:
                    self._src.pop(next(iter(self._src)))
                self._src[key] = arr
        return arr

    def blank(self, w, h, fmt):
        """Frame whose content does not matter (size-only chains)."""
        return self.np.zeros((h, w) if fmt == 'GRAY' else (h, w, 3), self.np.uint8)

    @staticmethod
    def gray_planes(w, h):
        n = w * h
        return 1 if n <= 256 else 2 if n <= 65536 else 3

    # -- Util ----------------------------------------------------------------------------------------------------------
    def parse(self, text):
        p = self._parsed.get(text)
        if p is None:
            cfg = self.Util.normalize_config(dict(id='c17', sources='tcp://localhost', xforms=text))
            p = self._parsed[text] = cfg.xforms
            if len(self._parsed) > 50000:
                self._parsed.clear()
        return p

    def util_run(self, arr, fmt, ro, text):
        """One call of Util.execute_xforms on a fresh copy of arr."""
        self.calls += 1
        img = arr.copy()
        if ro:
            img.flags.writeable = False
        frame = self.Frame(img) if fmt == 'GRAY' else self.Frame(img, format=fmt)
        try:
            parts = text.split(',')
            if len(parts) >= 2 and self.calls % 2 == 0:
                # the filter's own path: setup() + process() on a frame set, every other transformation written for topic
                # 'main' only and the rest for all topics - the order of the configuration is the order of execution
                mixed = ','.join(p_ + ';main' if i % 2 == 0 else p_ for i, p_ in enumerate(parts))
                cfg = self._cfgs.get(mixed)
                if cfg is None:
                    cfg = self._cfgs[mixed] = self.Util.normalize_config(dict(id='c17', sources='tcp://localhost', xforms=mixed))
                    if len(self._cfgs) > 20000:
                        self._cfgs.clear()
                u = object.__new__(self.Util)
                u.setup(cfg)
                try:
                    out = u.process({'main': frame, 'other': self.Frame({'meta': 1})})['main']
                finally:
                    ex = getattr(u, 'executor', None)
                    if ex is not None:
                        ex.shutdown(wait=False)
                return ('ok', out.image, out.format)
            xforms = self.parse(text)
            out = self.util.execute_xforms(self.adict(topic='main', frame=frame, xforms=xforms)).frame
            return ('ok', out.image, out.format)
        except Exception as e:        # an exception of the code under test is an observation, judged by the property
            return ('raised', type(e).__name__, str(e).strip().replace('\n', ' ')[:300])

    # -- video reader ----------------------------------------------------------------------------------------------------
    def video_reader(self, option, value, bgr=True):
        """A VideoReader from its real constructor; vidgear's VideoGear (which would open a file) replaced by a stub."""
        import vidgear.gears as vg

        class StubGear:
            def __init__(self, source=None, **kw):
                class S:
                    framerate = 30.0
                self.stream = S()

            def start(self):
                return self

            def read(self):
                return None

            def stop(self):
                pass

        saved = vg.VideoGear
        vg.VideoGear = StubGear
        try:
            rd = self.video_in.VideoReader('file:///c17-not-a-file.mp4', **{option: value}, bgr=bgr, sync=True)
        finally:
            vg.VideoGear = saved
        rd.deque = deque()                    # the reader keeps only the newest frame (maxlen=1); keep all of them
        return rd

    def video_run_threaded(self, option, value, image, bgr=True, timeout=20.0):
        """The same through the reader's own thread: real start() / read_one() / read() with `sync` delivery, the stub
        VideoGear handing out the frame.  ('ok', array, None) | ('raised', type, text) when the reader thread died."""
        import time
        rd = self.video_reader(option, value, bgr)
        rd.deque = type(rd.deque)(maxlen=1)       # as constructed by the code
        frames = [image]
        rd.stream.read = lambda: frames.pop(0) if frames else None
        died = []
        saved = threading.excepthook
        threading.excepthook = lambda a: died.append(('raised', a.exc_type.__name__,
                                                      str(a.exc_value).strip().replace('\n', ' ')[:300]))
        self.calls += 1
        try:
            rd.start()
            t0 = time.time()
            while not rd.frame_available and rd.thread.is_alive() and time.time() - t0 < timeout:
                time.sleep(0.0005)
            if rd.frame_available:
                out = rd.read()
                res = ('ok', out, None) if out is not None else ('raised', 'EndOfVideo', 'reader delivered no frame')
            else:
                rd.thread.join(1.0)
                if rd.thread.is_alive():
                    raise MachineryError(f'video reader thread neither delivered a frame nor ended ({option}={value})')
                res = died[0] if died else ('raised', 'EndOfVideo', 'reader thread ended without a frame')
            rd.stop()
            if rd.sync_evt is not None:
                rd.sync_evt.set()
            rd.thread.join(2.0)
            return res
        finally:
            threading.excepthook = saved

    def video_run(self, option, value, images, bgr=True):
        """Real VideoReader.thread_reader over the injected frames, one result per frame."""
        results, rest = [], list(images)
        while rest:
            try:
                rd = self.video_reader(option, value, bgr)
            except ValueError as e:           # the option value was refused
                return results + [('raised', 'ValueError', str(e)[:300])] * len(rest)
            it = iter(rest)
            rd.read_one = lambda it=it: next(it, None)         # frame acquisition (vidgear, pacing) is not under test
            self.calls += 1
            try:
                rd.thread_reader()
                err = None
            except Exception as e:
                err = ('raised', type(e).__name__, str(e).strip().replace('\n', ' ')[:300])
            got = [im for (im, _t) in rd.deque if im is not None]
            results += [('ok', im, None) for im in got]
            if err is None:
                break
            results.append(err)
            rest = rest[len(got) + 1:]
        if len(results) != len(images):
            raise MachineryError(f'video reader returned {len(results)} results for {len(images)} frames')
        return results


# ---------------------------------------------------------------------------------------------------------------------
# evaluation of one vector

class Judge:
    def __init__(self, rep, real):
        self.rep, self.real, self.np = rep, real, real.np
        self.law_count = Counter()
        self.branches = Counter()
        self.declared = Counter()
        self.acts = Counter()
        self.viol_kinds = Counter()
        self.drifts = 0
        self.out = []          # (kind, text, witness, sig) in selftest mode
        self.collect = False

    # -- reporting -------------------------------------------------------------------------------------------------------
    def violation(self, what, witness, sig):
        self.viol_kinds[sig.get('kind')] += 1
        self.out.append(('violation', what, witness, sig))

    def flush(self):
        """Hand the witnesses to the report: the listed (pinned) witnesses first, then one per kind of violation, then
        the rest - the report writes replay files only for the first few."""
        pinned = {case_key(c) for c, _a, _i in PINNED}
        first, lead, rest, kinds = [], [], [], set()
        for o in self.out:
            if o[0] != 'violation':
                continue
            k = (o[3].get('kind'), o[3].get('site'), o[3].get('one_side_equal'))
            if case_key(o[2].get('case', {})) in pinned and o[2].get('step', 1) == 1:
                first.append(o)
                kinds.add(k)
            elif k not in kinds:
                kinds.add(k)
                lead.append(o)
            else:
                rest.append(o)
        for _t, what, witness, sig in first + lead + rest:
            self.rep.violation(what, witness, sig)
        self.out = []

    def drift(self, what):
        self.drifts += 1
        if self.collect:
            self.out.append(('drift', what, None, None))
        elif self.drifts <= 25:
            self.rep.drift_note(what)

    # -- reference helpers -----------------------------------------------------------------------------------------------
    def expected_pixels(self, refimg, src, fmt_now, w0, cols):
        """Decode a reference frame with pixel matrix into (mask, expected array) for source array `src`."""
        np = self.np
        P = np.array(refimg['px'], dtype=np.int64)
        if P.ndim != 2:
            P = P.reshape(refimg['h'], refimg['w'])
        gray_now = fmt_now == 'GRAY'
        h, w = P.shape
        exp = np.zeros((h, w) if gray_now else (h, w, 3), dtype=np.uint8)
        pos = P > 0
        if pos.any():
            ids = P[pos] // 2 - 1
            sw = (P[pos] % 2) == 1
            r0, c0 = ids // w0, ids % w0
            v = src[r0, c0]
            if gray_now:
                if src.ndim != 2:
                    raise MachineryError('reference judges a GRAY pixel of a colour source')
                exp[pos] = v
            elif src.ndim == 2:
                exp[pos] = np.stack([v, v, v], axis=-1)
            else:
                v = v.copy()
                v[sw] = v[sw][:, ::-1]
                exp[pos] = v
        neg = P < 0
        if neg.any():
            j = (-P[neg]) // 2
            sw = ((-P[neg]) % 2) == 1
            colarr = np.array([[0, 0, 0]] + [list(c) for c in cols], dtype=np.uint8)[j]
            if gray_now:
                exp[neg] = colarr[:, 0]
            else:
                colarr[sw] = colarr[sw][:, ::-1]
                exp[neg] = colarr
        return P != 0, exp

    # -- one case --------------------------------------------------------------------------------------------------------
    def run_case(self, vec, idx=0, ro=None, fake=None):
        """Execute one vector against the real code; `fake(prefix_len, result)` may tamper with results (selftest)."""
        c = vec['c']
        if c['site'] == 'video':
            raise MachineryError('video vectors are executed in batches')
        np, real = self.np, self.real
        w0, h0, fmt0, xs = c['w'], c['h'], c['fmt'], c['xs']
        n = len(xs)
        ro = bool(idx % 2) if ro is None else ro
        texts = [render(x, idx + 7 * j) for j, x in enumerate(xs)]
        pure_size = all(x['act'] in SIZES for x in xs)
        if pure_size:      # the reference of a size-only chain does not depend on the format: vary the real one
            fmt0 = ('GRAY', 'BGR', 'RGB')[idx % 3] if w0 * h0 <= 1_000_000 or idx % 4 == 0 else 'GRAY'
        planes = (0,)
        if fmt0 == 'GRAY' and any(x['act'] in PERMS or x['act'] == 'box' for x in xs):
            planes = range(real.gray_planes(w0, h0))      # every byte of the pixel id gets its own run
        witness0 = {'site': 'util', 'case': c, 'xforms': ', '.join(texts), 'idx': idx, 'ro': ro,
                    'frame': f'{w0}x{h0} {fmt0} {"ro" if ro else "rw"}'}
        for plane in planes:
            src = real.blank(w0, h0, fmt0) if pure_size and w0 * h0 > 100 else real.source(w0, h0, fmt0, plane)
            # prefix runs: results[k] = real result of the first k transforms in ONE execute_xforms call
            results = [('ok', src, fmt0)]
            for k in range(1, n + 1):
                res = real.util_run(src, fmt0, ro, ', '.join(texts[:k]))
                if fake is not None:
                    res = fake(k, res)
                results.append(res)
                self.rep.traces += 1
                if res[0] != 'ok':
                    break
            self.judge_chain(vec, results, src, texts, witness0, fmt0 if pure_size else None)
            # flipboth = flipx o flipy, on the real code
            acts = tuple(x['act'] for x in xs)
            if acts in (('flipx', 'flipy'), ('flipy', 'flipx')) and results[-1][0] == 'ok':
                fb = real.util_run(src, fmt0, ro, 'flipboth')
                self.rep.traces += 1
                self.law_count['flipboth_is_flipx_flipy'] += 1
                if fb[0] != 'ok' or not np.array_equal(fb[1], results[-1][1]):
                    self.violation(f'flipboth differs from {" o ".join(acts)} on a {w0}x{h0} {fmt0} frame', witness0,
                                   {'kind': 'flipboth_composition', 'site': 'util'})

    def judge_chain(self, vec, results, src, texts, witness0, fmt_real=None):
        np = self.np
        c = vec['c']
        w0, h0, fmt0, xs = c['w'], c['h'], fmt_real or c['fmt'], c['xs']
        asis, ideal, cols = vec['asis'], vec['ideal'] or vec['asis'], vec['cols']
        tainted = False        # a step already falsified a law: later frames are not comparable with the reference
        for k in range(1, len(results)):
            x = xs[k - 1]
            act = x['act']
            _st, inarr, infmt = results[k - 1]
            ih, iw = inarr.shape[:2]
            res = results[k]
            self.acts[act] += 1
            wit = dict(witness0, step=k, transform=texts[k - 1], input=f'{iw}x{ih} {infmt}')
            ref_as = asis[k - 1]
            ref_all = ref_as + [i for i in ideal[k - 1] if i not in ref_as]
            violated = False
            # ---- no valid image makes a transform fail
            self.law_count['no_fail'] += 1
            if act in SIZES:
                self.branches[branch_of(x, iw, ih)] += 1
            if res[0] != 'ok':
                zero = [i for i in ref_as if i['w'] < 1 or i['h'] < 1]
                wit.update(raised=f'{res[1]}: {res[2]}',
                           reference_size=[f'{i["w"]}x{i["h"]}' for i in ref_all])
                kind = 'zero_dimension' if zero and act in SIZES else 'transform_failed'
                self.violation(f'{texts[k - 1]!r} on a valid {iw}x{ih} {infmt} frame raised {res[1]}'
                               + (f' (computed size {zero[0]["w"]}x{zero[0]["h"]})' if zero else ''), wit,
                               {'kind': kind, 'site': 'util', 'act': act})
                return
            _ok, outarr, outfmt = res
            oh, ow = outarr.shape[:2]
            wit['output'] = f'{ow}x{oh} {outfmt}'
            # ---- the property's formulas on the real step
            if act in SIZES:
                for name in size_laws('util', x, iw, ih, ow, oh, self.law_count):
                    violated = True
                    self.violation(f'{texts[k - 1]!r}: {iw}x{ih} -> {ow}x{oh} falsifies {name}', wit,
                                   {'kind': name, 'site': 'util', 'act': act})
            elif act in PERMS:
                self.law_count['permutation'] += 1
                want = perm_formula(np, act, inarr)
                if outfmt != infmt or outarr.shape != want.shape or not np.array_equal(outarr, want):
                    violated = True
                    self.violation(f'{act} of a {iw}x{ih} {infmt} frame is not the {act} permutation of its pixels '
                                   f'(got {ow}x{oh} {outfmt})', wit, {'kind': 'permutation', 'site': 'util', 'act': act})
            elif act in FMTS:
                self.law_count['fmt_keeps_size'] += 1
                if (ow, oh) != (iw, ih):
                    violated = True
                    self.violation(f'{act}: {iw}x{ih} -> {ow}x{oh}, a format conversion changed the size', wit,
                                   {'kind': 'fmt_size', 'site': 'util', 'act': act})
            elif act == 'box':
                self.law_count['box'] += 1
                if (ow, oh) != (iw, ih) or outfmt != infmt:
                    violated = True
                    self.violation(f'box changed the frame {iw}x{ih} {infmt} -> {ow}x{oh} {outfmt}', wit,
                                   {'kind': 'box_frame', 'site': 'util', 'act': act})
                else:
                    r0, r1, c0, c1 = rect_of(x, iw, ih)
                    inside = np.zeros((ih, iw), dtype=bool)
                    inside[r0:r1, c0:c1] = True
                    changed = (outarr != inarr) if outarr.ndim == 2 else (outarr != inarr).any(axis=-1)
                    if (changed & ~inside).any():
                        violated = True
                        rr, cc = np.argwhere(changed & ~inside)[0]
                        self.violation(f'{texts[k - 1]!r} on {iw}x{ih}: pixel (row {rr}, col {cc}) outside the rectangle '
                                       f'rows {r0}..{r1 - 1} cols {c0}..{c1 - 1} was changed', wit,
                                       {'kind': 'box_outside', 'site': 'util', 'act': act})
                    colour = box_colour(infmt, x['col'])
                    if colour is not None and inside.any():
                        # inside the rectangle a pixel is either left alone or has the requested colour; the pixels
                        # entirely within the rectangle are drawn
                        self.law_count['box_colour'] += 1
                        col = np.array(colour, dtype=np.uint8)
                        is_col = (outarr == col).all(axis=-1)
                        same = (outarr == inarr).all(axis=-1)
                        i0, i1, j0, j1 = inner_rect_of(x, iw, ih)
                        inner = np.zeros((ih, iw), dtype=bool)
                        inner[i0:i1, j0:j1] = True
                        wrong = (inside & ~is_col & ~same) | (inner & ~is_col)
                        if wrong.any():
                            violated = True
                            rr, cc = np.argwhere(wrong)[0]
                            self.violation(f'{texts[k - 1]!r} on a {infmt} frame drew {tuple(int(v) for v in outarr[rr, cc])}'
                                           f' at (row {rr}, col {cc}), the requested colour in {infmt} order is {colour}',
                                           wit, {'kind': 'box_colour', 'site': 'util', 'act': act})
            # ---- inverse pairs
            if k >= 2 and (xs[k - 2]['act'], act) in INVERSE_PAIRS and results[k - 2][0] == 'ok':
                self.law_count['inverse_pair'] += 1
                before = results[k - 2]
                if before[2] != outfmt or before[1].shape != outarr.shape or not np.array_equal(before[1], outarr):
                    violated = True
                    self.violation(f'{xs[k - 2]["act"]} then {act} is not the identity on a {before[1].shape[1]}x'
                                   f'{before[1].shape[0]} {before[2]} frame', wit,
                                   {'kind': 'inverse_pair', 'site': 'util', 'act': act})
            # ---- conformance with the reference (drift only)
            tainted = tainted or violated
            if tainted:
                continue
            match = [i for i in ref_all if (i['w'], i['h']) == (ow, oh)]
            if not match or all((fmt_real or i['fmt']) != outfmt for i in match):
                self.drift(f'util {", ".join(texts[:k])!r} on {w0}x{h0} {fmt0}: real {ow}x{oh} {outfmt}, reference '
                           f'{[(i["w"], i["h"], fmt_real or i["fmt"]) for i in ref_all]}')
                continue
            if all(i not in ideal[k - 1] for i in match):
                self.declared['size differs from intended design (declared deviation)'] += 1
            note = None
            for m in match:
                if not m['px']:
                    note = None
                    break
                mask, exp = self.expected_pixels(m, src, fmt_real or m['fmt'], w0, cols)
                if exp.shape != outarr.shape:
                    note = f'array shape {outarr.shape}, reference {exp.shape}'
                    continue
                diff = (outarr != exp) if exp.ndim == 2 else (outarr != exp).any(axis=-1)
                self.law_count['reference_pixels_compared'] += int(mask.sum())
                if not (diff & mask).any():
                    note = None
                    break
                rr, cc = np.argwhere(diff & mask)[0]
                note = (f'pixel ({rr},{cc}) is {outarr[rr, cc].tolist()}, reference {exp[rr, cc].tolist()} '
                        f'(px {m["px"][rr][cc]})')
            if note:
                self.drift(f'util {", ".join(texts[:k])!r} on {w0}x{h0} {fmt0}: {note}')

    # -- video vectors (batched per option value) ----------------------------------------------------------------------------
    def run_video(self, vecs, start_idx=0):
        np, real = self.np, self.real
        groups = {}
        for i, v in enumerate(vecs):
            x = v['c']['xs'][0]
            variant = (start_idx + i) % 24
            text = render(x, variant).split(' ', 1)[1]
            mode = ('bgr', 'gray', 'rgb')[(start_idx + i) % 3]
            groups.setdefault((x['act'], text, mode), []).append((start_idx + i, v))
        for (option, value, mode), ivs in groups.items():
            images = []
            vs = [v for _i, v in ivs]
            for v in vs:
                w, h = v['c']['w'], v['c']['h']
                images.append(np.zeros((h, w), np.uint8) if mode == 'gray' else np.zeros((h, w, 3), np.uint8))
            results = real.video_run(option, value, images, bgr=(mode != 'rgb'))
            for (i, v), res in zip(ivs, results):
                self.judge_video(v, res, f'{option}={value}', mode, i)

    def cross_check_threaded(self, vecs, limit):
        """A few video vectors again through the reader's own thread (start/read): same observation as the direct call."""
        np, real = self.np, self.real
        picked, seen = [], set()
        for v in vecs:
            x, w, h = v['c']['xs'][0], v['c']['w'], v['c']['h']
            zero = any(i['w'] < 1 or i['h'] < 1 for i in v['asis'][0])
            tag = (x['act'], x['asp'], zero, bool(v['ideal']), branch_of(x, w, h))
            if tag not in seen and w * h <= 4_000_000:
                seen.add(tag)
                picked.append(v)
        for v in picked[:limit]:
            x, w, h = v['c']['xs'][0], v['c']['w'], v['c']['h']
            value = render(x, 0).split(' ', 1)[1]
            img = np.zeros((h, w, 3), np.uint8)
            direct = real.video_run(x['act'], value, [img])[0]
            threaded = real.video_run_threaded(x['act'], value, img)
            self.rep.traces += 1
            self.law_count['video_threaded_cross_check'] += 1
            same = direct[0] == threaded[0] and (direct[0] != 'ok' or direct[1].shape == threaded[1].shape)
            if not same:
                raise MachineryError(f'video {x["act"]}={value} on {w}x{h}: direct thread_reader() call gave '
                                     f'{direct[:1] + (getattr(direct[1], "shape", direct[1]),)}, the threaded reader '
                                     f'{threaded[:1] + (getattr(threaded[1], "shape", threaded[1]),)}')

    def judge_video(self, vec, res, text, mode, idx=None):
        c = vec['c']
        x, w, h = c['xs'][0], c['w'], c['h']
        self.rep.traces += 1
        self.acts['video_' + x['act']] += 1
        self.branches['video_' + branch_of(x, w, h)] += 1
        ref_as = vec['asis'][0]
        ref_all = ref_as + [i for i in (vec['ideal'] or vec['asis'])[0] if i not in ref_as]
        wit = {'site': 'video', 'case': c, 'option': text, 'frame': f'{w}x{h} {mode}', 'idx': idx,
               'reference_size': [f'{i["w"]}x{i["h"]}' for i in ref_all]}
        self.law_count['no_fail'] += 1
        if res[0] != 'ok':
            zero = [i for i in ref_as if i['w'] < 1 or i['h'] < 1]
            wit['raised'] = f'{res[1]}: {res[2]}'
            self.violation(f'video reader {text} on a valid {w}x{h} frame raised {res[1]}'
                           + (f' (computed size {zero[0]["w"]}x{zero[0]["h"]})' if zero else ''), wit,
                           {'kind': 'zero_dimension' if zero else 'transform_failed', 'site': 'video', 'act': x['act']})
            return
        oh, ow = res[1].shape[:2]
        wit['output'] = f'{ow}x{oh}'
        bad = size_laws('video', x, w, h, ow, oh, self.law_count)
        fit = [nm for nm in bad if nm.startswith('vresize_')]
        if fit:     # one law: the largest aspect-preserving size inside the request
            self.violation(f'video reader {text}: {w}x{h} -> {ow}x{oh} is not the largest aspect-preserving size inside '
                           f'{x["W"]}x{x["H"]} ({", ".join(fit)})', wit,
                           {'kind': 'video_resize_fit', 'one_side_equal': (w == x['W']) != (h == x['H']),
                            'site': 'video', 'act': x['act']})
        for name in bad:
            if name not in fit:
                self.violation(f'video reader {text}: {w}x{h} -> {ow}x{oh} falsifies {name}', wit,
                               {'kind': name, 'site': 'video', 'act': x['act']})
        if bad:
            return
        if (ow, oh) not in [(i['w'], i['h']) for i in ref_all]:
            self.drift(f'video {text} on {w}x{h}: real {ow}x{oh}, reference {wit["reference_size"]}')
        elif (ow, oh) not in [(i['w'], i['h']) for i in (vec['ideal'] or vec['asis'])[0]]:
            self.declared['size differs from intended design (declared deviation)'] += 1


# ---------------------------------------------------------------------------------------------------------------------
# self test of the harness (vacuity guard)

def selftest(real):
    """A corrupted expectation must be rejected and a wrong real result must be flagged."""
    class NullRep:
        traces = 0
    np = real.np
    good = {'c': case('util', 'BGR', 3, 2, [xf('flipx')]),
            'asis': [[{'w': 3, 'h': 2, 'fmt': 'BGR', 'px': [[6, 4, 2], [12, 10, 8]]}]], 'ideal': [], 'fmts': ['BGR'],
            'cols': [[0, 0, 0]]}
    j = Judge(NullRep(), real)
    j.collect = True
    j.run_case(good, 0)
    if j.out:
        raise MachineryError(f'selftest: a correct vector was rejected: {j.out[:2]}')
    bad = json.loads(json.dumps(good))
    bad['asis'][0][0]['px'][0][0] = 4                 # corrupted expectation
    j = Judge(NullRep(), real)
    j.collect = True
    j.run_case(bad, 0)
    if [o[0] for o in j.out] != ['drift']:
        raise MachineryError(f'selftest: corrupted expected pixel not noticed: {j.out[:2]}')
    bad = json.loads(json.dumps(good))
    bad['asis'][0][0]['w'] = 4                        # corrupted expected size
    j = Judge(NullRep(), real)
    j.collect = True
    j.run_case(bad, 0)
    if [o[0] for o in j.out] != ['drift']:
        raise MachineryError(f'selftest: corrupted expected size not noticed: {j.out[:2]}')
    # wrong real results must be violations of the property's formulas
    j = Judge(NullRep(), real)
    j.collect = True
    j.run_case(good, 0, fake=lambda k, res: ('ok', res[1][::-1].copy(), res[2]))     # a flipboth posing as flipx
    if not any(o[0] == 'violation' and o[3]['kind'] == 'permutation' for o in j.out):
        raise MachineryError('selftest: a wrong permutation was not flagged')
    v2 = {'c': case('util', 'BGR', 5, 5, [xf('maxsize', 3, 4, True)]),
          'asis': [[{'w': 3, 'h': 3, 'fmt': 'BGR', 'px': [[0] * 3] * 3}]], 'ideal': [], 'fmts': ['BGR'],
          'cols': [[0, 0, 0]]}
    for fake, kind in ((lambda k, res: ('ok', np.zeros((3, 5, 3), np.uint8), 'BGR'), 'max_bound'),
                       (lambda k, res: ('ok', np.zeros((4, 1, 3), np.uint8), 'BGR'), 'aspect_x'),
                       (lambda k, res: ('raised', 'error', 'x'), 'transform_failed')):
        j = Judge(NullRep(), real)
        j.collect = True
        j.run_case(v2, 0, fake=fake)
        if not any(o[0] == 'violation' and o[3]['kind'] == kind for o in j.out):
            raise MachineryError(f'selftest: fake result for {kind} was not flagged: {j.out[:2]}')
    j = Judge(NullRep(), real)
    j.collect = True
    j.run_case(v2, 0)
    if j.out:
        raise MachineryError(f'selftest: maxsize 3x4 on 5x5 rejected: {j.out[:2]}')
    return True


# ---------------------------------------------------------------------------------------------------------------------

def counterexample_case(out):
    """The `case` of the last state TLC printed for a violated invariant."""
    import re
    ms = list(re.finditer(r'^/\\ case = (.*?)(?=^\s*$|^/\\ |\Z)', out, flags=re.M | re.S))
    if not ms:
        return None
    try:
        return common.parse_value(ms[-1].group(1))
    except Exception:
        return {'_raw': ms[-1].group(1)[:500]}


def tlc_all(ctx, rep, extra):
    """The main configuration (laws on the intended design for every case + vectors) and the defect configurations."""
    cfg = 'Xform_quick' if ctx.quick else 'Xform_thorough'
    fd, inpath = tempfile.mkstemp(prefix='c17in_', suffix='.json')
    with os.fdopen(fd, 'w') as fh:
        json.dump(extra, fh)
    side = {}

    def defect(name):
        try:
            side[name] = run_tlc(SPEC_DIR, name, module='Xform', workers=2, timeout=900)
        except Exception as e:  # pragma: no cover
            side[name] = e

    threads = [threading.Thread(target=defect, args=(nm,)) for nm in DEFECT_CFGS]
    for t in threads:
        t.start()
    try:
        res, data = tlc_emit_json(SPEC_DIR, cfg, module='Xform', env={'VERIF_IN': inpath}, timeout=3000)
    finally:
        for t in threads:
            t.join()
        os.unlink(inpath)
    tlc_must_pass(res, cfg)
    rep.add_tlc(cfg, res, 'every law of C17 on the intended design (Defects = {}) for every case: sizes x bounds, chains '
                          'on small frames, harness-supplied boundary families and sampled chains; vectors')
    for name, expect in DEFECT_CFGS.items():
        r = side[name]
        if isinstance(r, Exception):
            raise MachineryError(f'TLC failed on {name}: {r}')
        if r.error or r.timed_out:
            raise MachineryError(f'TLC failed on {name}: {r.error or "timeout"}')
        if r.violated != expect:
            raise MachineryError(f'{name}: TLC reports {r.violated or "no violation"}, expected {expect or "none"}; the '
                                 f'specification and its expected verdict are out of sync\n{r.out[-2500:]}')
        # a configuration whose expected verdict is a counterexample is evidence about the model, not coverage
        rep.tlc_runs.append({'config': name, 'distinct_states': r.distinct, 'states_generated': r.states,
                             'depth': r.depth, 'wall_s': r.wall_s, 'result': r.violated or 'ok',
                             'purpose': ('deviation switched on: TLC must exhibit the counterexample '
                                         f'({expect})' if expect else
                                         'float truncation switched on: the clamped design still satisfies every law')})
        if expect:
            ce = counterexample_case(r.out)
            if ce is None:
                raise MachineryError(f'{name}: no counterexample case in the TLC output\n{r.out[-2000:]}')
            rep.sample({'tlc_counterexample': name, 'violated': expect, 'case': ce}, 8)
    return res, data['vectors']


PINNED = [   # (case, size the code as it stands computes, size of the intended design)
    # the zero-dimension defect (as-is (10, 0) / (0, 0)) was repaired by fix: commit 333dc8c; the former witnesses stay
    # pinned so that the reference keeps computing the repaired result for them
    (case('util', 'BGR', 1000, 1, [xf('maxsize', 10, 10, True)]), (10, 1), (10, 1)),
    (case('video', 'BGR', 1000, 1, [xf('maxsize', 10, 10, True)]), (10, 1), (10, 1)),
    (case('util', 'BGR', 49, 49, [xf('maxsize', 1, 1, True)]), (1, 1), (1, 1)),
]


def pinned_witnesses(rep, vectors):
    """The listed counterexamples must stay counterexamples of the as-is model (a finding cannot silently change)."""
    by = {case_key(v['c']): v for v in vectors}
    for c, asis, ideal in PINNED:
        v = by.get(case_key(c))
        if v is None:
            raise MachineryError(f'pinned case {c} is not among the vectors')
        got_as = {(i['w'], i['h']) for i in v['asis'][0]}
        got_id = {(i['w'], i['h']) for i in (v['ideal'] or v['asis'])[0]}
        if asis not in got_as or got_id != {ideal}:
            raise MachineryError(f'pinned case {c}: TLC computes as-is {sorted(got_as)} / intended {sorted(got_id)}, '
                                 f'expected {asis} / {ideal}')
        rep.sample({'case': c, 'reference_as_is': sorted(got_as), 'reference_intended': sorted(got_id)}, 8)


def run(ctx, only=None, only_idx=0, only_ro=None):
    common.use_repo()
    rep = Report(ctx)
    rep.rule = ('case = (site util|video, frame w x h x format, chain of 1..3 transforms with parameters); one TLC state '
                'per case; each case executed on the real code once per prefix of its chain (and per byte plane for '
                'large GRAY frames); distinct = distinct cases; non-trivial = every case (each applies >= 1 transform)')
    rep.assumptions = [
        'bounds of size transforms are >= 1 (no image is <= 0x0; "maxsize 0x0" is outside the property\'s domain)',
        'box coordinates are multiples of 1/16 (exact in binary floating point); the far edge of a box is inclusive '
        '(cv2.rectangle convention), the rectangle is floor(w*x0)..floor(w*x1)',
        'frames are uint8 GRAY/BGR/RGB; frame sides <= 4100 px, produced frames <= 20 Mpixel',
        'video reader: VideoReader built by its real constructor with vidgear.VideoGear stubbed, thread_reader() run on '
        'the calling thread with read_one() replaced by an iterator of frames and an unbounded deque; frame '
        'acquisition and pacing are not under test',
        'interpolated pixel values (resize, conversions to GRAY) are not judged; the colour a box draws on a GRAY frame '
        'is compared with the reference only (drift)',
        "the upper-case separator 'X' (accepted by the parser, treated as '+') is outside the documented grammar",
    ]
    real = Real()
    rep.selftest(selftest, real)
    extra = gen_extra(ctx) if only is None else only
    res, vectors = tlc_all(ctx, rep, extra)
    if only is not None:
        vectors = vectors[-len(only):]
    if only is None:
        pinned_witnesses(rep, vectors[-len(extra):])
    judge = Judge(rep, real)
    video = []
    nsmall = 0
    for idx, v in enumerate(vectors):
        c = v['c']
        rep.case(case_key(c))
        if c['site'] == 'video':
            video.append(v)
            continue
        if only is not None:
            judge.run_case(v, only_idx, ro=only_ro)
            continue
        big = c['w'] * c['h'] > 250000
        if ctx.quick or big:
            judge.run_case(v, idx)
        else:                                   # thorough: writable and read-only
            judge.run_case(v, idx, ro=False)
            judge.run_case(v, idx, ro=True)
        nsmall += 1
        if len(rep.samples) < 8 and len(c['xs']) == 3 and idx % 997 == 0 and idx > len(vectors) - len(extra):
            rep.sample({'case': c, 'xforms': ', '.join(render(x, idx + 7 * j) for j, x in enumerate(c['xs'])),
                        'reference_after_each_step': [[(i['w'], i['h'], i['fmt']) for i in s] for s in v['asis']]}, 8)
    judge.run_video(video, start_idx=only_idx if only is not None else 0)
    if only is None:
        judge.cross_check_threaded(video, 12 if ctx.quick else 60)
    if not ctx.quick and only is None:
        judge.run_video(video, start_idx=1)
        judge.run_video(video, start_idx=2)
    judge.flush()
    rep.exhaustive = True
    rep.extra.update({
        'cases_enumerated_by_tlc': len(vectors) - len(extra), 'cases_supplied_by_harness': len(extra),
        'law_evaluations_on_real_results': dict(sorted(judge.law_count.items())),
        'size_branches_executed': dict(sorted(judge.branches.items())),
        'transforms_executed': dict(sorted(judge.acts.items())),
        'real_calls': real.calls,
        'declared_deviation_hits': dict(judge.declared),
        'violation_kinds': dict(judge.viol_kinds),
    })
    need = ['no_fail', 'resize_exact', 'vresize_inside', 'vresize_largest', 'max_bound', 'max_no_enlarge', 'min_bound',
            'min_no_shrink', 'aspect_x', 'independent_plus', 'permutation', 'fmt_keeps_size', 'box', 'box_colour',
            'inverse_pair', 'flipboth_is_flipx_flipy', 'reference_pixels_compared']
    if only is None:
        missing = [k for k in need if not judge.law_count.get(k)]
        if missing:
            raise MachineryError(f'laws never evaluated (vacuous run): {missing}')
    if judge.drifts > 25:
        rep.drift_note(f'... {judge.drifts - 25} more differences between the real code and the reference not printed')
    rep.extra['drift_total'] = judge.drifts
    if judge.declared:
        rep.note(f'{sum(judge.declared.values())} executed cases produced a size that differs from the intended design '
                 'exactly as the declared deviations of the as-is model predict (float truncation of the scale factor: '
                 'a limiting side one pixel short; no law of C17 is falsified by these)')
    return rep.finish()


def replay(ctx):
    """Re-executes the witness of a replay file (same case, same rendering variant) on the working tree."""
    import shutil
    w = json.load(open(ctx.replay))
    wit = w.get('witness', {})
    print(json.dumps({k: wit.get(k) for k in ('site', 'xforms', 'option', 'frame', 'step', 'transform', 'input', 'output',
                                               'raised', 'reference_size')}, indent=1))
    c = wit.get('case')
    if not c:
        return run(ctx)
    tmp = tempfile.mkdtemp(prefix='c17replay_')      # keep the evidence and the replay files of the last full run
    saved = (common.EVID, common.OUT)
    common.EVID, common.OUT = tmp, tmp
    try:
        rc = run(ctx, only=[c], only_idx=wit.get('idx') or 0, only_ro=wit.get('ro'))
        print(f'replay of {ctx.replay}: ' + ('the witness still falsifies the property' if rc else
                                             'the witness no longer falsifies the property'))
        return rc
    finally:
        shutil.rmtree(tmp, ignore_errors=True)
        common.EVID, common.OUT = saved

HOOKS = {
    'guard': 'OPENFILTER_VERIF',
    'enable': 'no source hooks are needed: checks import /repo\'s working tree and substitute the module globals '
              '(zmq, time_ns, sleep, threading, open/os) of the modules under test from the harness',
    'baseline_off_cmd': '/verif/tools/baseline_off.sh',
    'source_commits': [],
    'add_only': True,
}
ENGINES = [
    {'name': 'tlc+vectors', 'path': '/verif/vlib', 'serves_properties': ['C16'],
     'kind_free_text': 'TLA+ reference specification of a function/grammar; TLC checks the laws on every case of a '
                       'bounded domain (one state per case) and emits the cases as vectors that are executed against '
                       'the real code'},
]
NOTES = ('All checks: ./check <id> --tier quick|thorough; VERIF_SEED, VERIF_TIER, VERIF_REPO honoured. '
         'Specifications under /verif/spec, known findings in /verif/known_findings.json, design in DESIGN.md.')
NOT_YET = {}
CHECKS = {
    'C16': dict(
        engine='tlc+vectors', technique='TLA+ reference spec (Allowlist.tla) checked by TLC; all cases replayed into the real exporter',
        design_ref='DESIGN.md 2.5, 5/C16',
        text='TLC evaluates the allow-list laws (lock-down, only-listed, union, monotone, histogram shape) on every '
             '(allow-list, allow-list, metric set) case of the bounded domain and emits every (allow-list, metric set) '
             'vector; each vector is executed against the real OTelLineageExporter fed by a real OpenTelemetry '
             'MeterProvider through all allow-list sources (argument, OF_SAFE_METRICS, YAML, default) and through '
             'OpenTelemetryClient\'s own wiring; the exported names must be a subset of the reference.',
        note='state space = set of cases, not interleavings; names rendered from a 2-3 letter alphabet, patterns with '
             "'*' only; OpenTelemetry SDK aggregation trusted"),
}

CONSTANTS
  Defects = {"terminal_without_start"}
  MaxCalls = 9
  MaxRuns = 2
SPECIFICATION Spec
INVARIANT C18_Emitter
INVARIANT C18_Terminated
INVARIANT TypeOK

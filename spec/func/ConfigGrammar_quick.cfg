CONSTANTS
  Defects = {}
  Mode = "config"
  MaxMaps = 1
  MaxOpts = 1
  MaxEntries = 4
  WsLevel = 1
INIT Init
NEXT Next
INVARIANT InvCfgValid
INVARIANT InvCfgEq
INVARIANT InvCfgIdem
INVARIANT InvCfgInit

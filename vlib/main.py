"""./check <Cxx> [--tier quick|thorough] [--replay PATH]

exit 0: property held on everything explored (known findings are printed as KNOWN-FINDING lines)
exit 1: a `VIOLATION property=<id> replay=<path>` line was printed
exit 2: the machinery itself failed (never used for a property verdict)
"""
import argparse
import importlib
import os
import sys
import traceback

from . import common


def main(argv=None):
    ap = argparse.ArgumentParser()
    ap.add_argument('prop')
    ap.add_argument('--tier', default=os.environ.get('VERIF_TIER') or 'quick', choices=['quick', 'thorough'])
    ap.add_argument('--replay', default=None)
    a = ap.parse_args(argv)
    seed = int(os.environ.get('VERIF_SEED') or 0)
    prop = a.prop.upper()
    ctx = common.Ctx(prop, a.tier, seed, a.replay)
    try:
        mod = importlib.import_module(f'vlib.{prop.lower()}')
    except ModuleNotFoundError as e:
        print(f'no check for {prop}: {e}', file=sys.stderr)
        return 2
    try:
        if a.replay:
            return mod.replay(ctx)
        return mod.run(ctx)
    except common.MachineryError as e:
        print(f'MACHINERY-FAILURE property={prop}: {e}', file=sys.stderr)
        return 2
    except Exception:
        traceback.print_exc()
        print(f'MACHINERY-FAILURE property={prop}: unexpected exception in the check itself', file=sys.stderr)
        return 2


if __name__ == '__main__':
    sys.exit(main())

------------------------------ MODULE Lifecycle ------------------------------
(* C08 - filters start, stop and propagate exits exactly as the lifecycle contract says (single-filter part).

   Specification of openfilter/filter_runtime/filter.py `Filter.run` (l.1114-1220) for ONE filter, shaped like the code:
   one action per lifecycle stage, one case-analysis branch per branch of the nested try/finally structure.

       filter = cls(config, stop_evt, obey_exit)                       Construct            l.1159   (outside the inner try)
       try:
           filter.init(filter.config)                                  Init                 l.1168, Filter.init l.892-1015
           try:
               try:
                   filter.setup(filter.config)                         Setup                l.1172
                   try:
                       while not stop_evt.is_set():                    LoopExit / Iter      l.1175
                           filter.loop_once()                          Iter(e)              l.1177, loop_once l.861-886
                   finally:
                       filter.shutdown()                               Shutdown             l.1182
               finally:
                   is_exc = isinstance(sys.exc_info()[1], Exception)   ExitMsg              l.1185-1188
                   if prop_exit & (2 if is_exc else 1): filter.mq.send_exit_msg('error' if is_exc else 'clean')
           except Filter.PropagateError: pass                          (in ExitMsg: eaten)  l.1190
           finally:
               filter.fini()                                           Fini                 l.1194, Filter.fini l.1017-1021
       except Exception: ...; raise                                    Handlers             l.1196-1202
       except Filter.Exit: pass                                                             l.1204-1208
       finally: filter.stop_logging()                                                       l.1210-1215
   finally: stop_evt.set()                                                                  l.1216-1220

   STATE (one record `s`, uniform field types) - the registers named in DESIGN 2.2:
     stage          construct -> init -> setup -> loop -> shutdown -> exitmsg -> fini -> handlers -> stopped
     outcome        the exception that is propagating (Python's sys.exc_info): none / Exit / Exception / PropagateError /
                    Interrupt (a BaseException that is neither: KeyboardInterrupt)
     setupDone, shutdownCalls, commOpen (MQ sockets exist and are not closed), stopEvt, logOpen
     k              completed loop iterations;  calls = the sequence of user callbacks entered
     announced      exit message put on the wire: none / clean / error
     result         running / returned / raised        (how Filter.run ended)
     faults         the injected own faults so far (sequence of "raise" / "exit" / "int"), cause = first reason of ending
     obeyLog        <<kind, obeyed>> for every exit message that arrived
   and the history `path` (sequence of labels <<stage, choice>>): every behaviour is a distinct path, the distinct states
   are the prefixes of all behaviours, so TLC's exhaustive search IS the path enumeration that the harness replays.

   ENVIRONMENT.  One nondeterministic fault choice per stage (ok / raise / exit(); init distinguishes where it fails
   relative to the creation of the MQ; the k-th iteration distinguishes recv / process / send), the external events
   StopEvtSet (noticed at the loop head, or inside a recv/send that keeps timing out), ExitMsgArrives(kind) from upstream
   (handled inside mq.recv) or downstream (inside mq.send), Deadline (exit_after reached at the end of an iteration).
   cfg = [prop, obey, ea] is chosen in Init from the constant sets.

   Defects (named deviations; Defects = {} is the intended design):
     "exit_after_time_module"  GENUINE, filter.py l.885 / l.986: `time()` calls the *module* `time` (import time, l.8):
                               exit_after in seconds or as 'm:s' raises TypeError in Filter.init (after the lineage START,
                               before the MQ exists); the '@time' form passes init and raises at the end of the first
                               loop iteration.  Repair: `time.time()` at both places.
     "init_fail_skips_fini"    GENUINE, filter.py l.1168: init() is called outside the try whose finally calls fini(), so
                               an exception / exit() that leaves init() after the MQ was created (a subclass init() failing
                               or calling exit() after super().init(); the telemetry thread failing to start) never
                               reaches mq.destroy(): all sockets stay open.
     "mq_ctor_partial_leak"    GENUINE, mq.py l.77-80 / zeromq.py l.195-225: when the MQ constructor fails half way (second
                               bind address in use, a later source rejected) the sockets created so far are never closed:
                               there is no object yet that fini() could destroy.
     "no_teardown_on_setup_failure", "shutdown_not_in_finally", "exitmsg_wrong_flag", "obey_wrong_flag",
     "propagate_error_escapes", "stop_evt_not_set"
                               hypothetical (mutant classes; each makes one invariant fail: the properties are not vacuous)

   CONFIGURATIONS (vlib/c08.py runs them; cover and demonstration configurations are generated into a scratch directory)
     Lifecycle_quick / _thorough   Defects = {}, K = 2 / 3, 16 policy pairs x 4 exit_after forms: TLC proves every C08_* invariant
     Lifecycle_defect_exit_after / _init_leak   the genuine deviations: TLC must report C08_ExitAfter / C08_CommClosed violated
     Lifecycle_cover               Emit = TRUE + ACTION_CONSTRAINT EmitDone: one line per complete behaviour (path, final
                                   state) of the model of the code as it stands, replayed on the real Filter.run
*)
EXTENDS Naturals, Sequences, FiniteSets, TLC

CONSTANTS Defects,        \* subset of AllDefects
          K,              \* bound on completed loop iterations
          PropSet,        \* prop_exit policies explored
          ObeySet,        \* obey_exit policies explored
          EASet,          \* exit_after forms explored: subset of {"none", "secs", "ms", "at"}
          WithInterrupt,  \* TRUE: process() may also raise a non-Exception BaseException (KeyboardInterrupt)
          Emit,           \* TRUE: print every complete behaviour (path + final state) for the replay harness
          EarlyExit       \* TRUE: init() may also exit() before Filter.init() ran

AllDefects == {"exit_after_time_module", "init_fail_skips_fini", "mq_ctor_partial_leak", "no_teardown_on_setup_failure",
               "shutdown_not_in_finally", "exitmsg_wrong_flag", "obey_wrong_flag", "propagate_error_escapes",
               "stop_evt_not_set"}
LineageDefects == {"abort_at_every_site", "not_idempotent", "hb_complete", "running_after_terminal", "terminal_without_start", "log_fail_complete"}   \* see Lineage.tla
Policies == {"all", "clean", "error", "none"}
ASSUME Defects \subseteq AllDefects \cup LineageDefects /\ K \in Nat /\ PropSet \subseteq Policies /\ ObeySet \subseteq Policies
ASSUME EASet \subseteq {"none", "secs", "ms", "at"} /\ WithInterrupt \in BOOLEAN /\ Emit \in BOOLEAN /\ EarlyExit \in BOOLEAN

VARIABLES s, path
lvars == <<s, path>>

D(d) == d \in Defects

\* PROP_EXIT_FLAGS = {'all': 3, 'clean': 1, 'error': 2, 'none': 0}  (filter.py l.102); `policy & flag(kind)`
Has(policy, kind) == \/ policy = "all"
                     \/ policy = kind
IsExc(o) == o \in {"Exception", "PropagateError"}          \* isinstance(sys.exc_info()[1], Exception)   l.1185

Init ==
  /\ \E p \in PropSet, o \in ObeySet, e \in EASet :
       s = [cfg |-> [prop |-> p, obey |-> o, ea |-> e], stage |-> "construct", outcome |-> "none",
            setupDone |-> FALSE, shutdownCalls |-> 0, commOpen |-> FALSE, stopEvt |-> FALSE, logOpen |-> FALSE,
            k |-> 0, calls |-> <<>>, announced |-> "none", annDone |-> FALSE, result |-> "running", faults |-> <<>>,
            cause |-> "none", obeyLog |-> <<>>, ignored |-> 0, afterDeadline |-> 0]
  /\ path = <<>>

Call(c) == Append(s.calls, c)
Flt(f)  == Append(s.faults, f)
Cause(c) == IF s.cause = "none" THEN c ELSE s.cause

(* --- cls(config, stop_evt, obey_exit)  l.1159.  Filter.__init__ (l.547-613) opens the logger first and closes it again
       itself when normalize_config / download fail.  A failure is outside the inner try: only the outer finally runs. *)
Construct(c) ==
  /\ s.stage = "construct"
  /\ \/ c = "ok"    /\ s' = [s EXCEPT !.stage = "init", !.logOpen = TRUE]
     \/ c = "raise" /\ s' = [s EXCEPT !.stage = "handlers", !.outcome = "Exception", !.faults = Flt("raise"),
                                      !.cause = "fault"]

(* --- filter.init(config)  l.1168 / Filter.init l.892-1015: lineage START + heartbeat (l.921-923), source/output address
       validation (l.943-946, raise_pre), exit_after (l.981-993), the MQ (l.999-1011: sockets are created; raise_mid = the
       constructor fails after some sockets were bound), then whatever a subclass init() does after super().init()
       (raise_post / exit_post).  init() is NOT inside the try whose finally is fini(). *)
InitChoices == {"ok", "raise_pre", "raise_mid", "raise_post", "exit_post"} \cup (IF EarlyExit THEN {"exit_pre"} ELSE {})
\* exit_pre: a subclass init() calls exit() BEFORE Filter.init() has created anything (no MQ, no lineage START yet)
InitFail(c, out, flt) ==
  \* intended design: whatever init() created is torn down through fini(); as written: nothing is
  LET leak == \/ c \in {"raise_post", "exit_post"} /\ D("init_fail_skips_fini")
              \/ c = "raise_mid" /\ (D("init_fail_skips_fini") \/ D("mq_ctor_partial_leak"))
      stop == IF c \in {"exit_post", "exit_pre"} THEN TRUE ELSE s.stopEvt IN
  s' = [s EXCEPT !.outcome = out, !.faults = Flt(flt), !.cause = "fault", !.stopEvt = stop,
                 !.commOpen = leak,
                 !.calls = IF D("init_fail_skips_fini") THEN Call("init") ELSE Call("init") \o <<"fini">>,
                 !.stage = "handlers"]
InitStage(c) ==
  /\ s.stage = "init"
  /\ IF s.cfg.ea \in {"secs", "ms"} /\ D("exit_after_time_module")
       THEN c = "raise_pre" /\ InitFail("raise_pre", "Exception", "typeerror")      \* `time() + exit_after` on the module  l.986
       ELSE \/ c = "ok" /\ s' = [s EXCEPT !.stage = "setup", !.commOpen = TRUE, !.calls = Call("init")]
            \/ c \in {"raise_pre", "raise_mid", "raise_post"} /\ InitFail(c, "Exception", "raise")
            \/ c \in {"exit_post", "exit_pre"} /\ c \in InitChoices /\ InitFail(c, "Exit", "exit")

(* --- filter.setup(config)  l.1172.  A failure skips the loop AND shutdown() (the try/finally of shutdown starts after
       setup), but not the exit message and not fini(). *)
Setup(c) ==
  /\ s.stage = "setup"
  /\ \/ c = "ok"    /\ s' = [s EXCEPT !.stage = "loop", !.setupDone = TRUE, !.calls = Call("setup")]
     \/ c = "raise" /\ s' = [s EXCEPT !.stage = IF D("no_teardown_on_setup_failure") THEN "handlers" ELSE "exitmsg",
                                      !.outcome = "Exception", !.faults = Flt("raise"), !.cause = "fault",
                                      !.calls = Call("setup")]
     \/ c = "exit"  /\ s' = [s EXCEPT !.stage = "exitmsg", !.outcome = "Exit", !.stopEvt = TRUE, !.faults = Flt("exit"),
                                      !.cause = "fault", !.calls = Call("setup")]

(* --- the loop  l.1175-1179 with loop_once l.861-886:
         recv phase   mq.recv in 100 ms slices (l.867-874); an exit message from upstream is handled in there
                      (ZMQReceiver.recv -> message_oob -> on_exit_msg l.926-933 -> self.exit(..)); a slice that times out
                      with stop_evt set calls self.exit() (l.868-869)
         process      l.876
         send phase   mq.send in 100 ms slices (l.878-883); exit message from downstream; stop_evt as above
         deadline     `time() >= exit_after_t` -> self.exit('exit_after')  (l.885-886)
       exit(): sets stop_evt and raises Filter.Exit / the given exception (l.622-636). *)
Leave(out, flt, cause, proc, stop) ==
  s' = [s EXCEPT !.stage = IF D("shutdown_not_in_finally") /\ out # "none" THEN "exitmsg" ELSE "shutdown",
                 !.outcome = out, !.stopEvt = stop,
                 !.faults = IF flt = "" THEN s.faults ELSE Flt(flt), !.cause = Cause(cause),
                 !.calls = IF proc THEN Call("process") ELSE s.calls]
ObeysMsg(kind) == Has(s.cfg.obey, IF D("obey_wrong_flag") THEN (IF kind = "clean" THEN "error" ELSE "clean") ELSE kind)
ExitMsgArrives(proc, kind) ==              \* on_exit_msg(reason)  l.926-933
  IF ObeysMsg(kind)
    THEN s' = [s EXCEPT !.stage = "shutdown", !.stopEvt = TRUE,
                        !.outcome = IF kind = "error" THEN "PropagateError" ELSE "Exit",
                        !.cause = Cause(IF kind = "error" THEN "msg_error" ELSE "msg_clean"),
                        !.obeyLog = Append(s.obeyLog, <<kind, TRUE>>),
                        !.calls = IF proc THEN Call("process") ELSE s.calls]
    ELSE /\ s.ignored = 0                  \* an ignored message changes nothing; explored once per behaviour
         /\ ~proc
         /\ s' = [s EXCEPT !.ignored = 1, !.obeyLog = Append(s.obeyLog, <<kind, FALSE>>)]
IterEvents == {"ok", "check_raise", "recv_raise", "recv_msg_clean", "recv_msg_error", "recv_stop", "proc_raise", "proc_exit", "proc_int",
               "send_raise", "send_msg_clean", "send_msg_error", "send_stop", "deadline", "stop_head"}
Iter(e) ==
  /\ s.stage = "loop" /\ ~s.stopEvt
  /\ \/ e = "ok" /\ s.k < K /\ ~(s.cfg.ea # "none" /\ D("exit_after_time_module"))
                 /\ s' = [s EXCEPT !.k = s.k + 1, !.calls = Call("process")]
     \/ e = "check_raise" /\ s.cfg.ea # "none" /\ D("exit_after_time_module")            \* '@time' form: init passes, the
                 /\ Leave("Exception", "typeerror", "fault", TRUE, s.stopEvt)              \* first `time() >= ..` (l.885) raises
     \/ e = "stop_head" /\ s' = [s EXCEPT !.stopEvt = TRUE, !.cause = Cause("stop")]        \* StopEvtSet, seen at l.1175
     \/ e = "recv_raise" /\ Leave("Exception", "raise", "fault", FALSE, s.stopEvt)
     \/ e = "recv_stop"  /\ Leave("Exit", "", "stop", FALSE, TRUE)                          \* StopEvtSet + l.868-869
     \/ e \in {"recv_msg_clean", "recv_msg_error"} /\ s.k >= 1                               \* a connected pipeline
                         /\ ExitMsgArrives(FALSE, IF e = "recv_msg_clean" THEN "clean" ELSE "error")
     \/ e = "proc_raise" /\ Leave("Exception", "raise", "fault", TRUE, s.stopEvt)
     \/ e = "proc_exit"  /\ Leave("Exit", "exit", "fault", TRUE, TRUE)
     \/ e = "proc_int"   /\ WithInterrupt /\ Leave("Interrupt", "int", "fault", TRUE, s.stopEvt)
     \/ e = "send_raise" /\ Leave("Exception", "raise", "fault", TRUE, s.stopEvt)
     \/ e = "send_stop"  /\ s.k >= 1 /\ Leave("Exit", "", "stop", TRUE, TRUE)               \* StopEvtSet + l.879-880
     \/ e \in {"send_msg_clean", "send_msg_error"} /\ s.k >= 1 /\ s.ignored = 0
                         /\ ObeysMsg(IF e = "send_msg_clean" THEN "clean" ELSE "error")
                         /\ ExitMsgArrives(TRUE, IF e = "send_msg_clean" THEN "clean" ELSE "error")
     \/ e = "deadline"   /\ s.cfg.ea # "none" /\ s.k >= 1 /\ Leave("Exit", "", "deadline", TRUE, TRUE)   \* l.885-886
LoopExit ==                                                                                 \* l.1175: stop_evt is set
  /\ s.stage = "loop" /\ s.stopEvt
  /\ s' = [s EXCEPT !.stage = "shutdown"]

(* --- finally: filter.shutdown()  l.1181-1182.  An exception / exit() raised here replaces the one in flight. *)
Shutdown(c) ==
  /\ s.stage = "shutdown"
  /\ LET t == [s EXCEPT !.stage = "exitmsg", !.shutdownCalls = s.shutdownCalls + 1, !.calls = Call("shutdown")] IN
     \/ c = "ok"    /\ s' = t
     \/ c = "raise" /\ s' = [t EXCEPT !.outcome = "Exception", !.faults = Flt("raise"), !.cause = Cause("fault")]
     \/ c = "exit"  /\ s' = [t EXCEPT !.outcome = "Exit", !.stopEvt = TRUE, !.faults = Flt("exit"), !.cause = Cause("fault")]

(* --- finally: the exit message  l.1184-1188, then `except Filter.PropagateError: pass`  l.1190-1191 *)
ExitMsg ==
  /\ s.stage = "exitmsg"
  /\ LET isexc == IsExc(s.outcome)
         kind  == IF isexc THEN "error" ELSE "clean"
         flag  == IF D("exitmsg_wrong_flag") THEN (IF isexc THEN "clean" ELSE "error") ELSE kind
         eaten == s.outcome = "PropagateError" /\ ~D("propagate_error_escapes") IN
     s' = [s EXCEPT !.stage = "fini", !.annDone = TRUE,
                    !.announced = IF Has(s.cfg.prop, flag) THEN kind ELSE "none",
                    !.outcome = IF eaten THEN "none" ELSE IF s.outcome = "PropagateError" THEN "Exception" ELSE s.outcome]

(* --- finally: filter.fini()  l.1193-1194; Filter.fini l.1017-1021: mq.destroy() closes every socket (mq.py l.114-127,
       zeromq.py l.229-254 / l.683-697); a subclass fini() may fail after super().fini() *)
Fini(c) ==
  /\ s.stage = "fini"
  /\ LET t == [s EXCEPT !.stage = "handlers", !.commOpen = FALSE, !.calls = Call("fini")] IN
     \/ c = "ok"    /\ s' = t
     \/ c = "raise" /\ s' = [t EXCEPT !.outcome = "Exception", !.faults = Flt("raise"), !.cause = Cause("fault")]
     \/ c = "exit"  /\ s' = [t EXCEPT !.outcome = "Exit", !.stopEvt = TRUE, !.faults = Flt("exit"), !.cause = Cause("fault")]

(* --- except Exception: raise / except Filter.Exit: pass / finally: stop_logging / finally: stop_evt.set()  l.1196-1220 *)
\* c = "log_raise": stop_logging() fails while it closes the log files (a full disk): the exception leaves the inner finally and
\* replaces whatever was in flight; the outer finally still sets the stop event
Handlers(c) ==
  /\ s.stage = "handlers"
  /\ c = "log_raise" => s.logOpen /\ EarlyExit
  /\ LET out == IF c = "log_raise" THEN "Exception" ELSE s.outcome IN
     s' = [s EXCEPT !.stage = "stopped", !.logOpen = FALSE,
                    !.stopEvt = IF D("stop_evt_not_set") THEN s.stopEvt ELSE TRUE,
                    !.outcome = out,
                    !.faults = IF c = "log_raise" THEN Flt("raise") ELSE s.faults,
                    !.cause = IF c = "log_raise" THEN Cause("fault") ELSE s.cause,
                    !.result = IF out \in {"Exception", "Interrupt"} THEN "raised" ELSE "returned"]

Labels == ({"construct"} \X {"ok", "raise"}) \cup ({"init"} \X InitChoices) \cup ({"setup", "shutdown", "fini"} \X {"ok", "raise", "exit"})
          \cup ({"iter"} \X IterEvents) \cup {<<"loopexit", "">>, <<"exitmsg", "">>, <<"handlers", "">>, <<"handlers", "log_raise">>}

Step(l) ==
  /\ \/ l[1] = "construct" /\ Construct(l[2])
     \/ l[1] = "init"      /\ InitStage(l[2])
     \/ l[1] = "setup"     /\ Setup(l[2])
     \/ l[1] = "iter"      /\ Iter(l[2])
     \/ l[1] = "loopexit"  /\ LoopExit
     \/ l[1] = "shutdown"  /\ Shutdown(l[2])
     \/ l[1] = "exitmsg"   /\ ExitMsg
     \/ l[1] = "fini"      /\ Fini(l[2])
     \/ l[1] = "handlers"  /\ Handlers(l[2])
  /\ path' = Append(path, l)

Next == \E l \in Labels : Step(l)
Spec == Init /\ [][Next]_lvars

Stopped == s.stage = "stopped"

(* ------------------------------------------------ the property -------------------------------------------------- *)
\* "shutdown() runs exactly once if and only if setup() completed"
C08_ShutdownOnceIffSetup ==
  /\ s.shutdownCalls <= 1
  /\ s.shutdownCalls = 1 => s.setupDone
  /\ Stopped => s.shutdownCalls = (IF s.setupDone THEN 1 ELSE 0)
\* "communication is torn down"
C08_CommClosed == Stopped => ~s.commOpen
\* "the stop event is set"
C08_StopEvtSet == Stopped => s.stopEvt
\* "run() returns normally for clean exits and raises for errors": the last own fault decides (Python: an exception raised
\* in a finally block replaces the one in flight); stop event, deadline and obeyed exit messages are clean for this filter
LastFault == IF s.faults = <<>> THEN "none" ELSE s.faults[Len(s.faults)]
C08_ReturnVsRaise == Stopped => (s.result = "raised" <=> LastFault \in {"raise", "typeerror", "int"})
\* "a clean or error exit is announced ... exactly as the propagate policy prescribes" (whenever the filter got as far as
\* setup(): before that there may be no MQ to announce with)
EndKind == IF \/ (s.faults # <<>> /\ s.faults[Len(s.faults)] = "raise")
              \/ (s.faults = <<>> /\ s.cause = "msg_error") THEN "error" ELSE "clean"
C08_Announce ==
  /\ s.stage = "fini" => s.announced = (IF Has(s.cfg.prop, EndKind) THEN EndKind ELSE "none")
  /\ Stopped /\ "setup" \in {s.calls[i] : i \in 1..Len(s.calls)} => s.annDone
\* "... and obeyed by them exactly as the obey policy prescribes"
C08_Obey == \A i \in 1..Len(s.obeyLog) : s.obeyLog[i][2] = Has(s.cfg.obey, s.obeyLog[i][1])
\* an obeyed message ends the filter with the same kind (error stays error for the next hop, the filter itself returns)
C08_ObeyEnds == Stopped /\ s.faults = <<>> /\ s.cause \in {"msg_clean", "msg_error"} =>
                   s.result = "returned" /\ s.announced \in {"none", IF s.cause = "msg_error" THEN "error" ELSE "clean"}
\* "exit_after T ends a filter that is processing frames cleanly" (untimed part: a configured exit_after never makes the
\* run fail, and the deadline ends it in the iteration in which it is noticed; the timed part is judged on the real code)
C08_ExitAfter == Stopped /\ s.cfg.ea # "none" /\ s.faults \in {<<>>, <<"typeerror">>} /\ s.cause \in {"fault", "deadline"} =>
                   s.result = "returned" /\ s.cause = "deadline"
C08_LogClosed == Stopped => ~s.logOpen

TypeOK ==
  /\ s.stage \in {"construct", "init", "setup", "loop", "shutdown", "exitmsg", "fini", "handlers", "stopped"}
  /\ s.outcome \in {"none", "Exit", "Exception", "PropagateError", "Interrupt"}
  /\ s.k \in 0..K /\ s.shutdownCalls \in 0..2 /\ s.result \in {"running", "returned", "raised"}
  /\ s.announced \in {"none", "clean", "error"}
  /\ s.result # "running" <=> Stopped

(* ---- every complete behaviour, for the replay harness ------------------------------------------------------------- *)
EmitDone ==
  (Emit /\ s'.stage = "stopped") => PrintT(ToString(<<"BEH", path', s'>>))
=============================================================================

------------------------------- MODULE Codec -------------------------------
(* C09 - reference specification of the wire codec of openfilter:

       MQ.frames2topicmsgs(frames, outs_jpg)      openfilter/filter_runtime/mq.py  l.214-232     ("Enc")
       MQ.topicmsgs2frames(topicmsgs)             openfilter/filter_runtime/mq.py  l.234-256     ("Dec")
       Frame / Frame.from_jpg / .image / .jpg     openfilter/filter_runtime/frame.py             (frame states)
       the framing of one topic message           openfilter/filter_runtime/zeromq.py l.474-476, l.758-766 ("Wire")

   The module is shaped like the code: `EncOne` has one branch per branch of frames2topicmsgs, `DecOne` one per
   branch of topicmsgs2frames, `ImageGet` / `JpgGet` are the two lazily caching accessors of Frame.  Everything the
   specification cannot decide is *symbolic*:

     - pixel contents and byte strings are terms (sequences of tokens):
           <<"P">>                the original pixel array of a raw frame
           <<"J">>                an encoding that already exists (a jpg that arrived from the network / a file)
           <<"enc">> \o p         a fresh cv2.imencode of the pixels p
           <<"dec">> \o j         cv2.imdecode of the encoding j
       two terms are equal iff the real byte strings are equal for every concrete image (JPEG coding is deterministic
       but not invertible: dec(enc(p)) # p);
     - image dimensions are the tokens "H" and "W" (kept distinct so that a swap is visible), "3" is the channel axis;
     - data is the token "empty" ({}) or "D" (any non-empty JSON dictionary);
     - `JpegClose(a, b)` - "a is within JPEG tolerance of b" - is an uninterpreted predicate: in the specification it
       holds exactly when a is *one* JPEG generation away from b.  Its numeric content is evaluated by the harness
       (vlib/c09.py: no additional loss against OpenCV's own encode + decode of the same pixels, and a generous
       mean-absolute-error bound against the original).

   State space = set of cases: a state is one frame set (a sequence of <= MaxTopics topics, built topic by topic by
   `Next`) together with one outs_jpg setting; the round-trip laws are INVARIANTs, so TLC's number of distinct states
   is the number of frame sets on which every law was evaluated.  The first MaxFree topics range over every frame
   kind x {normal, hidden name}; the remaining ones are a fixed rotation of the first (to reach 4 topics without 64^4
   states).  `Vectors` is the subset of cases that is serialised for the conformance harness (every single-frame case,
   the empty set, and mixed sets of 2-4 topics covering every kind at every position); the laws are also ASSUMEd on
   exactly those.

   `Defects`: the code as it stands has no known deviation from the intended design, so the shipped configurations use
   Defects = {}.  The switches below are *hypothetical* deviations (each mirrors one patch of /verif/mutants/C09_<name>.diff);
   with one of them on TLC must exhibit a counterexample to the named law - this is how the harness checks that the
   laws are not vacuous. *)
EXTENDS Integers, Sequences, FiniteSets, TLC, Json, IOUtils, SequencesExt, FiniteSetsExt

CONSTANTS MaxFree,       \* topics 1..MaxFree of a frame set range over every frame kind
          MaxTopics,     \* maximum number of topics in a frame set (the property says 0-4)
          Defects        \* subset of AllDefects; {} = the intended design = the code as it stands

AllDefects == {"env_wh_swapped",          \* envelope written as [w, h, fmt, enc]                -> LawDeclared / LawRaw
               "data_dropped_no_image",   \* data part not sent for image-less frames            -> LawData
               "gray_as_colour",          \* decoder reshapes every raw image to (h, w, 3)       -> LawNoError
               "jpg_reencoded"}           \* encoder re-encodes although a jpg is cached         -> LawJpgKept
ASSUME Defects \subseteq AllDefects
ASSUME MaxFree \in 0..MaxTopics /\ MaxTopics \in 0..4

(* ------------------------------------------------------------------------------------------------------------------
   Frame states (frame.py).  Record fields have one type each:
     img   "none" | "arr" | "lazy"     Frame.__image : None | ndarray | False (jpg not decoded yet)
     px    pixel term, <<>> unless img = "arr"
     rw    image.flags.writeable
     jpg   "none" | "no" | "yes"       Frame.__jpg   : None | False (not encoded yet) | the bytes
     jb    byte term of the encoding, <<>> unless jpg = "yes"
     shape <<>> | <<h, w>> | <<h, w, "3">>   Frame.__shapef[0]   (declared shape)
     fmt   "NONE" | "GRAY" | "BGR" | "RGB"   Frame.__shapef[1]
     data  "empty" | "D"                     Frame.__data                                                          *)
OJ       == {"None", "True", "False"}                 \* outs_jpg
Fmts     == {"GRAY", "BGR", "RGB"}
ImgKinds == {"rw", "ro", "jpgonly", "jpgdec", "rocached", "decrw"}
Datas    == {"empty", "D"}

ShapeFor(h, w, fmt) == IF fmt = "GRAY" THEN <<h, w>> ELSE <<h, w, "3">>     \* frame.py l.214; mq.py l.249

\* a frame descriptor: how the harness must construct the frame
Specs == [kind : {"none"}, fmt : {"NONE"}, data : Datas] \cup [kind : ImgKinds, fmt : Fmts, data : Datas]

Mk(s) ==
  LET sh == ShapeFor("H", "W", s.fmt)
      F(img, px, rw, jpg, jb) == [img |-> img, px |-> px, rw |-> rw, jpg |-> jpg, jb |-> jb,
                                  shape |-> IF img = "none" THEN <<>> ELSE sh, fmt |-> s.fmt, data |-> s.data]
  IN CASE s.kind = "none"     -> F("none", <<>>, FALSE, "none", <<>>)          \* Frame(dict)            l.84-86
       [] s.kind = "rw"       -> F("arr", <<"P">>, TRUE, "no", <<>>)           \* Frame(ndarray, ..)     l.95-120
       [] s.kind = "ro"       -> F("arr", <<"P">>, FALSE, "no", <<>>)          \*   .. flags.writeable = False
       [] s.kind = "jpgonly"  -> F("lazy", <<>>, FALSE, "yes", <<"J">>)        \* Frame.from_jpg(J,d,h,w,fmt) l.212-214
       [] s.kind = "jpgdec"   -> F("arr", <<"dec", "J">>, FALSE, "yes", <<"J">>)   \*   .. after .image    l.244-248
       [] s.kind = "rocached" -> F("arr", <<"P">>, FALSE, "yes", <<"enc", "P">>)   \* "ro" after .jpg     l.295-296
       \* .rw of a decoded jpg frame (a NEW frame with a writable copy and no encoding), drawn on by the application
       [] s.kind = "decrw"    -> F("arr", <<"draw", "dec", "J">>, TRUE, "no", <<>>)

HasImage(f) == f.img # "none"                        \* frame.py l.312-316
HasJpg(f)   == f.jpg = "yes"                         \* l.300-304 (None for an image-less frame is falsy)
HasRaw(f)   == f.img = "arr"                         \* l.306-310
Height(f)   == IF f.shape = <<>> THEN "-" ELSE f.shape[1]      \* l.268-270
Width(f)    == IF f.shape = <<>> THEN "-" ELSE f.shape[2]      \* l.272-274

\* every encoding that occurs in a case encodes an H x W picture (the frame sets of the property are well formed)
JpgDims(jb) == <<"H", "W">>

\* Frame.decode, l.184-189: the decode flag - hence the number of axes - follows the *format*, the size follows the bytes
DecodeJpg(jb, fmt) == [px |-> <<"dec">> \o jb, shape |-> ShapeFor(JpgDims(jb)[1], JpgDims(jb)[2], fmt)]

\* Frame.image, l.240-250: decodes a jpg-only frame on first use (read-only result), asserts the declared shape
ImageGet(f) ==
  IF f.img = "lazy"
  THEN LET d == DecodeJpg(f.jb, f.fmt)
       IN [ok |-> d.shape = f.shape,                                                   \* the assert of l.248
           px |-> d.px, ashape |-> d.shape,
           post |-> [f EXCEPT !.img = "arr", !.px = d.px, !.rw = FALSE]]
  ELSE [ok |-> TRUE, px |-> f.px, ashape |-> f.shape, post |-> f]

\* Frame.jpg, l.280-298: returns the cached encoding, else encodes now and caches only for a read-only image
JpgGet(f) ==
  IF f.jpg = "no"
  THEN LET j == <<"enc">> \o f.px
       IN [jb |-> j, post |-> IF f.rw THEN f ELSE [f EXCEPT !.jpg = "yes", !.jb = j]]  \* l.295
  ELSE [jb |-> f.jb, post |-> f]

Pixels(f) == ImageGet(f).px       \* what `f.image` denotes (never changes through the caches)

(* ------------------------------------------------------------------------------------------------------------------
   Messages.  A topic message is [env, parts]: env = <<>> for None, else the 4-list xtra['img']; a part is
   [t : "raw" | "jpg" | "json", b : byte term, s : shape of the serialised array (raw only)].                        *)
Part(t, b, s) == [t |-> t, b |-> b, s |-> s]

EncOne(f, oj) ==                                                                   \* body of the loop, mq.py l.218-230
  LET hasData == f.data # "empty"                                                  \* l.219  `if frame.data`
      dparts  == IF hasData THEN <<Part("json", <<"json", f.data>>, <<>>)>> ELSE <<>>
  IN IF ~HasImage(f)                                                               \* l.221
     THEN [msg  |-> [env |-> <<>>,                                                 \* l.222  [None] / [None, data]
                     parts |-> IF "data_dropped_no_image" \in Defects THEN <<>> ELSE dparts],
           post |-> f]
     ELSE LET doJpg == IF oj = "None" THEN HasJpg(f) ELSE oj = "True"              \* l.225
              enc   == IF doJpg THEN "jpg" ELSE "raw"
              env   == IF "env_wh_swapped" \in Defects
                       THEN <<Width(f), Height(f), f.fmt, enc>>
                       ELSE <<Height(f), Width(f), f.fmt, enc>>                    \* l.226
              jg    == JpgGet(f)
              ig    == ImageGet(f)
              ipart == IF doJpg                                                    \* l.227
                       THEN Part("jpg", IF "jpg_reencoded" \in Defects THEN <<"enc">> \o ig.px ELSE jg.jb, <<>>)
                       ELSE Part("raw", ig.px, ig.ashape)              \* bytearray(memoryview(image)): C order
          IN [msg  |-> [env |-> env, parts |-> <<ipart>> \o dparts],               \* l.228
              post |-> IF doJpg THEN jg.post ELSE ig.post]

\* zeromq.py l.474-476 / l.763-766: env travels as JSON inside the message envelope ('xtra'), parts as byte frames.
\* A JSON array is a sequence and None is null, so at this abstraction the wire is the identity; the harness runs
\* the real json_dumps / json_loads and bytes() conversions.
Wire(m) == [env |-> m.env, parts |-> m.parts]

SameCount(s, t) == Len(s) = Len(t) /\ ToSet(s) = ToSet(t)       \* equal number of elements (dims are distinct tokens)
Reshape(p, tgt) == IF tgt = p.s THEN p.b ELSE <<"scrambled">> \o p.b

NoFrame == [img |-> "none", px |-> <<>>, rw |-> FALSE, jpg |-> "none", jb |-> <<>>, shape |-> <<>>, fmt |-> "NONE",
            data |-> "empty"]
Ok(f)  == [ok |-> TRUE,  err |-> "",  f |-> f]
Err(e) == [ok |-> FALSE, err |-> e,   f |-> NoFrame]

DecOne(m) ==                                                                       \* body of the loop, mq.py l.238-254
  LET hasX    == m.env # <<>>                                                      \* l.239
      dataidx == IF hasX THEN 2 ELSE 1                                             \* l.240  (index into [env] \o parts)
      lmsg    == 1 + Len(m.parts)
  IN IF lmsg > dataidx + 1 THEN Err("incorrect number of messages")                \* l.242-243
     ELSE IF lmsg > dataidx /\ m.parts[dataidx].t # "json" THEN Err("data part is not JSON")
     ELSE
       LET data == IF lmsg > dataidx THEN m.parts[dataidx].b[2] ELSE "empty"       \* l.245; Frame(.., None) -> {}  (frame.py l.99)
       IN IF ~hasX THEN Ok([NoFrame EXCEPT !.data = data])                         \* l.247  Frame(data)
          ELSE LET h == m.env[1]  w == m.env[2]  fmt == m.env[3]  p == m.parts[1]
               IN IF m.env[4] = "raw"                                              \* l.250
                  THEN LET tgt == IF "gray_as_colour" \in Defects THEN <<h, w, "3">>
                                  ELSE ShapeFor(h, w, fmt)                         \* l.249
                       IN IF p.t # "raw" \/ ~SameCount(p.s, tgt) THEN Err("cannot reshape")
                          ELSE Ok([img |-> "arr", px |-> Reshape(p, tgt), rw |-> TRUE, jpg |-> "no", jb |-> <<>>,
                                   shape |-> tgt,                                  \* Frame.__init__ takes the array's shape, l.113-120
                                   fmt |-> IF Len(tgt) = 2 THEN "GRAY" ELSE fmt, data |-> data])
                  ELSE IF p.t # "jpg" THEN Err("blob is not an image")
                  ELSE Ok([img |-> "lazy", px |-> <<>>, rw |-> FALSE, jpg |-> "yes", jb |-> p.b,     \* l.251; frame.py l.209-214
                           shape |-> ShapeFor(h, w, fmt), fmt |-> fmt, data |-> data])

(* ------------------------------------------------------------------------------------------------------------------
   The property.  x = a frame of the set, e = its encoding, y = what the next filter gets.                           *)
JpegClose(a, b) == a = <<"dec", "enc">> \o b          \* uninterpreted: exactly one JPEG generation apart

SentJpg(x, oj) == HasImage(x) /\ (IF oj = "None" THEN HasJpg(x) ELSE oj = "True")
SentRaw(x, oj) == HasImage(x) /\ ~SentJpg(x, oj)

\* the expected mode of a case, read off the property's text (not off EncOne)
Mode(x, oj) == IF ~HasImage(x) THEN "no_image"
               ELSE IF SentRaw(x, oj) THEN "identical"
               ELSE IF HasJpg(x) THEN "jpg_bytes_identical"
               ELSE "jpg_lossy"

RT(s, oj) == LET x == Mk(s)  e == EncOne(x, oj)  d == DecOne(Wire(e.msg))
             IN [x |-> x, msg |-> e.msg, post |-> e.post, ok |-> d.ok, y |-> d.f]

LawNoError(r)      == r.ok                                                        \* the part-count check passes, nothing raises
LawData(r)         == r.y.data = r.x.data                                         \* equal data ({} <-> no data part)
LawPresence(r)     == HasImage(r.y) = HasImage(r.x)                               \* same presence / absence of an image
LawDeclared(r)     == r.y.shape = r.x.shape /\ r.y.fmt = r.x.fmt                  \* same height, width, format
LawRaw(r, oj)      == SentRaw(r.x, oj) => Pixels(r.y) = Pixels(r.x)               \* sent raw: pixel identical
LawJpgKept(r, oj)  == SentJpg(r.x, oj) /\ HasJpg(r.x)                             \* sent as JPEG, encoding existed:
                        => /\ HasJpg(r.y) /\ r.y.jb = r.x.jb                      \*   kept byte for byte
                           /\ r.msg.parts[1].b = r.x.jb                           \*   (and it is what is on the wire)
                           /\ (Pixels(r.y) = Pixels(r.x) \/ JpegClose(Pixels(r.y), Pixels(r.x)))  \* and it shows x's picture
LawJpgLossy(r, oj) == SentJpg(r.x, oj) /\ ~HasJpg(r.x)                            \* sent as JPEG, no encoding existed:
                        => JpegClose(Pixels(r.y), Pixels(r.x))                    \*   within JPEG tolerance of the original
LawShape(r)        == HasImage(r.y) => ImageGet(r.y).ok /\ ImageGet(r.y).ashape = r.x.shape   \* always decodes to the declared shape
LawSenderKeeps(r)  == /\ Pixels(r.post) = Pixels(r.x) /\ r.post.data = r.x.data   \* encoding only fills caches of x
                      /\ r.post.shape = r.x.shape /\ r.post.fmt = r.x.fmt
LawEnvelope(r, oj) == /\ Len(r.msg.parts) = (IF HasImage(r.x) THEN 1 ELSE 0) + (IF r.x.data = "empty" THEN 0 ELSE 1)
                      /\ (r.msg.env = <<>>) = ~HasImage(r.x)                      \* data part omitted when empty; env None iff no image
                      /\ HasImage(r.x) => r.msg.env = <<Height(r.x), Width(r.x), r.x.fmt,
                                                         IF SentJpg(r.x, oj) THEN "jpg" ELSE "raw">>
LawMode(r, oj)     == LET m == Mode(r.x, oj)
                      IN /\ m = "no_image"            => ~HasImage(r.y) /\ r.msg.env = <<>>
                         /\ m = "identical"           => r.msg.parts[1].t = "raw" /\ HasRaw(r.y) /\ ~HasJpg(r.y)
                         /\ m = "jpg_bytes_identical" => r.msg.parts[1].t = "jpg" /\ r.msg.parts[1].b = r.x.jb
                         /\ m = "jpg_lossy"           => r.msg.parts[1].t = "jpg" /\ r.msg.parts[1].b = <<"enc">> \o Pixels(r.x)

AllLaws(s, oj) == LET r == RT(s, oj)
                  IN LawNoError(r) /\ LawData(r) /\ LawPresence(r) /\ LawDeclared(r) /\ LawRaw(r, oj) /\ LawJpgKept(r, oj)
                     /\ LawJpgLossy(r, oj) /\ LawShape(r) /\ LawSenderKeeps(r) /\ LawEnvelope(r, oj) /\ LawMode(r, oj)

(* ------------------------------------------------------------------------------------------------------------------
   Frame sets.  An element is [topic, kind, fmt, data]; frames2topicmsgs / topicmsgs2frames map over the dict in
   insertion order (l.218, l.238) and keep the key.                                                                  *)
NormalNames == <<"main", "cam2", "aux", "t4">>
HiddenNames == <<"_metrics", "_filter", "_x", "_h4">>
Elem(k, s, hid) == [topic |-> IF hid THEN HiddenNames[k] ELSE NormalNames[k], kind |-> s.kind, fmt |-> s.fmt,
                    data |-> s.data]
SpecOf(e) == [kind |-> e.kind, fmt |-> e.fmt, data |-> e.data]

EncSet(fs, oj) == [k \in 1..Len(fs) |-> [topic |-> fs[k].topic, msg |-> EncOne(Mk(SpecOf(fs[k])), oj).msg]]
DecSet(tms)    == [k \in 1..Len(tms) |-> [topic |-> tms[k].topic, res |-> DecOne(Wire(tms[k].msg))]]

LawTopics(fs, oj) == LET out == DecSet(EncSet(fs, oj))                           \* same topics, same order
                     IN [k \in 1..Len(out) |-> out[k].topic] = [k \in 1..Len(fs) |-> fs[k].topic]
LawSet(fs, oj)    == LawTopics(fs, oj) /\ \A k \in 1..Len(fs) : AllLaws(SpecOf(fs[k]), oj)

(* ---- the case space explored by TLC ------------------------------------------------------------------------------ *)
SpecSeq == SetToSeq(Specs)
NSpecs  == Len(SpecSeq)
IndexOf(s) == CHOOSE i \in 1..NSpecs : SpecSeq[i] = s
Rot(s, d)  == SpecSeq[((IndexOf(s) - 1 + d) % NSpecs) + 1]

VARIABLES frames, oj
vars == <<frames, oj>>

Init == frames = <<>> /\ oj \in OJ
Grow == /\ Len(frames) < MaxTopics
        /\ LET k == Len(frames) + 1
           IN IF k <= MaxFree
              THEN \E s \in Specs, hid \in BOOLEAN : frames' = Append(frames, Elem(k, s, hid))
              ELSE frames' = Append(frames, Elem(k, Rot(SpecOf(frames[1]), 7 * k), k % 2 = 0))
        /\ UNCHANGED oj
Next == Grow \/ (Len(frames) = MaxTopics /\ UNCHANGED vars)
Spec == Init /\ [][Next]_vars

Per(L(_)) == \A k \in 1..Len(frames) : L(RT(SpecOf(frames[k]), oj))
InvTopics      == LawTopics(frames, oj)
InvNoError     == Per(LawNoError)
InvData        == Per(LawData)
InvPresence    == Per(LawPresence)
InvDeclared    == Per(LawDeclared)
InvShape       == Per(LawShape)
InvSenderKeeps == Per(LawSenderKeeps)
InvRaw         == \A k \in 1..Len(frames) : LawRaw(RT(SpecOf(frames[k]), oj), oj)
InvJpgKept     == \A k \in 1..Len(frames) : LawJpgKept(RT(SpecOf(frames[k]), oj), oj)
InvJpgLossy    == \A k \in 1..Len(frames) : LawJpgLossy(RT(SpecOf(frames[k]), oj), oj)
InvEnvelope    == \A k \in 1..Len(frames) : LawEnvelope(RT(SpecOf(frames[k]), oj), oj)
InvMode        == \A k \in 1..Len(frames) : LawMode(RT(SpecOf(frames[k]), oj), oj)
\* every mode and every frame kind occurs (non-vacuity of the case space, checked on the vector set below)

(* ---- vectors ----------------------------------------------------------------------------------------------------- *)
Expect(s, o) ==
  LET r == RT(s, o)
  IN [mode   |-> Mode(r.x, o),
      env    |-> r.msg.env,                                   \* [] for None, else [h, w, fmt, enc] with h = "H", w = "W"
      nparts |-> Len(r.msg.parts),                            \* parts after the envelope
      bytes  |-> IF ~HasImage(r.x) THEN "none"                \* which bytes go on the wire
                 ELSE IF r.msg.parts[1].t = "raw" THEN "raw_pixels"
                 ELSE IF HasJpg(r.x) THEN "cached_jpg" ELSE "fresh_jpg",
      datapart |-> r.x.data # "empty",
      x_pre  |-> [img |-> r.x.img, jpg |-> r.x.jpg, rw |-> r.x.rw],
      x_post |-> [img |-> r.post.img, jpg |-> r.post.jpg, rw |-> r.post.rw],   \* caches filled on the sender's frame
      y      |-> [img |-> r.y.img, jpg |-> r.y.jpg, fmt |-> r.y.fmt, shape |-> r.y.shape, data |-> r.y.data],
      ok     |-> r.ok]

Window(i, n, st) == [k \in 1..n |-> Elem(k, SpecSeq[((i - 1 + (k - 1) * st) % NSpecs) + 1], (i + k) % 3 = 0)]
VecSets == {<<>>}
           \cup {<<Elem(1, s, hid)>> : s \in Specs, hid \in BOOLEAN}
           \cup {Window(i, n, st) : i \in 1..NSpecs, n \in 2..4, st \in {1, 5, 11}}
Vec(fs, o) == [oj |-> o, n |-> Len(fs),
               topics |-> IF fs = <<>> THEN <<>>
                          ELSE [k \in 1..Len(fs) |-> [topic |-> fs[k].topic, kind |-> fs[k].kind, fmt |-> fs[k].fmt,
                                                      data |-> fs[k].data, expect |-> Expect(SpecOf(fs[k]), o)]]]
Vectors == {Vec(fs, o) : fs \in VecSets, o \in OJ}

\* the laws on exactly the emitted cases (with Defects = {}), and non-vacuity: every mode, kind and branch occurs
ASSUME Defects = {} => \A fs \in VecSets, o \in OJ : LawSet(fs, o)
ASSUME {Mode(Mk(s), o) : s \in Specs, o \in OJ} = {"no_image", "identical", "jpg_bytes_identical", "jpg_lossy"}
ASSUME \A kd \in ImgKinds \cup {"none"} : \A k \in 1..4 : \E fs \in VecSets : Len(fs) >= k /\ fs[k].kind = kd
ASSUME "VERIF_OUT" \in DOMAIN IOEnv =>
         JsonSerialize(IOEnv.VERIF_OUT, [vectors |-> SetToSeq(Vectors), nspecs |-> NSpecs])
=============================================================================

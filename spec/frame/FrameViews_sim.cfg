CONSTANTS
  StartKinds = {"rw", "ro", "lazy", "now"}
  StartFmts = {"RGB", "BGR", "GRAY"}
  MaxOps = 12
  Defects = {"ro_x_caches_writable"}
  CountNoops = TRUE
  Emit = FALSE
INIT Init
NEXT Next
INVARIANT TypeOK
INVARIANT NoAlias
INVARIANT JpgOnlyOnFrozen
INVARIANT JpgFresh
INVARIANT ViewKind
PROPERTY RoStaysRo

CONSTANTS
  Defects = {}
  MaxDepth = 3
  Classes = {"Filter", "VideoIn", "VideoOut", "ImageIn", "ImageOut", "MQTTOut", "Recorder", "REST", "Util", "Webvis"}
  SchemeClasses = {"rtsp", "https", "exotic", "upper", "short"}
  CharClasses = {"plain", "bang", "colon", "slash", "question", "hash", "pct", "mixed", "long"}
INIT Init
NEXT Next
INVARIANT TypeOK
INVARIANT NoCleartextAtSink

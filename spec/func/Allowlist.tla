----------------------------- MODULE Allowlist -----------------------------
(* C16 - reference specification of the safe-metrics allow-list of the OpenTelemetry -> OpenLineage bridge
   (openfilter/observability/bridge.py: OTelLineageExporter.export/_is_allowed; config.py: read_allowlist).

   Names and patterns are sequences over a small alphabet; "*" in a pattern matches any (possibly empty) run of
   characters.  The intended design ("lock-down mode": docs/observability-summary.md, config.py) is:

       Exported(allow, metrics) = { m \in metrics : \E p \in allow : Match(p, m) }      -- nothing when allow = {}

   The module states the laws of C16 over this reference, TLC checks them for every allow-list and metric set in the
   bounded domain, and serialises one test vector per (allow-list, metric set) for the conformance harness, which runs
   the real exporter on it.  Histogram shape: `FixCounts` is the exporter's truncate-or-pad rule. *)
EXTENDS Integers, Sequences, FiniteSets, TLC, Json, IOUtils, SequencesExt, FiniteSetsExt

CONSTANTS Alphabet,      \* characters of metric names, e.g. {"a", "b"}
          MaxLen,        \* maximum length of names and patterns
          MaxAllow,      \* maximum number of allow-list entries
          MaxMetrics     \* maximum number of declared metrics

Star == "*"
Names    == UNION {[1..n -> Alphabet] : n \in 1..MaxLen}
Patterns == UNION {[1..n -> Alphabet \cup {Star}] : n \in 1..MaxLen}

RECURSIVE Match(_, _)
Match(p, s) ==
  IF p = <<>> THEN s = <<>>
  ELSE IF Head(p) = Star
       THEN \/ Match(Tail(p), s)                         \* star matches the empty run
            \/ s # <<>> /\ Match(p, Tail(s))             \* or one more character
       ELSE s # <<>> /\ Head(s) = Head(p) /\ Match(Tail(p), Tail(s))

Allowed(allow, m)  == \E p \in allow : Match(p, m)
Exported(allow, M) == {m \in M : Allowed(allow, m)}

AllowLists == UNION {kSubset(k, Patterns) : k \in 0..MaxAllow}
MetricSets == UNION {kSubset(k, Names) : k \in 1..MaxMetrics}

(* ---- the laws of C16 on the reference, per case <<A, B, M>> (allow-lists A, B; declared metrics M) -------------- *)
LawLockDown(M)      == Exported({}, M) = {}
LawOnlyListed(A, M) == \A m \in Exported(A, M) : \E p \in A : Match(p, m)
LawSubset(A, M)     == Exported(A, M) \subseteq M
LawUnion(A, B, M)   == Exported(A \cup B, M) = Exported(A, M) \cup Exported(B, M)
LawMonotone(A, B, M) == A \subseteq B => Exported(A, M) \subseteq Exported(B, M)
LawExact      == \A n \in Names, m \in Names : Match(n, m) <=> n = m           \* a pattern without star is exact
LawStarAll    == \A m \in Names : Match(<<Star>>, m)

(* ---- histogram shape ----------------------------------------------------------------------------------------- *)
FixCounts(counts, nb) ==   \* exporter: truncate or zero-pad to nb + 1 counts
  [i \in 1..(nb + 1) |-> IF i <= Len(counts) THEN counts[i] ELSE 0]
LawHistShape == \A nb \in 0..3, nc \in 0..5 : Len(FixCounts([i \in 1..nc |-> i], nb)) = nb + 1

(* ---- vectors ------------------------------------------------------------------------------------------------- *)
Vec(A, M) == [allow |-> SetToSeq(A), metrics |-> SetToSeq(M), exported |-> SetToSeq(Exported(A, M))]
Vectors == {Vec(A, M) : A \in AllowLists, M \in MetricSets}
HistVectors == {[nb |-> nb, nc |-> nc, counts |-> FixCounts([i \in 1..nc |-> i], nb)] : nb \in 0..3, nc \in 0..5}

ASSUME LawExact
ASSUME LawStarAll
ASSUME LawHistShape
ASSUME "VERIF_OUT" \in DOMAIN IOEnv =>
         JsonSerialize(IOEnv.VERIF_OUT, [vectors |-> SetToSeq(Vectors), hist |-> SetToSeq(HistVectors)])

(* The state space is the set of cases: one initial state per <<A, B, M>>; the laws are invariants, so TLC's
   "distinct states" is the number of cases on which every law was evaluated. *)
VARIABLES A, B, M
Init == A \in AllowLists /\ B \in AllowLists /\ M \in MetricSets
Next == UNCHANGED <<A, B, M>>
InvLockDown   == LawLockDown(M)
InvOnlyListed == LawOnlyListed(A, M)
InvSubset     == LawSubset(A, M)
InvUnion      == LawUnion(A, B, M)
InvMonotone   == LawMonotone(A, B, M)
=============================================================================

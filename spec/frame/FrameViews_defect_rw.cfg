CONSTANTS
  StartKinds = {"rw", "ro", "lazy", "now"}
  StartFmts = {"RGB", "BGR", "GRAY"}
  MaxOps = 3
  Defects = {"rw_in_place"}
  CountNoops = TRUE
  Emit = FALSE
INIT Init
NEXT Next
VIEW view
PROPERTY RoStaysRo

SPECIFICATION SpecC
CONSTANTS
  Readers = {}
  AutoRef = {}
  Sizes = {1, 2}
  FileSizes = {1, 3}
  TotalSizes = {2, 8}
  MaxWrites = 2
  MaxTs = 2
  MaxDeletes = 1
  MaxReopens = 0
  MaxPosOps = 2
  Active = {"w"}
  Bin = FALSE
  Acts = {"write", "read", "seek", "tell"}
  Defects = {}
VIEW view
PROPERTY C13_ExactlyOnceInOrder
PROPERTY C13_Budget
PROPERTY C13_NewestKept
PROPERTY C13_NoOverwrite

CONSTANTS
  Defects = {"latch_after_success"}
  MaxCalls = 9
  MaxRuns = 2
SPECIFICATION Spec
INVARIANT C18_Emitter
INVARIANT C18_Terminated
INVARIANT TypeOK

CONSTANTS
  Defects = {"abort_at_every_site", "not_idempotent", "hb_complete", "running_after_terminal", "exit_after_time_module", "init_fail_skips_fini", "mq_ctor_partial_leak"}
  K = 1
  PropSet = {"all"}
  ObeySet = {"all"}
  EASet = {"none", "secs"}
  WithInterrupt = TRUE
  EarlyExit = TRUE
  Emit = TRUE
  MaxTicks = 1
INIT LInit
NEXT LNext
ACTION_CONSTRAINT LEmitDone
INVARIANT LTypeOK

CONSTANTS
  Defects <- CodeDefects
  MaxDepth = 2
  Classes = {"Filter", "VideoIn", "VideoOut", "ImageIn", "ImageOut", "MQTTOut", "Recorder", "REST", "Util", "Webvis"}
  SchemeClasses = {"rtsp", "https"}
  CharClasses = {"plain"}
INIT Init
NEXT Next
INVARIANT TypeOK
INVARIANT NoCleartextAtSink

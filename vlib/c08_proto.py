"""C08 at the level of the protocol specification: exit announcements (out-of-band messages), obeying them, CLOSE and the two
destroy() phases are actions of spec/proto/OFP.tla (Terminate, SPollOob, XClose1Done, XClose2Done; formulas
C08_NoSpuriousExit, C08_WholePipeline).  Model checking, conformance replay, random schedules and TLC trace validation as
for C01-C07 (vlib/protocheck.py); the observer judges who ended against the least fixpoint of announce / obey."""
from . import common, topos, proto
from .protocheck import Engine


def reach(topo):
    F = topo.filters
    nbrs = {f: set() for f in topo.names}
    for c in topo.conns():
        s = topo.src_of(c)
        nbrs[s['pub']].add(c[0])              # downstream: PUB socket
        if s['eph'] < 2:
            nbrs[c[0]].add(s['pub'])          # upstream: request pipe (a '??' source has none)
    out = set()
    for f in topo.names:
        if F[f].get('exit_at', -1) < 0:
            continue
        k = F[f].get('exit_kind', 'clean')
        r = {f}
        while True:
            add = {g for x in r if k in F[x].get('prop_exit', ()) for g in nbrs[x] if k in F[g].get('obey_exit', ())} - r
            if not add:
                break
            r |= add
        out |= r
    return out


def judge_exit(complete):
    def judge(topo, pipe, plog):
        want = reach(topo)
        ended = {f for f in topo.names if (t := pipe.world.tasks.get(f)) is not None and t.state == 'done'}
        v = []
        if ended - want:
            v.append(('C08_Propagation', f'{sorted(ended - want)} ended although no announced exit reaches them under the policies '
                                         f'(prescribed: {sorted(want)})', {'ended': sorted(ended), 'prescribed': sorted(want)}))
        started = any(e[0] == 'selfexit' for e in pipe.world.events)
        if complete and started and want - ended:
            v.append(('C08_WholePipeline', f'{sorted(want - ended)} keep running although the announced exit reaches them '
                                           f'(ended: {sorted(ended)})', {'ended': sorted(ended), 'prescribed': sorted(want)}))
        for f in ended:
            flt = pipe.filters.get(f)
            socks = [s for s in pipe.world.tasks[f].sockets if not s.closed]
            if socks:
                v.append(('C08_CommClosed', f'{f} ended with {len(socks)} sockets still open', {'filter': f}))
        return v
    return judge


def scenarios(quick):
    T, X = topos, topos.with_exit
    both = ('clean', 'error')
    sc = dict(
        mc=[(X(T.chain3(maxseq=2), 'A', 1, 'clean'), 'SpecPrompt', dict(invariants=('C08_NoSpuriousExit', 'NoCrash', 'NoViolation'))),
            (X(T.chain3(maxseq=2), 'S', 1, 'clean'), 'FairPrompt', dict(invariants=(), properties=('C08_WholePipeline',), view=False)),
            (X(T.tee_rejoin2(maxseq=2, skip=()), 'B', 1, 'error'), 'SpecZL', dict(invariants=('C08_NoSpuriousExit', 'NoCrash', 'NoViolation')))],
        conf=[(X(T.chain3(maxseq=3), 'A', 1, 'clean'), 'SpecPrompt', 6 if quick else 60, 250),
              (X(T.chain3(maxseq=3), 'K', 1, 'error'), 'Spec', 6 if quick else 60, 300),
              (X(T.tee_rejoin2(maxseq=3, skip=()), 'B', 1, 'error', prop=('error',), obey=both), 'SpecPrompt', 6 if quick else 60, 300),
              (X(T.eph_side(maxseq=3), 'E', 1, 'clean', prop=('clean',), obey=('clean',)), 'SpecPrompt', 6 if quick else 60, 250)],
        rand=[(X(T.chain3(maxseq=20), 'A', 2, 'error'), 6 if quick else 80),
              (X(T.chain3(maxseq=20), 'K', 2, 'clean', prop=both, obey=('error',)), 5 if quick else 60),
              (X(T.tee_rejoin2(maxseq=20, skip=()), 'K', 2, 'clean'), 6 if quick else 80),
              (X(T.tee(maxseq=20), 'S', 3, 'error', prop=('error',), obey=('error',)), 5 if quick else 60),
              (X(T.balance2(maxseq=20), 'W1', 2, 'clean'), 5 if quick else 60),
              (X(T.eph_side(maxseq=20), 'W', 2, 'clean'), 5 if quick else 60)],
    )
    if not quick:
        sc['mc'] += [(X(T.chain3(maxseq=2), 'K', 1, 'error'), 'FairPrompt', dict(invariants=(), properties=('C08_WholePipeline',), view=False)),
                     (X(T.tee(maxseq=2), 'B', 1, 'clean', obey=('error',)), 'SpecPrompt', dict(invariants=('C08_NoSpuriousExit', 'NoCrash')))]
    return sc


def stage(rep, ctx):
    eng = Engine(ctx, rep, ('C08_Propagation', 'C08_WholePipeline', 'C08_CommClosed'))
    sc = scenarios(ctx.quick)
    for topo, spec, kw in sc['mc']:
        eng.model_check(topo, spec, name=f'{topo.name}/{spec}/C08', timeout=900 if ctx.quick else 3000, **kw)
    for topo, spec, num, depth in sc['conf']:
        eng.conformance(topo, spec, num, depth, judgekw=dict(extra=judge_exit(False)))
    for topo, n in sc['rand']:
        eng.random_runs(topo, n, 2500, p_timeout=0.0, tag='exit', pipekw=dict(local_clocks=False),
                        judgekw=dict(extra=judge_exit(True)), validate=2 if ctx.quick else 15)

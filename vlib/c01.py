"""C01 - frames that arrive together stay together: no mixed or partial frame sets.

Specification: spec/proto/OFP.tla (ProcMsg / Consume / Complete / RFinal; formulas C01_SameId, C01_ExactTopics,
C01_SameOrigin evaluated at every delivery).  See vlib/protocheck.py for the four stages.
"""
from . import common, topos
from .common import Report
from .protocheck import Engine, replay_witness, binding_selftest

PROPS = ('C01_SameId', 'C01_ExactTopics', 'C01_SameOrigin')
INV = ('C01', 'NoCrash')


def scenarios(quick):
    T = topos
    return dict(
        # (topology, scheduling, TLC bounds)
        mc=[(T.tee_rejoin2(maxseq=1), 'SpecZL', {}),
            (T.join2(maxseq=1), 'SpecPrompt', {}),
            (T.chain2(maxseq=1), 'Spec', dict(pq=6, rq=2, lq=3))] +
           ([] if quick else [
               (T.tee_rejoin2(maxseq=2), 'SpecZL', {}),
               (T.tee_rejoin2(maxseq=1), 'SpecPrompt', {}),
               (T.tee_rejoin2(maxseq=1, skipA=(0,), skip=(), slowB=True, explicit_b=True), 'SpecPrompt', dict(lq=10)),
               (T.hidden(maxseq=1), 'SpecPrompt', {}),
               (T.join2(maxseq=2), 'SpecPrompt', {})]),
        # design mutations: (topology, scheduling, mutations, bounds)
        mut=[(T.tee_rejoin2(maxseq=2), 'SpecZL', ['C01a', 'id_not_carried'], {}),
             (T.tee_rejoin2(maxseq=2, explicit_b=True), 'SpecZL', ['no_inval'], {}),
             (T.chain2(maxseq=1), 'SpecPrompt', ['partial_ok'], {}),
             (T.tee_rejoin2(maxseq=1, skipA=(0,), skip=(), slowB=True, explicit_b=True), 'SpecPrompt', ['C01b'], dict(lq=10))] +
            ([] if quick else [(T.tee_rejoin_multi(maxseq=2), 'SpecZL', ['inval_complete_only'], dict(max_faults=1, fault_kinds=['drop']))]),
        # conformance replay: (topology, scheduling, number of behaviours, depth)
        conf=[(T.tee_rejoin2(maxseq=2), 'SpecPrompt', 12 if quick else 150, 200),
              (T.tee_rejoin2(maxseq=2, explicit_b=True, slowB=True), 'SpecPrompt', 8 if quick else 100, 200),
              (T.join2(maxseq=2), 'SpecPrompt', 8 if quick else 100, 150),
              (T.hidden(maxseq=1), 'Spec', 6 if quick else 100, 200),
              (T.tee_rejoin_multi(maxseq=3), 'SpecPrompt', 6 if quick else 80, 250),
              (T.tee_rejoin_relay(maxseq=3), 'SpecPrompt', 6 if quick else 80, 300),
              (T.explicit_multi(maxseq=5), 'SpecPrompt', 6 if quick else 80, 300),
              # the rejoin point is an application that calls MQ.recv() / MQ.send() with timeout = None (OFP!Blocking)
              (T.blocking(T.tee_rejoin2(maxseq=2), ['K']), 'SpecPrompt', 6 if quick else 80, 200),
              (T.blocking(T.tee_rejoin_relay(maxseq=3)), 'SpecPrompt', 4 if quick else 60, 300)],
        # random schedules on the real code: (topology, runs, steps, p_timeout, p_drop)
        rand=[(T.tee_rejoin2(maxseq=3), 10 if quick else 200, 700, 0.03, 0.0),
              (T.tee_rejoin2(maxseq=3, skipA=(0,), skip=(2,), slowB=True, explicit_b=True), 12 if quick else 200, 700, 0.03, 0.0),
              (T.tee_rejoin2(maxseq=3, skip=(1, 2), explicit_b=True), 8 if quick else 150, 700, 0.05, 0.05),
              (T.join2(maxseq=3), 8 if quick else 150, 500, 0.05, 0.05),
              (T.hidden(maxseq=2), 6 if quick else 100, 500, 0.05, 0.05),
              # varying topic sets + skipping branch + lost publishes: a half-read sibling buffer must be invalidated too
              (T.tee_rejoin_multi(maxseq=5), 14 if quick else 250, 900, 0.03, 0.08),
              # the rejoin is a relay (recv() is called with the sender's state): adopted ids must survive recv() slices
              (T.tee_rejoin_relay(maxseq=4), 16 if quick else 250, 1200, 0.03, 0.0),
              # explicit two-topic subscription, topic set varying per id, an id skipped upstream
              (T.explicit_multi(maxseq=5), 8 if quick else 150, 900, 0.03, 0.0)],
    )


def run(ctx):
    rep = Report(ctx)
    rep.rule = ('case = one execution of the real pipeline classes on the simulated network under one schedule (a '
                'TLC counterexample of a mutated design, a TLC -simulate behaviour, or a seeded random schedule); '
                'non-trivial = at least one frame set was handed to a process(); distinct = distinct (topology, schedule origin)')
    rep.assumptions = ['the real ZeroMQ library is replaced by vlib/simzmq.py (FIFO per connection, atomic multipart, '
                       'PUB drops at the high-water mark, PUSH pipe from connect(), slow joiner)',
                       'exhaustive model checking is for the stated small constants; larger pipelines are sampled']
    eng = Engine(ctx, rep, PROPS)
    sc = scenarios(ctx.quick)
    binding_selftest(rep, topos.tee_rejoin2(maxseq=2), ctx)
    for topo, spec, bounds in sc['mc']:
        eng.model_check(topo, spec, invariants=INV, bounds=bounds, timeout=900 if ctx.quick else 3000)
    for topo, spec, muts, bounds in sc['mut']:
        bounds = dict(bounds)
        fk = {k: bounds.pop(k) for k in ('max_faults', 'fault_kinds') if k in bounds}
        eng.mutation_schedules(topo, spec, muts, invariant='C01', bounds=bounds, timeout=600, victims=topo.names if fk else (), **fk)
    eng.stored_schedules('C01_')
    for topo, spec, num, depth in sc['conf']:
        eng.conformance(topo, spec, num, depth)
    eng.cover(topos.join2(maxseq=0), 'SpecPrompt', max_paths=150 if ctx.quick else None)
    if not ctx.quick:
        eng.cover(topos.tee_rejoin2(maxseq=1), 'SpecZL', max_paths=6000)
    for topo, n, steps, pt, pd in sc['rand']:
        eng.random_runs(topo, n, steps, p_timeout=pt, p_drop=pd, tag='rand', validate=3 if ctx.quick else 25)
    return rep.finish()


def replay(ctx):
    return replay_witness(ctx, PROPS)

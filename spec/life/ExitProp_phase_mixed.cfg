CONSTANTS
  Defects = {"oob_read_in_matching_phase"}
  TopoSet = {"chain", "tee", "rejoin"}
  PropSet = {"all", "clean", "error", "none"}
  ObeySet = {"all", "clean", "error", "none"}
  Mixed = TRUE
  Emit = FALSE
INIT Init
NEXT Next
VIEW view
INVARIANT C08_NoSpuriousExit
INVARIANT C08_Propagation
INVARIANT C08_WholePipeline
INVARIANT C08_KindPreserved
INVARIANT C08_AnnouncePolicy
INVARIANT C08_Result

------------------------------- MODULE Lineage -------------------------------
(* C18 - a filter run emits a well-formed lineage history.

   Lineage.tla = Lifecycle.tla (Filter.run, one action per lifecycle stage) composed with the lineage emitter
   openfilter/observability/lineage.py `OpenFilterLineage` as the code uses it:

     main thread   every lifecycle step of Lifecycle.tla contributes the emitter calls the code makes in that step, in
                   order, as a list of micro-operations `todo` that are executed one at a time (so that the heartbeat
                   thread can be scheduled between any two of them):
                       <<"emit", kind, site>>     emitter.emit_start / emit_stop (ABORT) / emit_complete
                       <<"hbstart", "", site>>    emitter.start_lineage_heart_beat()          lineage.py l.208-214
                       <<"stophb", "", site>>     emitter.stop_lineage_heart_beat()           lineage.py l.216-218
                   call sites (filter.py):  init l.921-923 (START, heartbeat), exit() l.629-633, fini() l.1019-1020,
                   run(): except Exception l.1197-1199 ("exc"), except Filter.Exit l.1205-1207 ("exit_h"),
                   inner finally l.1213-1215 ("fin_inner"), outer finally l.1217-1219 ("fin_outer")
     heartbeat     lineage.py _heartbeat_loop l.176-185, a separate process of the specification:
                       HbTick      `while not stop: emit RUNNING; stop.wait(interval)`
                       HbStopped   the loop sees the stop event: `self.emit_complete()` -> COMPLETE, thread ends
                       ProcessEnd  the thread is a daemon: it dies with the process if run() has returned first

   `hist` is the sequence of emitted events (kind, site); one emitter object = one run id, so "same run id" is structural
   here and is checked on the real events by the harness.

   Defects (Defects = {} is the intended design: ONE terminal emission chosen by the outcome, made by the main thread, and
   an idempotent emitter; Defects = AsWritten is the code as it stands):
     "abort_at_every_site"     GENUINE  emit_stop() (ABORT) is called from exit(), fini(), `except Filter.Exit` and both
                               finally blocks of run() - on every path, whatever the outcome
     "not_idempotent"          GENUINE  every emit_stop()/emit_complete() call emits (no "terminal already sent" flag)
     "hb_complete"             GENUINE  COMPLETE is emitted by the heartbeat thread when its stop event is set - whatever
                               the outcome, and after the main thread's ABORTs (or never, if the process ends first)
     "running_after_terminal"  GENUINE  the heartbeat thread keeps emitting RUNNING after a terminal event (fini()'s ABORT
                               is emitted while the heartbeat is still running when the loop ended by the stop event)
   Intended design, per stage:  START + heartbeat in init;  exit() only stops the heartbeat;  `except PropagateError`
   (an obeyed error exit) and `except Exception` / any other BaseException -> emit_stop (ABORT);  both `finally` blocks ->
   emit_complete (COMPLETE);  emit_stop / emit_complete are idempotent per run, so whichever terminal event comes first is
   the only one;  the heartbeat thread emits no terminal event and nothing once a terminal event is out.

   CONFIGURATIONS (vlib/c18.py)
     Lineage_quick / _thorough    Defects = {}: C18_Wellformed, C18_TerminalBeforeReturn (+ C08 invariants) on every lifecycle
                                  behaviour x heartbeat interleaving (K = 1 / 2 iterations, <= 2 / 3 heartbeats)
     Lineage_aswritten, Lineage_defect_<name>   the code's deviations: TLC must report C18_Wellformed violated
     Lineage_cover                Emit: one line per complete behaviour of the model of the code as it stands, for replay *)
EXTENDS Lifecycle

CONSTANTS MaxTicks        \* bound on RUNNING heartbeats per behaviour

AsWritten == LineageDefects
ASSUME MaxTicks \in Nat

VARIABLES lin,    \* [hb: off / on / done / killed, hbStop, term (a terminal event is out), ticks]
          hist,   \* emitted events: sequence of <<kind, site>>
          todo    \* pending micro-operations of the current lifecycle step
vars == <<s, path, lin, hist, todo>>

LD(d) == d \in Defects
Terminal == {"COMPLETE", "ABORT"}

StopHb(site) == <<"stophb", "", site>>
EmitOp(kind, site) == <<"emit", kind, site>>

\* Filter.exit l.622-636: everything inside `if not self.stop_evt.is_set()`
ExitOps == IF s.stopEvt THEN <<>>
           ELSE <<StopHb("exit")>> \o (IF LD("abort_at_every_site") THEN <<EmitOp("ABORT", "exit")>> ELSE <<>>)
StartOps == <<EmitOp("START", "init"), <<"hbstart", "", "init">>>>          \* Filter.init l.921-923

\* the emitter calls made by lifecycle step l, evaluated in the state BEFORE the step
Ops(l) ==
  CASE l[1] = "init" /\ l[2] = "exit_pre" -> ExitOps      \* exit() before Filter.init(): no START was emitted, none will be
    [] l[1] = "init" ->
         StartOps \o (IF l[2] = "exit_post" /\ ~(s.cfg.ea \in {"secs", "ms"} /\ D("exit_after_time_module")) THEN ExitOps ELSE <<>>)
    [] l[1] \in {"setup", "shutdown"} -> IF l[2] = "exit" THEN ExitOps ELSE <<>>
    [] l[1] = "iter" ->
         IF l[2] \in {"proc_exit", "deadline"} THEN ExitOps
         ELSE IF l[2] \in {"recv_msg_clean", "send_msg_clean"} /\ ObeysMsg("clean") THEN ExitOps
         ELSE IF l[2] \in {"recv_msg_error", "send_msg_error"} /\ ObeysMsg("error") THEN ExitOps
         ELSE <<>>                     \* recv_stop / send_stop: exit() finds stop_evt already set - nothing
    [] l[1] = "exitmsg" ->             \* design: `except Filter.PropagateError:` emits the ABORT of an obeyed error exit
         IF ~LD("abort_at_every_site") /\ s.outcome = "PropagateError" /\ ~D("propagate_error_escapes")
           THEN <<StopHb("prop"), EmitOp("ABORT", "prop")>> ELSE <<>>
    [] l[1] = "fini" ->
         (IF LD("abort_at_every_site") THEN <<EmitOp("ABORT", "fini")>> ELSE <<>>)
         \o (IF l[2] = "exit" THEN ExitOps ELSE <<>>)
    [] l[1] = "handlers" /\ l[2] = "log_raise" ->
         \* stop_logging() raises in the inner finally: its lineage calls are skipped; the outer finally ends the run - by an
         \* error now (design: ABORT; "log_fail_complete" = the code before its repair: COMPLETE)
         (IF s.outcome \in {"Exception", "Interrupt"} THEN <<StopHb("exc"), EmitOp("ABORT", "exc")>> ELSE <<>>)
         \o <<StopHb("fin_outer"), EmitOp(IF LD("log_fail_complete") THEN "COMPLETE" ELSE "ABORT", "fin_outer")>>
    [] l[1] = "handlers" ->
         IF ~s.logOpen THEN <<>>       \* the constructor failed: `filter is None`, the emitter is never touched
         ELSE IF LD("abort_at_every_site")
           THEN (IF s.outcome = "Exception" THEN <<StopHb("exc"), EmitOp("ABORT", "exc")>>
                 ELSE IF s.outcome = "Exit" THEN <<StopHb("exit_h"), EmitOp("ABORT", "exit_h")>> ELSE <<>>)
                \o <<StopHb("fin_inner"), EmitOp("ABORT", "fin_inner"), StopHb("fin_outer"), EmitOp("ABORT", "fin_outer")>>
           ELSE (IF s.outcome \in {"Exception", "Interrupt"} THEN <<StopHb("exc"), EmitOp("ABORT", "exc")>> ELSE <<>>)
                \o <<StopHb("fin_inner"), EmitOp("COMPLETE", "fin_inner"), StopHb("fin_outer"), EmitOp("COMPLETE", "fin_outer")>>
    [] OTHER -> <<>>

LInit == Init /\ lin = [hb |-> "off", hbStop |-> FALSE, term |-> FALSE, ticks |-> 0] /\ hist = <<>> /\ todo = <<>>

\* one emission through OpenFilterLineage._emit_event; design: terminal events are idempotent
Started == \E i \in 1..Len(hist) : hist[i][1] = "START"
\* ... and a run that never emitted its START has nothing to end ("terminal_without_start": the code before its repair)
Suppressed(kind) == kind \in Terminal /\ ((lin.term /\ ~LD("not_idempotent")) \/ (~Started /\ ~LD("terminal_without_start")))
Emission(kind, site) ==
  IF Suppressed(kind)
    THEN hist' = hist /\ lin' = lin
    ELSE hist' = Append(hist, <<kind, site>>) /\ lin' = [lin EXCEPT !.term = lin.term \/ kind \in Terminal]

LifeStep ==
  /\ todo = <<>>
  /\ \E l \in Labels : Step(l) /\ todo' = Ops(l)
  /\ UNCHANGED <<lin, hist>>

Micro ==
  /\ todo # <<>>
  /\ LET op == Head(todo) IN
       /\ \/ op[1] = "emit" /\ Emission(op[2], op[3])
          \/ op[1] = "hbstart" /\ hist' = hist
               /\ lin' = IF lin.hb = "on" THEN lin ELSE [lin EXCEPT !.hb = "on", !.hbStop = FALSE]   \* l.210-214
          \/ op[1] = "stophb" /\ hist' = hist /\ lin' = [lin EXCEPT !.hbStop = TRUE]
       /\ path' = Append(path, <<"op", IF op[1] = "emit" /\ Suppressed(op[2]) THEN "noemit" ELSE op[1], op[2], op[3]>>)
  /\ todo' = Tail(todo)
  /\ UNCHANGED s

\* heartbeat steps are explored where they can matter: before each micro-operation, between loop iterations, at the end
HbPoint == todo # <<>> \/ s.stage \in {"loop", "stopped"}
HbTick ==
  /\ HbPoint /\ lin.hb = "on" /\ ~lin.hbStop /\ lin.ticks < MaxTicks
  /\ IF lin.term /\ ~LD("running_after_terminal")
       THEN hist' = hist /\ lin' = [lin EXCEPT !.hb = "done"]                 \* design: the loop ends silently
       ELSE hist' = Append(hist, <<"RUNNING", "hb">>) /\ lin' = [lin EXCEPT !.ticks = lin.ticks + 1]
  /\ path' = Append(path, <<"hb", "tick">>)
  /\ UNCHANGED <<s, todo>>
HbStopped ==
  /\ HbPoint /\ lin.hb = "on" /\ lin.hbStop
  /\ IF LD("hb_complete")
       THEN hist' = Append(hist, <<"COMPLETE", "hb">>) /\ lin' = [lin EXCEPT !.hb = "done", !.term = TRUE]
       ELSE hist' = hist /\ lin' = [lin EXCEPT !.hb = "done"]
  /\ path' = Append(path, <<"hb", "stopped">>)
  /\ UNCHANGED <<s, todo>>
ProcessEnd ==
  /\ s.stage = "stopped" /\ todo = <<>> /\ lin.hb = "on"
  /\ lin' = [lin EXCEPT !.hb = "killed"]
  /\ path' = Append(path, <<"hb", "killed">>)
  /\ UNCHANGED <<s, hist, todo>>

LNext == LifeStep \/ Micro \/ HbTick \/ HbStopped \/ ProcessEnd
LSpec == LInit /\ [][LNext]_vars

Final == s.stage = "stopped" /\ todo = <<>> /\ lin.hb # "on"

(* ------------------------------------------------ the property -------------------------------------------------- *)
Kinds(h) == [i \in 1..Len(h) |-> h[i][1]]
NTerm(h) == Cardinality({i \in 1..Len(h) : h[i][1] \in Terminal})
\* the regular language START RUNNING* (COMPLETE | ABORT), as a prefix-closed monitor ...
C18_Prefix ==
  /\ hist # <<>> => hist[1][1] = "START"
  /\ \A i \in 2..Len(hist) : hist[i][1] # "START"
  /\ NTerm(hist) <= 1
  /\ \A i \in 1..Len(hist) : hist[i][1] \in Terminal => i = Len(hist)
\* ... and complete when the run is over (a run whose constructor failed never engaged the emitter: no history at all)
Engaged == (\E i \in 1..Len(s.calls) : s.calls[i] = "init") /\ ~(\E i \in 1..Len(path) : path[i] = <<"init", "exit_pre">>)
C18_Complete == Final => IF Engaged THEN NTerm(hist) = 1 /\ hist[1][1] = "START" ELSE hist = <<>>
\* "COMPLETE iff the filter ended cleanly, ABORT if it ended by an error or was interrupted" - for runs with one reason of
\* ending: error = an Exception / KeyboardInterrupt left a stage, or an error exit of a neighbour was obeyed
SingleCause == Len(s.faults) + (IF s.cause \in {"stop", "msg_clean", "msg_error", "deadline"} THEN 1 ELSE 0) <= 1
ErrorEnd == (s.faults # <<>> /\ s.faults[Len(s.faults)] \in {"raise", "typeerror", "int"}) \/ (s.faults = <<>> /\ s.cause = "msg_error")
C18_Kind == Final /\ Engaged /\ SingleCause =>
              \A i \in 1..Len(hist) : hist[i][1] \in Terminal => hist[i][1] = (IF ErrorEnd THEN "ABORT" ELSE "COMPLETE")
C18_Wellformed == C18_Prefix /\ C18_Complete /\ C18_Kind
\* no heartbeat after the terminal event (the part of C18_Prefix that "running_after_terminal" breaks)
C18_NoRunningAfterTerminal == \A i \in 1..Len(hist) : \A j \in 1..Len(hist) : (i < j /\ hist[i][1] \in Terminal) => hist[j][1] # "RUNNING"
\* the terminal event is out before run() returns (nothing is left to a daemon thread)
C18_TerminalBeforeReturn == s.stage = "stopped" /\ todo = <<>> /\ Engaged => NTerm(hist) >= 1

LTypeOK == /\ lin.hb \in {"off", "on", "done", "killed"} /\ lin.ticks \in 0..MaxTicks
           /\ \A i \in 1..Len(hist) : hist[i][1] \in {"START", "RUNNING", "COMPLETE", "ABORT"}

LEmitDone == (Emit /\ Final') => PrintT(ToString(<<"BEH", path', s', Kinds(hist'), [i \in 1..Len(hist') |-> hist'[i][2]]>>))
=============================================================================

CONSTANTS
  Defects = {}
  Mode = "options"
  MaxMaps = 2
  MaxOpts = 2
  MaxEntries = 2
  WsLevel = 2
INIT Init
NEXT Next
INVARIANT InvValid
INVARIANT InvRT_Options
INVARIANT InvRT_Entry
INVARIANT InvDefectExact

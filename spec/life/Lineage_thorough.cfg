CONSTANTS
  Defects = {}
  K = 2
  PropSet = {"all"}
  ObeySet = {"all", "none"}
  EASet = {"none", "secs"}
  WithInterrupt = TRUE
  EarlyExit = TRUE
  Emit = FALSE
  MaxTicks = 3
INIT LInit
NEXT LNext
INVARIANT TypeOK
INVARIANT LTypeOK
INVARIANT C18_Wellformed
INVARIANT C18_TerminalBeforeReturn
INVARIANT C08_ShutdownOnceIffSetup
INVARIANT C08_CommClosed
INVARIANT C08_ReturnVsRaise

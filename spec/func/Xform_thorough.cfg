CONSTANTS
  MaxDim = 8
  MaxBound = 9
  MaxImg = 4
  Chain3Fmt = TRUE
  Defects = {}
  AsIs = {"float_scale"}
INIT Init
NEXT Next
INVARIANT InvNoFail
INVARIANT InvResizeExact
INVARIANT InvVResizeFit
INVARIANT InvMaxBound
INVARIANT InvMaxNoEnlarge
INVARIANT InvMinBound
INVARIANT InvMinNoShrink
INVARIANT InvAspectX
INVARIANT InvIndependentPlus
INVARIANT InvPermutation
INVARIANT InvFmtKeepsSize
INVARIANT InvBox
INVARIANT InvAlgebra

"""In-memory, deterministic stand-in for the `zmq` module as used by openfilter/filter_runtime/zeromq.py, with the
semantics of the Net part of spec/proto/OFP.tla, plus a cooperative scheduler (one runnable thread at a time).

Only the socket surface zeromq.py touches is provided.  A `World` owns virtual time, sockets, links and tasks.  Every
blocking point of the code under test (`Poller.poll`, `sleep`, cooperative `Event.wait`) parks the calling task and hands
control back to whoever drives the world through `World.enabled()` / `World.do(action)`.

Actions (the scheduler's alphabet = the labels of the specification's next-state relation):
    ('est', link)       a PUB->SUB link becomes established (slow joiner) / a PUSH->PULL pipe reaches a (re)started peer
    ('dpub', link)      head of an in-flight PUB->SUB queue arrives at the SUB socket
    ('dreq', link)      head of an in-flight PUSH->PULL queue arrives at the PULL socket
    ('drop', link)      head of an in-flight queue is lost
    ('run', task)       resume a task whose poll() has something to return, or whose poll(0) returns nothing
    ('timeout', task)   the task's pending poll/sleep/wait times out (virtual time advances to its deadline)
"""
import itertools
import json
import threading

PUB, SUB, PUSH, PULL = 1, 2, 8, 7
POLLIN = 1
DONTWAIT = 1
SNDHWM, RCVHWM, LINGER, RECONNECT_IVL, RECONNECT_IVL_MAX, SUBSCRIBE, UNSUBSCRIBE = 23, 24, 17, 18, 21, 6, 7
SNDTIMEO, RCVTIMEO, IMMEDIATE = 28, 27, 39
SNDMORE, NOBLOCK = 2, 1
COPY_THRESHOLD = 65536


class Again(Exception):
    pass


class ZMQError(Exception):
    pass


class NotDone(Exception):
    pass


class MessageTracker:
    """pyzmq's MessageTracker for send(copy=False, track=True): done when libzmq no longer needs the caller's buffer, i.e. when
    the message has left the sender's pipes (arrived at the peer, dropped, or the link is gone).  Parts that pyzmq copies (below
    COPY_THRESHOLD, or copy=True) are done at once."""

    def __init__(self, world):
        self.world, self.holds = world, []          # [(link, queued message object)]

    @property
    def done(self):
        return not any((not l.dead) and any(m is msg for m in l.queue) for l, msg in self.holds)

    def wait(self, timeout=-1):
        if self.done:
            return
        w = self.world
        t = w.cur
        if t is None:
            raise NotDone()
        deadline = None if timeout is None or timeout < 0 else w.time_ns() + int(timeout * 1e9)
        t.park(('tracker', self, deadline))
        if not self.done:
            raise NotDone()


class Killed(BaseException):
    """Raised inside a task that has been hard-killed; never caught by code under test (BaseException, not SystemExit)."""


def norm_addr(addr):
    return addr.replace('127.0.0.1', '*').replace('localhost', '*').replace('0.0.0.0', '*')


class World:
    def __init__(self, local_clocks=False, pub_hwm=None):
        self.now_ns = 1_700_000_000_000_000_000
        self.local_clocks = local_clocks
        self.tick_ns = 100_000_000
        self.sub_rcvhwm = 0
        self.rcvhwm_of = {}             # task name -> RCVHWM of its SUB sockets (flow control only)
        self.flow_control = False       # True: a SUB pipe that holds RCVHWM messages takes no more (back pressure); the PUB pipe
                                        # then fills up to SNDHWM on its own and drops from there on
        self.pub_hwm = pub_hwm          # override of PUB SNDHWM (messages per subscriber pipe), None = socket option
        self.bound = {}                 # normalised addr -> Socket (latest)
        self.links = []
        self.tasks = {}
        self.cur = None
        self.events = []                # observable events appended by sockets and by harnesses
        self.trace = []                 # actions performed
        self.seq = itertools.count()
        self.connectors = []
        self.record_events = True
        self.step_no = 0

    # ---- time -------------------------------------------------------------------------------------------------------
    def time_ns(self):
        if self.local_clocks and self.cur is not None:
            return self.cur.clock
        return self.now_ns

    def time(self):
        return self.time_ns() / 1e9

    def sleep(self, sec):
        t = self.cur
        if t is None:
            self.now_ns += int(sec * 1e9)
            return
        if t.killed:
            raise Killed()
        t.park(('sleep', self.time_ns() + int(round(sec * 1e9))))

    def emit(self, *ev):
        if self.record_events:
            self.events.append(ev)

    # ---- tasks ------------------------------------------------------------------------------------------------------
    def spawn(self, name, fn):
        t = Task(self, name, fn)
        self.tasks[name] = t
        return t

    def live_links(self):
        return [l for l in self.links if not l.dead]

    def conn_links(self, conn, kind):
        """live links of connection (consumer, source index), oldest first (draining links of dead incarnations first)"""
        return [l for l in self.links if not l.dead and l.kind == kind and l.conn == tuple(conn)]

    def enabled(self):
        acts = []
        for l in self.live_links():
            if l.kind == 'pushpull':             # the pipe exists from connect(); it delivers whenever the peer is up
                if l.queue and not l.dst.closed:
                    acts.append(('dreq', l))
            elif not l.established:
                if l.can_establish():
                    acts.append(('est', l))
            elif l.queue and not l.dst.closed:
                if self.flow_control and len(l.dst.inbox) >= l.dst.opts.get(
                        RCVHWM, self.rcvhwm_of.get(str(l.dst.owner).split('/')[0], self.sub_rcvhwm or 1000)):
                    continue
                acts.append(('dpub', l))
        for n, t in self.tasks.items():
            a = t.enabled_action()
            if a:
                acts.append((a, t))
        return acts

    def do(self, act):
        kind, x = act
        self.step_no += 1
        self.trace.append((kind, x.name if isinstance(x, Task) else x.id))
        if kind == 'est':
            x.established = True
        elif kind in ('dpub', 'dreq'):
            x.dst.inbox.append([bytes(p) for p in x.queue.pop(0)])      # by-reference buffers are read now
            if x.draining and not x.queue:
                x.dead = True
        elif kind == 'drop':
            x.queue.pop(0)
            if x.draining and not x.queue:
                x.dead = True
        elif kind == 'run':
            x.resume()
        elif kind == 'timeout':
            dl = x.deadline()
            if self.local_clocks:
                x.clock = max(x.clock, dl)
            else:
                self.now_ns = max(self.now_ns, dl)
            x.resume(timed_out=True)
        elif kind == 'tick':
            # a task waiting without a deadline (poll(None)): `tick_ns` of its time pass, nothing runs
            if self.local_clocks:
                x.clock += self.tick_ns
            else:
                self.now_ns += self.tick_ns
        else:
            raise ValueError(act)

    # ---- faults -----------------------------------------------------------------------------------------------------
    def hard_kill(self, name, keep_inflight=True):
        """Process death: sockets vanish without CLOSE messages, no `finally` side effects reach the network."""
        t = self.tasks.pop(name)
        for s in list(t.sockets):
            s._vanish(keep_inflight)
        t.kill()
        return t

    def kill_all(self):
        for t in list(self.tasks.values()):
            t.kill()
        self.tasks.clear()


class Task:
    def __init__(self, world, name, fn):
        self.world, self.name, self.fn = world, name, fn
        self.state = 'new'    # new, running, parked, done
        self.clock = world.now_ns
        self.wait = None
        self.timed_out = False
        self.go = threading.Event()
        self.back = threading.Event()
        self.killed = False
        self.exc = None
        self.result = None
        self.sockets = []
        self.thread = threading.Thread(target=self._main, daemon=True, name=f'sim-{name}')

    def _main(self):
        self.go.wait()
        self.go.clear()
        try:
            if not self.killed:
                self.result = self.fn()
        except Killed:
            pass
        except BaseException as e:  # noqa - an exception of the code under test is an observation, not a failure
            self.exc = e
        self.state = 'done'
        self.back.set()

    def enabled_action(self):
        if self.state == 'new':
            return 'run'
        if self.state != 'parked':
            return None
        kind = self.wait[0]
        if kind == 'poll':
            _, poller, timeout, deadline = self.wait
            if poller.ready() or timeout == 0:
                return 'run'
            return None if timeout is None else 'timeout'
        if kind == 'sleep':
            return 'timeout'
        if kind == 'event':
            _, ev, deadline = self.wait
            if ev.is_set():
                return 'run'
            return None if deadline is None else 'timeout'
        if kind == 'lock':
            return 'run' if self.wait[1].owner is None else None
        if kind == 'yield':
            return 'run'
        if kind == 'tracker':
            _, tr, deadline = self.wait
            if tr.done:
                return 'run'
            return None if deadline is None else 'timeout'
        if kind == 'join':
            _, other, deadline = self.wait
            if other.state == 'done':
                return 'run'
            return None if deadline is None else 'timeout'
        return None

    def deadline(self):
        w = self.wait
        return {'poll': lambda: w[3], 'sleep': lambda: w[1], 'event': lambda: w[2], 'join': lambda: w[2],
                'tracker': lambda: w[2]}[w[0]]()

    def resume(self, timed_out=False):
        w = self.world
        prev = w.cur
        w.cur = self
        self.timed_out = timed_out
        first = self.state == 'new'
        self.state = 'running'
        if first:
            self.thread.start()
        self.go.set()
        self.back.wait()
        self.back.clear()
        w.cur = prev

    def park(self, wait):
        self.wait = wait
        self.state = 'parked'
        self.back.set()
        self.go.wait()
        self.go.clear()
        if self.killed:
            raise Killed()

    def kill(self):
        self.killed = True
        if self.state == 'parked':
            w = self.world
            prev, w.cur = w.cur, self           # the unwinding code (finally blocks) runs as this task: its sleeps/sends vanish
            self.state = 'running'
            self.go.set()
            self.back.wait()
            self.back.clear()
            w.cur = prev
        elif self.state == 'new':
            self.state = 'done'


class Link:
    def __init__(self, world, src, dst, kind):
        self.world, self.src, self.dst, self.kind = world, src, dst, kind
        self.queue = []
        self.established = kind == 'pushpull' and not dst.closed  # a PUSH pipe exists from connect(); PUB needs 'est'
        self.dead = False
        self.draining = False
        self.id = len(world.links)
        self.conn = (dst.owner, dst.conn_idx) if kind == 'pubsub' else (src.owner, src.conn_idx)
        world.links.append(self)

    def can_establish(self):
        return not self.src.closed and not self.dst.closed

    def __repr__(self):
        return f'<{self.kind} {self.src.owner}->{self.dst.owner} #{self.id}>'


class Context:
    world = None

    def socket(self, typ):
        return Socket(Context.world, typ)

    def destroy(self, linger=None):
        pass

    def term(self):
        pass


class Socket:
    def __init__(self, world, typ):
        self.world, self.type = world, typ
        self.id = next(world.seq)
        self.opts = {}
        self.subs = []
        self.inbox = []
        self.closed = False
        self.addr = None
        self.out_links = []
        t = world.cur
        self.owner = t.name if t else None
        self.conn_idx = None
        if t is not None:
            # ZMQReceiver.Sender creates, per source, an optional PUSH and then a SUB: number the sources
            nsub = sum(1 for x in t.sockets if x.type == SUB)
            if typ in (SUB, PUSH):
                self.conn_idx = nsub + 1
            t.sockets.append(self)

    def __hash__(self):
        return self.id

    def __eq__(self, o):
        return self is o

    def setsockopt(self, k, v):
        self.opts[k] = v

    def setsockopt_string(self, k, v):
        if k == SUBSCRIBE:
            self.subs.append(v.encode())
        else:
            self.opts[k] = v

    # ---- topology ---------------------------------------------------------------------------------------------------
    def bind(self, addr):
        w = self.world
        key = norm_addr(addr)
        old = w.bound.get(key)
        if old is not None and not old.closed:
            raise ZMQError(f'Address already in use: {addr}')
        w.bound[key] = self
        self.addr = key
        for s in w.connectors:
            if not s.closed and s.addr == key:
                s._link_to(self)

    def connect(self, addr):
        w = self.world
        self.addr = norm_addr(addr)
        w.connectors.append(self)
        peer = w.bound.get(self.addr)
        if peer is not None and not peer.closed:
            self._link_to(peer)
        elif self.type == PUSH:
            self._pipe = Link(w, self, _Nowhere(w), 'pushpull')   # pipe exists from connect(), peer not there yet
            self._pipe.established = False
            self.out_links.append(self._pipe)

    def _link_to(self, peer):
        w = self.world
        if self.type == SUB and peer.type == PUB:
            l = Link(w, peer, self, 'pubsub')
            peer.out_links.append(l)
            self.in_link = l
        elif self.type == PUSH and peer.type == PULL:
            if self.out_links:                   # pipe survives a peer restart: re-point it
                l = self.out_links[-1]
                l.dst = peer
                l.established = True
            else:
                l = Link(w, self, peer, 'pushpull')
                self.out_links.append(l)

    def _vanish(self, keep_inflight):
        """The owning process died."""
        self.closed = True
        for l in self.world.links:
            if l.dead:
                continue
            if l.kind == 'pubsub' and (l.src is self or l.dst is self):
                if l.dst is self or not keep_inflight:
                    l.queue.clear()
                if l.dst is self:
                    l.dead = True
                elif not l.queue:
                    l.dead = True
                else:
                    l.draining = True           # publisher gone: what is in flight may still arrive
            elif l.kind == 'pushpull':
                if l.src is self:
                    if keep_inflight and l.queue and not l.dst.closed:
                        l.draining = True       # requests already handed to the network may still arrive
                    else:
                        l.dead = True
                elif l.dst is self:
                    if l.draining:
                        l.queue.clear()         # in flight from a dead consumer to a dead publisher: lost
                        l.dead = True
                    l.established = False       # pipe (and what it holds) stays with the PUSH side, waits for a new peer

    def close(self, linger=None):
        if self.closed:
            return
        self.closed = True
        for l in self.world.links:
            if l.dead:
                continue
            if l.kind == 'pubsub' and l.dst is self:
                l.dead = True
            elif l.kind == 'pubsub' and l.src is self:
                if not l.queue:
                    l.dead = True               # orderly close: queued messages are still delivered (LINGER)
            elif l.kind == 'pushpull' and l.src is self:
                if self.opts.get(LINGER) == 0:
                    pass                        # in-flight requests may be lost; we keep them (they were handed to the network)
                if not l.queue:
                    l.dead = True
            elif l.kind == 'pushpull' and l.dst is self:
                l.established = False

    # ---- data -------------------------------------------------------------------------------------------------------
    def send(self, data, flags=0, copy=True, track=False):
        """one part of a (multipart) message; SNDMORE parts are held back until the last one"""
        if not hasattr(self, '_more'):
            self._more, self._more_trackers = [], []
        byref = copy is False and not isinstance(data, (bytes, str)) and memoryview(data).nbytes >= COPY_THRESHOLD
        self._more.append(data if byref else bytes(data))
        tr = MessageTracker(self.world) if track else None
        if tr is not None and byref:
            self._more_trackers.append(tr)
        if flags & SNDMORE:
            return tr
        parts, trackers = self._more, self._more_trackers
        self._more, self._more_trackers = [], []
        placed = self.send_multipart(parts, flags & ~SNDMORE, copy=False, _placed=True) or []
        for t in trackers:
            t.holds = list(placed)
        return tr

    def send_multipart(self, parts, flags=0, copy=True, track=False, _placed=False):
        w = self.world
        placed = []
        if self.closed or (w.cur is not None and w.cur.killed):
            return MessageTracker(w) if track else (placed if _placed else None)
        # pyzmq copies the parts at send time unless copy=False, in which case buffers of COPY_THRESHOLD (64 KiB) or more are
        # handed to libzmq by reference and read by its I/O thread later: their bytes are fixed only when the message leaves
        if copy is False:
            parts = [p if (not isinstance(p, (bytes, str)) and memoryview(p).nbytes >= 65536) else bytes(p) for p in parts]
            parts = [p if isinstance(p, bytes) else _LateBytes(p) for p in parts]
        else:
            parts = [bytes(p) for p in parts]
        if self.type == PUB:
            w.emit('pub', self.owner, self.addr, parts, getattr(w.cur, 'inc', 0), w.step_no)
            for l in self.out_links:
                if l.dead or not l.established or l.dst.closed or l.draining:
                    continue
                if not any(parts[0].startswith(s) for s in l.dst.subs):
                    continue
                hwm = w.pub_hwm if w.pub_hwm is not None else self.opts.get(SNDHWM, 1000)
                # what is queued towards one subscriber is bounded by the publisher's SNDHWM plus the subscriber's RCVHWM;
                # `sub_rcvhwm` = the library default of the latter (0: the strict single bound the specification's PubHWM means)
                hwm += 0 if w.flow_control else l.dst.opts.get(RCVHWM, w.sub_rcvhwm)
                if len(l.queue) + (0 if w.flow_control else len(l.dst.inbox)) >= hwm:
                    w.emit('pubdrop', self.owner, l.dst.owner, parts)
                    continue
                l.queue.append(parts)
                placed.append((l, parts))
        elif self.type == PUSH:
            l = self.out_links[-1] if self.out_links else None
            if l is None or len(l.queue) >= self.opts.get(SNDHWM, 1000):
                if not (flags & DONTWAIT) and w.cur is not None:
                    # a blocking send on a full pipe blocks the caller: for SNDTIMEO ms, or for good
                    to = self.opts.get(SNDTIMEO, -1)
                    if to is None or to < 0:
                        w.cur.park(('idle',))
                    else:
                        w.sleep(to / 1000)
                raise Again()
            w.emit('req', self.owner, self.addr, parts, getattr(w.cur, 'inc', 0), w.step_no)
            l.queue.append(parts)
            placed.append((l, parts))
        else:
            raise ZMQError('send on a receive-only socket')
        if track:
            tr = MessageTracker(w)
            if copy is False and any(isinstance(p, _LateBytes) for p in parts):
                tr.holds = placed
            return tr
        return placed if _placed else None

    def recv_multipart(self, flags=0, copy=True, track=False):
        if not self.inbox:
            raise Again()
        return self.inbox.pop(0)


class _LateBytes:
    """a message part sent with copy=False: a reference to the caller's buffer, read when the message is delivered"""

    def __init__(self, buf):
        self.buf = buf

    def __bytes__(self):
        return bytes(memoryview(self.buf))

    def startswith(self, x):
        return bytes(self).startswith(x)

    def decode(self, *a):
        return bytes(self).decode(*a)


class _Nowhere:
    """Placeholder peer of a PUSH pipe whose PULL side does not exist (yet)."""
    def __init__(self, world):
        self.closed = True
        self.inbox = []
        self.owner = None
        self.id = next(world.seq)


class Poller:
    def __init__(self):
        self.socks = []

    def register(self, sock, flags=POLLIN):
        if sock not in self.socks:
            self.socks.append(sock)

    def modify(self, sock, flags=POLLIN):
        self.register(sock, flags)

    def unregister(self, sock):
        self.socks.remove(sock)     # KeyError in pyzmq; ValueError here - both are errors of the caller

    def __contains__(self, sock):
        return sock in self.socks

    def ready(self):
        return [(s, POLLIN) for s in self.socks if s.inbox and not s.closed]

    def poll(self, timeout=None):
        w = Context.world
        t = w.cur
        if t is None:
            return self.ready()
        if t.killed:
            raise Killed()
        if timeout is not None:
            timeout = max(0, int(timeout))
        deadline = None if timeout is None else w.time_ns() + timeout * 1_000_000
        t.park(('poll', self, timeout, deadline))
        return self.ready()


# ---- cooperative threading stand-ins (lineage heartbeat thread, Filter.process_frames metadata thread) ----------------

class SimEvent:
    def __init__(self):
        self._flag = False

    def is_set(self):
        return self._flag

    def set(self):
        self._flag = True

    def clear(self):
        self._flag = False

    def wait(self, timeout=None):
        w = Context.world
        t = w.cur if w else None
        if self._flag or t is None:
            return self._flag
        deadline = None if timeout is None else w.time_ns() + int(timeout * 1e9)
        t.park(('event', self, deadline))
        return self._flag


class SimThread:
    """threading.Thread stand-in: the target runs as a scheduled task of the world."""
    _n = itertools.count()

    def __init__(self, target=None, args=(), kwargs=None, daemon=None, name=None):
        self.target, self.args, self.kwargs = target, args, kwargs or {}
        self.daemon = daemon
        self.name = name or f'thread-{next(SimThread._n)}'
        self.task = None

    def start(self):
        w = Context.world
        owner = w.cur.name if w.cur else 'main'
        nm = f'{owner}/{self.name}'
        while nm in w.tasks:
            nm += "'"
        self.task = w.spawn(nm, lambda: self.target(*self.args, **self.kwargs))
        self.task.parent = owner

    def is_alive(self):
        return self.task is not None and self.task.state != 'done'

    def join(self, timeout=None):
        w = Context.world
        t = w.cur
        if self.task is None or self.task.state == 'done' or t is None:
            return
        deadline = None if timeout is None else w.time_ns() + int(timeout * 1e9)
        t.park(('join', self.task, deadline))


def hdr(parts):
    """(topic, envelope dict) of a published multipart message."""
    topic = parts[0].decode()
    return topic, json.loads(parts[1].decode())


def req_hdr(parts):
    return json.loads(parts[0].decode())


class SimLock:
    """threading.Lock stand-in: acquire() parks the task while another task holds the lock"""

    def __init__(self):
        self.owner = None

    def acquire(self, blocking=True, timeout=-1):
        w = Context.world
        t = w.cur if w else None
        while self.owner is not None and self.owner is not t:
            if t is None or not blocking:
                return False
            t.park(('lock', self))
        self.owner = t or True
        return True

    def release(self):
        self.owner = None

    def locked(self):
        return self.owner is not None

    def __enter__(self):
        self.acquire()
        return self

    def __exit__(self, *a):
        self.release()
        return False

--------------------------- MODULE ConfigGrammar ---------------------------
(* C11 - reference specification of openfilter's compact configuration text syntax and of the per-filter
   normalisers that accept it.

   Code modelled (all under /repo/openfilter/filter_runtime):
     utils.py:133       split_commas_maybe                          -> SplitCommasMaybe
     filter.py:707-730  Filter.re_valid_option_name, parse_options  -> OptionLikeD, ParseOptionsD, ParseOneOpt
     filter.py:733-761  Filter.parse_topics                         -> ParseTopics
     filter.py:1026     Filter.normalize_config, filter.py:997 init -> ParseItem("Filter"), CfgInit
     filters/video_in.py:682, video_out.py:349, image_in.py:218, image_out.py:236 (one shape) -> ParseEntry, Defaults
     filters/util.py:95 (xforms), recorder.py:68 (outputs)          -> ParseItem("Util"), ParseItem("Recorder")
     filters/webvis.py:100, rest.py:251, mqtt_out.py:202            -> ParseWebvis, ParseRestSource/NormRest,
                                                                       ParseMqttOutput/ParseMqttMapping/NormMq

   Four case-state spaces, selected by the constant Mode (one TLC state = one case; the laws are invariants; Next only
   extends a case by one mapping / option / the filler entries, so that the workers share the enumeration):
     "topics"   x = address + list of topic mappings, every text form, white space around ';' '>' and at the edges
     "options"  x = address (plain, '!' in the password) + list of options, alone and followed by a topic
     "config"   per class (Filter, Util, Recorder, VideoIn, VideoOut, ImageIn, ImageOut): 1..MaxEntries entries, the
                entry under variation at every position among filler entries; forms text / list of texts / structured
     "proto"    Webvis, REST, MQTTOut: the filters with their own address grammar

   TEXT.  TLA+ strings are atomic, so a text is a SEQUENCE OF TOKENS and the harness renders it by concatenation.
   A token is either one of the separator characters of the grammar ( ";" ">" "!" "=" "," and the local ones "/"
   ":" "(" ")" "|" ), the token " " that stands for one run of white space, the prefix "no-", or a WORD: a chunk of
   text that contains none of ";>!=," and no white space at its ends.  Two words are never adjacent.  Under these
   rules (checked by the harness on every vector) str.split / str.strip / the option-name regular expression act on
   characters exactly as Split / Strip / OptionLike act on tokens; words that are complete Python identifiers are
   listed in `Ident` (also checked against the real regular expression by the harness).

   ABSTRACT SYNTAX.  An entry x = [addr, opts, maps]: an address (token sequence; may contain "!" inside a password
   and an ephemeral "?"/"??" mark), a list of options (flag / no-flag / name=value) and a list of topic mappings, each
   with the text form it is written in.  Render(x, w) writes x as text under the white-space class w.

   PROPERTY (third sentence of C11): for every VALID x and every w, Parse(Render(x, w)) = x.  `Valid` is not an
   arbitrary filter: the laws LawAmbiguous* show that every excluded shape is excluded because NO parser of this
   grammar could invert it (the text is the rendering of two different x).

   DEFECTS.  Defects \subseteq AllDefects switches the deliberate deviations of the code from the documented
   grammar on: with Defects = {} the module is the intended design and TLC proves the laws; with the defect on, TLC
   exhibits the counterexample.  "C11_opt_ws_before_eq": the option-name pattern is  ^(no-)?name(=|$)  so an option
   written with white space before '=' - as in parse_options' own docstring, 'text!a=1 ! b  = hello   !c' - is not
   recognised as an option and is glued back onto the address.  Intended pattern:  ^(no-)?name(\s*=|$). *)
EXTENDS Integers, Sequences, FiniteSets, TLC, Json, IOUtils, SequencesExt, FiniteSetsExt

CONSTANTS Defects,      \* subset of AllDefects
          Mode,         \* "topics" | "options" | "config" | "proto"
          MaxMaps,      \* topic mappings per entry                     (mode topics; pool of class Filter in config)
          MaxOpts,      \* options per entry                            (modes options, config)
          MaxEntries,   \* entries (sources/outputs) per configuration   (mode config)
          WsLevel       \* 1: the named white-space classes; 2: every combination of the relevant positions, all four
                        \*    named classes and every order of the filler entries in mode config

AllDefects == {"C11_opt_ws_before_eq"}
ASSUME Defects \subseteq AllDefects

WS   == " "
Main == "main"
NoP  == "no-"

(* ================================================ text layer ================================================== *)
RECURSIVE LStrip(_)
LStrip(s) == IF s # <<>> /\ Head(s) = WS THEN LStrip(Tail(s)) ELSE s
RECURSIVE RStrip(_)
RStrip(s) == IF s # <<>> /\ s[Len(s)] = WS THEN RStrip(SubSeq(s, 1, Len(s) - 1)) ELSE s
Strip(s)  == RStrip(LStrip(s))                                           \* str.strip()

Split(s, sep) ==                                                         \* str.split(sep): always >= 1 part
  LET at == SelectSeq([i \in 1..Len(s) |-> i], LAMBDA i : s[i] = sep)
      b  == <<0>> \o at \o <<Len(s) + 1>>
  IN  [k \in 1..(Len(b) - 1) |-> SubSeq(s, b[k] + 1, b[k + 1] - 1)]
Has(s, tok)   == \E i \in 1..Len(s) : s[i] = tok
Split1(s, sep) ==                                                        \* str.split(sep, 1)
  IF Has(s, sep) THEN LET i == Min({j \in 1..Len(s) : s[j] = sep})
                      IN  <<SubSeq(s, 1, i - 1), SubSeq(s, i + 1, Len(s))>>
  ELSE <<s>>
RSplit1(s, sep) ==                                                       \* str.rsplit(sep, 1)
  IF Has(s, sep) THEN LET i == Max({j \in 1..Len(s) : s[j] = sep})
                      IN  <<SubSeq(s, 1, i - 1), SubSeq(s, i + 1, Len(s))>>
  ELSE <<s>>
RECURSIVE Join(_, _)
Join(parts, sep) == IF Len(parts) = 0 THEN <<>> ELSE IF Len(parts) = 1 THEN parts[1]
                    ELSE parts[1] \o <<sep>> \o Join(Tail(parts), sep)   \* sep.join(parts)
StripAll(parts) == [i \in 1..Len(parts) |-> Strip(parts[i])]
Sp(b)       == IF b THEN <<WS>> ELSE <<>>
Sep(tok, b) == Sp(b) \o <<tok>> \o Sp(b)

(* every word used below that is a complete identifier  [a-zA-Z_]\w*  (harness: table == regex on all words) *)
Ident == {"main", "a", "an", "b", "b_2", "c", "e", "g", "p", "t", "x", "he", "llo", "pa", "pw", "t2", "vf", "crf", "hello", "true",
          "null", "text", "scale", "sync", "bgr", "loop", "maxfps", "maxsize", "resize", "region", "expiration", "fps",
          "segtime", "params", "recursive", "pattern", "format", "quality", "compression", "append", "qos", "retain",
          "png", "jpg", "cam2", "other", "archive", "frames", "topic", "topic2", "topic2_frames", "image", "data", "sub",
          "more", "base_topic", "host", "localhost", "flipx", "flipy", "fmtgray", "rotcw", "rotccw", "minsize", "box",
          "lin", "get", "put", "post", "delete", "GET", "PUT", "POST", "DELETE", "one", "two", "endpoint", "mytopic",
          "rest", "fill"}

(* ====================================== utils.py:133 split_commas_maybe ======================================== *)
(* ([s.strip() for s in v.split(',')] if v.strip() else [])  - for a str; anything else is returned as it is *)
SplitCommasMaybe(v) == IF Strip(v) = <<>> THEN <<>> ELSE StripAll(Split(v, ","))

(* ======================================= filter.py:707 re_valid_option_name ==================================== *)
(* ^(?:no-)?[a-zA-Z_]\w*(?:=|$)  matched against a stripped '!'-segment.  D = set of defects in force. *)
OptionLikeD(opt, D) ==
  LET o == IF opt # <<>> /\ Head(opt) = NoP THEN Tail(opt) ELSE opt                    \* (?:no-)?
  IN  /\ o # <<>> /\ Head(o) \in Ident                                                 \* [a-zA-Z_]\w*
      /\ LET r == IF "C11_opt_ws_before_eq" \in D THEN Tail(o) ELSE LStrip(Tail(o))    \* code: (=|$); design: (\s*=|$)
         IN  r = <<>> \/ Head(r) = "="

(* ========================================= filter.py:710 parse_options ========================================= *)
(* result: [text, opts] ; opts is the dict as a set of [k, kind, v]: kind "true" (flag) / "false" (no-flag) / "val"
   (v = the value text, to which the code applies json_getval; the harness owns the JSON meaning of value words) *)
DictOf(lst) == {lst[j] : j \in {i \in 1..Len(lst) : \A m \in (i + 1)..Len(lst) : lst[m].k # lst[i].k}}  \* last wins
ParseOneOpt(opt) ==                                                                   \* filter.py:722-726
  IF Has(opt, "=") THEN LET kv == Split1(opt, "=") IN [k |-> Strip(kv[1]), kind |-> "val", v |-> Strip(kv[2])]
  ELSE IF opt # <<>> /\ Head(opt) = NoP THEN [k |-> Tail(opt), kind |-> "false", v |-> <<>>]
  ELSE [k |-> opt, kind |-> "true", v |-> <<>>]
ParseOptionsD(text, D) ==
  LET parts == StripAll(Split(text, "!"))                                             \* filter.py:713
      text0 == parts[1]
      opts  == Tail(parts)
      bad   == {j \in 1..Len(opts) : ~OptionLikeD(opts[j], D)}                        \* filter.py:715-720: scan from the
      cut   == IF bad = {} THEN 0 ELSE Max(bad)                                       \* right, stop at first non-option
      textR == Join(<<text0>> \o SubSeq(opts, 1, cut), "!")                           \* "stupid '!' in uri passwords"
      kept  == SubSeq(opts, cut + 1, Len(opts))
  IN  [text |-> textR, opts |-> DictOf([i \in 1..Len(kept) |-> ParseOneOpt(kept[i])])]
ParseOptions(text) == ParseOptionsD(text, Defects)

(* ========================================== filter.py:733 parse_topics ========================================= *)
(* mapping \in {"true", "false", "none"} (Python True / False / None); maxTopics = 0 stands for None.
   result: [text, has (FALSE = Python None), maps (mapping = true), tops (otherwise), err] *)
ParseTopics(text, maxTopics, mapping, dflt) ==
  LET parts  == StripAll(Split(text, ";"))                                            \* filter.py:737
      items  == Tail(parts)
      OrD(t) == IF Strip(t) = <<>> THEN <<dflt>> ELSE Strip(t)                        \* t.strip() or default_topic
      TooMany(n) == maxTopics > 0 /\ n > maxTopics                                    \* filter.py:758
  IN  IF items = <<>> THEN [text |-> parts[1], has |-> FALSE, maps |-> <<>>, tops |-> <<>>, err |-> "ok"]
      ELSE IF mapping = "true" THEN                                                   \* filter.py:743-748
        LET M(s)  == LET ps == Split(s, ">")
                         ts == [i \in 1..Len(ps) |-> OrD(ps[i])]
                         dd == ts \o ts                                               \* tuple([...] * 2)[:2]
                     IN  <<dd[1], dd[2]>>
            maps  == [i \in 1..Len(items) |-> M(items[i])]
            uniq  == /\ Cardinality({maps[i][1] : i \in 1..Len(maps)}) = Len(maps)
                     /\ Cardinality({maps[i][2] : i \in 1..Len(maps)}) = Len(maps)
        IN  [text |-> parts[1], has |-> TRUE, maps |-> maps, tops |-> <<>>,
             err |-> IF ~uniq THEN "not_unique" ELSE IF TooMany(Len(maps)) THEN "too_many" ELSE "ok"]
      ELSE                                                                            \* filter.py:750-756
        LET tops == [i \in 1..Len(items) |-> OrD(items[i])]
        IN  [text |-> parts[1], has |-> TRUE, maps |-> <<>>, tops |-> tops,
             err |-> IF mapping = "false" /\ \E i \in 1..Len(tops) : Has(tops[i], ">") THEN "gt"
                     ELSE IF Cardinality({tops[i] : i \in 1..Len(tops)}) # Len(tops) THEN "dup"
                     ELSE IF TooMany(Len(tops)) THEN "too_many" ELSE "ok"]

(* ============================================ abstract syntax, Render ========================================== *)
W(c, s, g, b, l, r, e) == [comma |-> c, semi |-> s, gt |-> g, bang |-> b, eqL |-> l, eqR |-> r, edge |-> e]
WsNone   == W(FALSE, FALSE, FALSE, FALSE, FALSE, FALSE, FALSE)
WsNoEqL  == W(TRUE, TRUE, TRUE, TRUE, FALSE, TRUE, TRUE)        \* white space everywhere except before '='
WsAll    == W(TRUE, TRUE, TRUE, TRUE, TRUE, TRUE, TRUE)
WsEqL    == W(FALSE, FALSE, FALSE, FALSE, TRUE, FALSE, FALSE)   \* only before '='
WsSeq    == <<WsNone, WsNoEqL, WsAll, WsEqL>>                   \* the named classes, in this order in the vectors
WsEvery  == [comma : BOOLEAN, semi : BOOLEAN, gt : BOOLEAN, bang : BOOLEAN, eqL : BOOLEAN, eqR : BOOLEAN,
             edge : BOOLEAN]

(* a topic mapping (src, dst) and the text form it is written in (Filter docstring, filter.py:283-289) *)
MapForms(s, d) == {"full"} \cup (IF s = d THEN {"short"} ELSE {}) \cup (IF s = Main THEN {"implL"} ELSE {})
                  \cup (IF d = Main THEN {"implR"} ELSE {}) \cup (IF s = Main /\ d = Main THEN {"implLR", "empty"} ELSE {})
RenderMap(m, w) ==
  CASE m.form = "full"   -> <<m.src>> \o Sep(">", w.gt) \o <<m.dst>>    \* "that>other"
    [] m.form = "short"  -> <<m.src>>                                   \* "topic"   (src = dst)
    [] m.form = "implL"  -> Sep(">", w.gt) \o <<m.dst>>                 \* ">other"  (src = main)
    [] m.form = "implR"  -> <<m.src>> \o Sep(">", w.gt)                 \* "that>"   (dst = main)
    [] m.form = "implLR" -> Sep(">", w.gt)                              \* ">"       (main > main)
    [] m.form = "empty"  -> <<>>                                        \* ""        (the trailing ';')
(* an option o = [k = <<name>>, kind, v]: the same record the parser returns *)
RenderOpt(o, w) ==
  CASE o.kind = "true"  -> o.k
    [] o.kind = "false" -> <<NoP>> \o o.k
    [] o.kind = "val"   -> o.k \o Sp(w.eqL) \o <<"=">> \o Sp(w.eqR) \o o.v
(* options first, then topics: the order every filter that accepts both parses them in (';' split first) *)
Render(x, w) ==
  Sp(w.edge) \o x.addr
  \o FlattenSeq([i \in 1..Len(x.opts) |-> Sep("!", w.bang) \o RenderOpt(x.opts[i], w)])
  \o FlattenSeq([i \in 1..Len(x.maps) |-> Sep(";", w.semi) \o RenderMap(x.maps[i], w)])
  \o Sp(w.edge)
OptSet(x)  == {x.opts[i] : i \in 1..Len(x.opts)}
MapPairs(x) == [i \in 1..Len(x.maps) |-> <<<<x.maps[i].src>>, <<x.maps[i].dst>>>>]

(* ------------------------------------------------- validity -------------------------------------------------- *)
(* what "a valid list of topic mappings and option values" is, derived from the documentation:
   - mappings: sources pairwise distinct and destinations pairwise distinct (parse_topics raises otherwise);
   - option names pairwise distinct (the result is a dict);
   - an option value contains no "!" and, when topics follow, no ";" (the grammar has no quoting);
   - the last '!'-segment of the address does not itself look like an option (else the text is ambiguous). *)
AddrSegs(a)   == StripAll(Split(a, "!"))
ValidAddr(a)  == LET sg == AddrSegs(a) IN Len(sg) = 1 \/ ~OptionLikeD(sg[Len(sg)], {})
ValidOpts(os) == /\ \A i, j \in 1..Len(os) : i # j => os[i].k # os[j].k
                 /\ \A i \in 1..Len(os) : ~Has(os[i].v, "!") /\ ~Has(os[i].v, ";")
ValidMaps(ms) == /\ \A i, j \in 1..Len(ms) : i # j => ms[i].src # ms[j].src /\ ms[i].dst # ms[j].dst
                 /\ \A i \in 1..Len(ms) : ms[i].form \in MapForms(ms[i].src, ms[i].dst)
Valid(x)      == ValidAddr(x.addr) /\ ValidOpts(x.opts) /\ ValidMaps(x.maps)

(* ================================================== the laws ================================================== *)
(* parse is the inverse of render, on the reference *)
RT_OptionsD(x, w, D) == ParseOptionsD(Render([x EXCEPT !.maps = <<>>], w), D) = [text |-> x.addr, opts |-> OptSet(x)]
RT_Options(x, w)     == RT_OptionsD(x, w, Defects)
RT_Topics(x, w) ==
  LET r == ParseTopics(Render([x EXCEPT !.opts = <<>>], w), 0, "true", Main)
  IN  r = [text |-> x.addr, has |-> x.maps # <<>>, maps |-> MapPairs(x), tops |-> <<>>, err |-> "ok"]
(* an entry of the one-topic filters (VideoIn/VideoOut/ImageIn/ImageOut): parse_topics(.., 1, False), then
   parse_options on what is left   (video_in.py:700-701 and the three copies of it) *)
ParseEntry(text) ==
  LET pt == ParseTopics(text, 1, "false", Main)
      po == ParseOptions(pt.text)
  IN  [addr |-> po.text, topic |-> IF pt.has THEN pt.tops[1] ELSE <<>>, opts |-> po.opts, err |-> pt.err]
RT_Entry(x, w) ==
  ParseEntry(Render(x, w)) = [addr |-> x.addr, topic |-> IF x.maps = <<>> THEN <<>> ELSE <<x.maps[1].dst>>,
                              opts |-> OptSet(x), err |-> "ok"]

(* the excluded shapes are excluded because they are not invertible by ANY parser: two different x, same text *)
LawAmbiguousBang ==      \* an option value containing '!'  vs  two options
  LET x1 == [addr |-> <<"t">>, opts |-> <<[k |-> <<"a">>, kind |-> "val", v |-> <<"pa", "!", "c">>]>>, maps |-> <<>>]
      x2 == [addr |-> <<"t">>, opts |-> <<[k |-> <<"a">>, kind |-> "val", v |-> <<"pa">>],
                                          [k |-> <<"c">>, kind |-> "true", v |-> <<>>]>>, maps |-> <<>>]
  IN  Render(x1, WsNone) = Render(x2, WsNone) /\ x1 # x2
LawAmbiguousAddr ==      \* a password whose tail looks like an option  vs  that option
  LET x1 == [addr |-> <<"rtsp://u:p", "!", "x", "=", "1@h/s">>, opts |-> <<>>, maps |-> <<>>]
      x2 == [addr |-> <<"rtsp://u:p">>, opts |-> <<[k |-> <<"x">>, kind |-> "val", v |-> <<"1@h/s">>]>>, maps |-> <<>>]
  IN  Render(x1, WsNone) = Render(x2, WsNone) /\ x1 # x2 /\ ~ValidAddr(x1.addr) /\ ValidAddr(x2.addr)
LawAmbiguousSemi ==      \* an option value containing ';'  vs  a topic
  LET x1 == [addr |-> <<"t">>, opts |-> <<[k |-> <<"a">>, kind |-> "val", v |-> <<"p", ";", "c">>]>>, maps |-> <<>>]
      x2 == [addr |-> <<"t">>, opts |-> <<[k |-> <<"a">>, kind |-> "val", v |-> <<"p">>]>>,
             maps |-> <<[src |-> "c", dst |-> "c", form |-> "short"]>>]
  IN  Render(x1, WsNone) = Render(x2, WsNone) /\ x1 # x2
(* the docstring example of parse_options, token by token: 'text!a=1 ! b  = hello   !c' *)
DocExampleText == <<"text", "!", "a", "=", "1", " ", "!", " ", "b", " ", "=", " ", "hello", " ", "!", "c">>
DocExampleResult == [text |-> <<"text">>, opts |-> {[k |-> <<"a">>, kind |-> "val", v |-> <<"1">>],
                                                     [k |-> <<"b">>, kind |-> "val", v |-> <<"hello">>],
                                                     [k |-> <<"c">>, kind |-> "true", v |-> <<>>]}]
LawDocExample == ParseOptionsD(DocExampleText, {}) = DocExampleResult                    \* the documented design
LawDocExampleDefect == ParseOptionsD(DocExampleText, AllDefects) # DocExampleResult      \* what the code does
(* the docstring example of parse_topics, 'text;a;b>c ; >   e;', maps 'main' twice: by the function's own rule it is
   an invalid list (raises), so it is not in the domain *)
LawDocTopicsInvalid ==
  ParseTopics(<<"text", ";", "a", ";", "b", ">", "c", " ", ";", " ", ">", " ", "e", ";">>, 0, "true", Main).err
    = "not_unique"
(* comma lists: ', '.join(items) under the white-space class w *)
RECURSIVE JoinSeq(_, _)
JoinSeq(parts, sepSeq) == IF Len(parts) = 0 THEN <<>> ELSE IF Len(parts) = 1 THEN parts[1]
                          ELSE parts[1] \o sepSeq \o JoinSeq(Tail(parts), sepSeq)
JoinCommas(items, w) == Sp(w.edge) \o JoinSeq(items, Sep(",", w.comma)) \o Sp(w.edge)
HasComma(x) == Has(x.addr, ",") \/ \E i \in 1..Len(x.opts) : Has(x.opts[i].v, ",")

(* ======================================== grammar cases (modes topics, options) ================================ *)
O(n, kd, v) == [k |-> <<n>>, kind |-> kd, v |-> v]
T(n)    == O(n, "true", <<>>)
F(n)    == O(n, "false", <<>>)
V(n, v) == O(n, "val", v)
X(a, os, ms) == [addr |-> a, opts |-> os, maps |-> ms]
Mp(s, d, f)  == [src |-> s, dst |-> d, form |-> f]

TopicNames == {Main, "a", "b_2", "*"}                       \* "*" = the subscribe-to-everything topic (filter.py:289)
TAddrs     == {<<"tcp://localhost:5550">>, <<"tcp://127.0.0.1:5552?">>, <<"ipc://name??">>}   \* plain, '?', '??'
MapAtoms   == {Mp(s, d, f) : s \in TopicNames, d \in TopicNames,
                             f \in {"full", "short", "implL", "implR", "implLR", "empty"}} \cap
              {m \in [src : TopicNames, dst : TopicNames, form : {"full", "short", "implL", "implR", "implLR", "empty"}] :
                 m.form \in MapForms(m.src, m.dst)}
MapSeqs(n) == UNION {{s \in [1..k -> MapAtoms] : ValidMaps(s)} : k \in 0..n}
WsTopics   == {w \in WsEvery : ~w.comma /\ ~w.bang /\ ~w.eqL /\ ~w.eqR}
TopicCases == IF Mode # "topics" THEN {}
              ELSE {[x |-> X(a, <<>>, ms), w |-> w] : a \in TAddrs, ms \in MapSeqs(MaxMaps), w \in WsTopics}

ONames == {"a", "b_2", "c"}
OVals  == {<<"1">>, <<"1.5">>, <<"true">>, <<"null">>, <<"hello">>, <<"\"3\"">>, <<"[1]">>, <<"[1", ",", " ", "2]">>,
           <<"{\"k\": 1}">>, <<"scale", "=", "1280:720">>, <<"*.jpg">>, <<>>, <<"he", " ", "llo">>}
OValsSmall == {<<"1">>, <<"hello">>, <<"{\"k\": 1}">>, <<"scale", "=", "1280:720">>}
OAtomsOf(vals) == {T(n) : n \in ONames} \cup {F(n) : n \in ONames} \cup {V(n, v) : n \in ONames, v \in vals}
OAtoms == OAtomsOf(IF WsLevel >= 2 \/ MaxOpts <= 2 THEN OVals ELSE OValsSmall)
OAddrs == {<<"text">>, <<"file:///v.mp4">>,
           <<"rtsp://user:pa", "!", "ss@host:8554/stream">>,              \* '!' inside the password
           <<"rtsp://user:", "!", "!", "pw", "!", "@host/s">>,            \* '!!', a bare identifier segment, '!@'
           <<"rtsp://u:x", "=", "1", "!", "sync", "!", "w@h/s">>}         \* '=' before, an option-like MIDDLE segment
OTopicChoices == {<<>>, <<Mp("a", "a", "short")>>}
OptSeqs(n) == UNION {{s \in [1..k -> OAtoms] : ValidOpts(s)} : k \in 0..n}
WsOptsAll  == {w \in WsEvery : ~w.comma /\ ~w.gt}
WsOpts     == IF WsLevel >= 2 THEN WsOptsAll
              ELSE {[WsSeq[j] EXCEPT !.comma = FALSE, !.gt = FALSE] : j \in 1..Len(WsSeq)}
OptionCases == IF Mode # "options" THEN {}
               ELSE {[x |-> X(a, os, ms), w |-> w] : a \in OAddrs, os \in OptSeqs(MaxOpts), ms \in OTopicChoices, w \in WsOpts}

(* the exact extent of the defect: the as-is parser fails to invert exactly the renderings that put white space
   before the '=' of a name=value option *)
Deviates(x, w) == w.eqL /\ \E i \in 1..Len(x.opts) : x.opts[i].kind = "val"

(* ======================================= per-filter configurations (mode config) =============================== *)
EntryClasses == {"VideoIn", "VideoOut", "ImageIn", "ImageOut"}
InClasses    == {"VideoIn", "ImageIn"}               \* "All video/image sources must have unique topics"
Classes      == {"Filter", "Util", "Recorder"} \cup EntryClasses

(* a value of the sources/outputs/xforms field: a text, or a list whose items are texts or structured records *)
StrItem(s)          == [t |-> "str", s |-> s, addr |-> <<>>, topic |-> <<>>, opts |-> {}]
DictItem(a, tp, os) == [t |-> "dict", s |-> <<>>, addr |-> a, topic |-> tp, opts |-> os]
TextVal(tx)         == [t |-> "text", text |-> tx, items |-> <<>>]
ListVal(its)        == [t |-> "list", text |-> <<>>, items |-> its]

(* one text item -> structured item, per class *)
ParseItem(cls, s) ==
  CASE cls \in EntryClasses -> LET e == ParseEntry(s) IN DictItem(e.addr, e.topic, e.opts)   \* video_in.py:700-703 &c
    [] cls = "Util"     -> LET pt == ParseTopics(s, 0, "false", Main)                       \* util.py:116
                           IN  DictItem(pt.text, IF pt.has THEN Join(pt.tops, ";") ELSE <<>>, {})
    [] cls = "Recorder" -> LET po == ParseOptions(s) IN DictItem(po.text, <<>>, po.opts)     \* recorder.py:81
    [] cls = "Filter"   -> StrItem(s)                                                       \* filter.py:1030: strings stay
(* defaults and per-class clean-up applied to every structured item *)
VideoOutKnown == {"bgr", "fps", "segtime", "params"}
MoveToParams(os) == {IF o.k[1] \in VideoOutKnown THEN o ELSE [o EXCEPT !.k = <<"params">> \o o.k] : o \in os}
Defaults(cls, d) ==
  CASE cls \in EntryClasses ->
         [d EXCEPT !.topic = IF d.topic = <<>> THEN <<Main>> ELSE d.topic,                   \* video_in.py:706-707
                   !.opts  = IF cls = "VideoOut" THEN MoveToParams(d.opts) ELSE d.opts]      \* video_out.py:380-384
    [] OTHER -> d
NormField(cls, v) ==
  LET items0 == IF v.t = "text"                                                              \* split_commas_maybe
                THEN LET l == SplitCommasMaybe(v.text) IN [i \in 1..Len(l) |-> StrItem(l[i])]
                ELSE v.items
      conv(it) == IF it.t = "str" THEN ParseItem(cls, it.s) ELSE it                          \* isinstance(source, dict)
  IN  ListVal([i \in 1..Len(items0) |-> Defaults(cls, conv(items0[i]))])

(* ---- pools of abstract entries per class: every documented option, address kind, topic form ---- *)
TopicForms == {<<>>, <<Mp(Main, Main, "empty")>>, <<Mp(Main, Main, "short")>>, <<Mp("cam2", "cam2", "short")>>}
OptSeqsOf(atoms, n) == UNION {{s \in [1..k -> atoms] : ValidOpts(s)} : k \in 0..n}
EntryPool(addrs, atoms, ok(_)) == {X(a, os, ms) : a \in addrs, os \in {s \in OptSeqsOf(atoms, MaxOpts) : ok(s)}, ms \in TopicForms}
Names(os) == {os[i].k[1] : i \in 1..Len(os)}

AddrsVideoIn == {<<"file://a.mp4">>, <<"rtsp://user:pa", "!", "ss@host:8554/stream">>, <<"webcam://0">>,
                 <<"s3://bucket/video.mp4">>}
AtomsVideoIn == {T("bgr"), F("bgr"), T("sync"), F("sync"), T("loop"), F("loop"), V("loop", <<"3">>),
                 V("maxfps", <<"10">>), V("maxsize", <<"1280x720">>), V("maxsize", <<"1280+720C">>),
                 V("resize", <<"1280x720lin">>), V("resize", <<"1280+720">>), V("region", <<"us-west-2">>),
                 V("expiration", <<"7200">>)}                                   \* video_in.py:593-617
OkVideoIn(os) == ~({"maxsize", "resize"} \subseteq Names(os))                    \* "one or the other"
AddrsVideoOut == {<<"file://out_%Y%m%d_%H%M%S.mp4">>, <<"rtsp://user:pa", "!", "ss@host:8554/path">>}
AtomsVideoOut == {T("bgr"), F("bgr"), T("fps"), V("fps", <<"25">>), V("segtime", <<"180">>), V("segtime", <<"0.5">>),
                  V("segtime", <<"5:00">>), V("params", <<"{\"crf\": 23}">>),
                  V("params", <<"{\"crf\": 23", ",", " ", "\"g\": 30}">>),          \* only writable in list form
                  V("g", <<"30">>), V("vf", <<"scale", "=", "1280:720">>),       \* "etc...": other names go to params
                  V("crf", <<"0">>), F("an")}                                    \* ... whatever their values: 0, false
\* an explicit params dictionary next to pass-through names: allowed when the names do not collide with its keys (crf, g),
\* so that the merge into params is independent of the order (video_out.py:380-384 merges, it does not replace)
OkVideoOut(os) == ~(\E i \in 1..Len(os) : os[i].k = <<"params">>) \/ Names(os) \subseteq VideoOutKnown \cup {"vf", "an"}
AddrsImageIn == {<<"file:///path/to/images">>, <<"s3://bucket/images">>, <<"file:///pa", "!", "th/to">>}
AtomsImageIn == {T("loop"), F("loop"), V("loop", <<"3">>), T("recursive"), F("recursive"), V("pattern", <<"*.jpg">>),
                 V("region", <<"us-west-2">>), V("maxfps", <<"1.0">>)}             \* image_in.py:145-160
AddrsImageOut == {<<"file:///path/to/images_%Y%m%d_%d.png">>, <<"file:///other/pa", "!", "th_%d.png">>}
AtomsImageOut == {T("bgr"), F("bgr"), V("format", <<"png">>), V("format", <<"jpg">>), V("quality", <<"95">>),
                  V("compression", <<"6">>)}                                      \* image_out.py:198-209
OkAny(os) == TRUE
(* fillers: entries 2..n of a configuration; the entry under variation is inserted among them at every position *)
Fill(a1, a3, at2, at3, t3) == <<X(a1, <<>>, <<Mp("archive", "archive", "short")>>),
                                X(a1, <<at2>>, <<Mp("t2", "t2", "short")>>),
                                X(a3, <<at3>>, <<Mp(t3, t3, "short")>>)>>
FillVideoIn  == Fill(<<"file://b.mp4">>, <<"rtsp://user:pa", "!", "ss@host:8554/stream">>, F("bgr"), V("loop", <<"3">>), "frames")
FillVideoOut == Fill(<<"file://b.mkv">>, <<"rtsp://user:pa", "!", "ss@host:8554/path">>, T("fps"), V("g", <<"30">>), "archive")
FillImageIn  == Fill(<<"file:///imgs">>, <<"file:///pa", "!", "th/to">>, T("recursive"), V("pattern", <<"*.jpg">>), "frames")
FillImageOut == Fill(<<"file:///o/a_%d.jpg">>, <<"file:///other/pa", "!", "th_%d.png">>, F("bgr"), V("quality", <<"95">>), "archive")
PoolSeq(fill, full) == fill \o SetToSeq(full \ {fill[i] : i \in 1..Len(fill)})
PoolVideoIn  == PoolSeq(FillVideoIn,  EntryPool(AddrsVideoIn,  AtomsVideoIn,  OkVideoIn))
\* at every MaxOpts: entries that carry an explicit params dictionary AND a pass-through name (merged, not replaced)
ParamsPairs == {X(a, os, <<>>) : a \in AddrsVideoOut,
                os \in {s \in [1..2 -> AtomsVideoOut] : /\ ValidOpts(s) /\ OkVideoOut(s)
                                                         /\ \E i \in 1..2 : s[i].k = <<"params">>
                                                         /\ Names(s) \cap {"vf", "an"} # {}}}
PoolVideoOut == PoolSeq(FillVideoOut, EntryPool(AddrsVideoOut, AtomsVideoOut, OkVideoOut) \cup ParamsPairs)
PoolImageIn  == PoolSeq(FillImageIn,  EntryPool(AddrsImageIn,  AtomsImageIn,  OkAny))
PoolImageOut == PoolSeq(FillImageOut, EntryPool(AddrsImageOut, AtomsImageOut, OkAny))
(* Filter: sources = mq addresses with topic mappings in every text form (no options); PoolMaps = min(MaxMaps, 2) *)
FillFilter == <<X(<<"tcp://localhost:5550">>, <<>>, <<>>),
                X(<<"ipc://name??">>, <<>>, <<Mp("a", "b_2", "full")>>),
                X(<<"tcp://127.0.0.1:5552?">>, <<>>, <<Mp(Main, Main, "empty")>>)>>
PoolFilter == PoolSeq(FillFilter, {X(a, <<>>, ms) : a \in TAddrs, ms \in MapSeqs(IF MaxMaps < 2 THEN MaxMaps ELSE 2)})
(* Util: xforms = action [args] {;topic}  (util.py:59-89); the "address" is the action with its arguments *)
XformAddrs == {<<"flipx">>, <<"fmtgray">>, <<"rotcw">>, <<"resize", " ", "123x456">>,
               <<"maxsize", " ", "321", " ", "+", " ", "654", " ", "lin">>, <<"minsize", " ", "135x246C">>,
               <<"box", " ", "0+0x1x1", " ", "#fdb975">>,
               <<"box", " ", ".1", " ", "+", " ", "0.2", " ", "x", " ", "0.3", " ", "x", " ", "0.4", " ", "#246">>}
XformTopics == {<<>>, <<Mp(Main, Main, "short")>>, <<Mp(Main, Main, "short"), Mp("other", "other", "short")>>,
                <<Mp("cam2", "cam2", "short")>>, <<Mp(Main, Main, "empty")>>}
FillUtil == <<X(<<"flipy">>, <<>>, <<>>), X(<<"rotccw">>, <<>>, <<Mp(Main, Main, "short")>>),
              X(<<"maxsize", " ", "640+480lin">>, <<>>, <<Mp(Main, Main, "short"), Mp("other", "other", "short")>>)>>
PoolUtil == PoolSeq(FillUtil, {X(a, <<>>, ms) : a \in XformAddrs, ms \in XformTopics})
(* Recorder: exactly one file:// output with the '!append' option  (recorder.py:32-37) *)
PoolRecorder == SetToSeq({X(a, os, <<>>) : a \in {<<"file://rec.txt">>, <<"file:///tmp/we", "!", "rd/rec.csv">>},
                                           os \in {<<>>, <<T("append")>>, <<F("append")>>}})
Pool(cls) == CASE cls = "VideoIn" -> PoolVideoIn [] cls = "VideoOut" -> PoolVideoOut [] cls = "ImageIn" -> PoolImageIn
               [] cls = "ImageOut" -> PoolImageOut [] cls = "Filter" -> PoolFilter [] cls = "Util" -> PoolUtil
               [] cls = "Recorder" -> PoolRecorder
NFill(cls) == IF cls = "Recorder" THEN 0 ELSE 3
MaxN(cls)  == IF cls = "Recorder" THEN 1 ELSE MaxEntries

(* ---- the forms of one configuration ---- *)
TopicOf(x, full) == IF x.maps = <<>> THEN (IF full THEN <<Main>> ELSE <<>>) ELSE <<x.maps[1].dst>>
StructItem(cls, x, full, w) ==
  CASE cls \in EntryClasses -> DictItem(x.addr, TopicOf(x, full),
                                        IF cls = "VideoOut" THEN MoveToParams(OptSet(x)) ELSE OptSet(x))
    [] cls = "Util"     -> DictItem(x.addr, Join([i \in 1..Len(x.maps) |-> <<x.maps[i].dst>>], ";"), {})
    [] cls = "Recorder" -> DictItem(x.addr, <<>>, OptSet(x))
    [] cls = "Filter"   -> StrItem(Strip(Render(x, w)))                  \* the structured form IS the list of strings
Entries(c)    == [i \in 1..Len(c.i) |-> Pool(c.c)[c.i[i]]]
FormText(c)   == LET w == WsSeq[c.w] e == Entries(c) IN TextVal(JoinCommas([i \in 1..Len(e) |-> Render(e[i], w)], w))
FormList(c)   == LET w == WsSeq[c.w] e == Entries(c)
                 IN  ListVal([i \in 1..Len(e) |-> StrItem(IF c.c = "Filter" THEN Strip(Render(e[i], w)) ELSE Render(e[i], w))])
FormStruct(c, full) == LET w == WsSeq[c.w] e == Entries(c) IN ListVal([i \in 1..Len(e) |-> StructItem(c.c, e[i], full, w)])
HasCommaCfg(c) == \E i \in 1..Len(c.i) : HasComma(Pool(c.c)[c.i[i]])
Forms(c) == (IF HasCommaCfg(c) THEN {} ELSE {FormText(c)}) \cup {FormList(c), FormStruct(c, FALSE), FormStruct(c, TRUE)}
Expected(c) == LET e == Entries(c) IN ListVal([i \in 1..Len(e) |-> Defaults(c.c, StructItem(c.c, e[i], FALSE, WsSeq[c.w]))])

(* ---- the laws of C11 on the reference ---- *)
CfgEq(c)   == \A f \in Forms(c) : NormField(c.c, f) = Expected(c)               \* text == list == structured
CfgIdem(c) == \A f \in Forms(c) : LET n == NormField(c.c, f) IN NormField(c.c, n) = n
CfgInit(c) == c.c = "Filter" =>                                                 \* filter.py:997 on the normalised strings
  LET n == NormField("Filter", FormText(c)).items e == Entries(c)
  IN  \A i \in 1..Len(e) : ParseTopics(n[i].s, 0, "true", Main) =
        [text |-> e[i].addr, has |-> e[i].maps # <<>>, maps |-> MapPairs(e[i]), tops |-> <<>>, err |-> "ok"]

(* ---- enumeration: the entry under variation alone, then inserted among 1..MaxEntries-1 distinct fillers ---- *)
KeysOf(p) == [i \in 1..Len(p) |-> IF p[i].maps = <<>> THEN Main ELSE p[i].maps[1].dst]
KeysVideoIn == KeysOf(PoolVideoIn)
KeysImageIn == KeysOf(PoolImageIn)
TopicKey(cls, i) == IF cls = "VideoIn" THEN KeysVideoIn[i] ELSE KeysImageIn[i]
ValidCfg(cls, idx) == cls \in InClasses => \A a, b \in 1..Len(idx) : a # b => TopicKey(cls, idx[a]) # TopicKey(cls, idx[b])
InjSeqs(S, k) == {s \in [1..k -> S] : \A a, b \in 1..k : a # b => s[a] # s[b]}       \* fillers in every order
IncSeqs(S, k) == {s \in [1..k -> S] : \A a, b \in 1..k : a < b => s[a] < s[b]}       \* fillers in increasing order
FillSeqs(S, k) == IF WsLevel >= 2 THEN InjSeqs(S, k) ELSE IncSeqs(S, k)
Expand(cls, i) ==
  {<<i>>} \cup {idx \in UNION {{InsertAt(f, p, i) : p \in 1..n, f \in FillSeqs(1..NFill(cls), n - 1)} : n \in 2..MaxN(cls)} :
                  ValidCfg(cls, idx)}
WsIdx == IF WsLevel >= 2 THEN 1..Len(WsSeq) ELSE 1..3
(* (no set of all configuration cases is ever built: a UNION of thousands of sets is quadratic in TLC; the vectors
   list, per class and per entry under variation, the index sequences of Expand) *)

(* ============================ filters with their own address grammar (mode proto) ============================== *)
(* Webvis.outputs 'http://host:port', REST.sources 'http://host:port/base;(get|put)path>topic;..',
   MQTTOut.outputs 'mqtt://host:port/base!qos=1;topic/path>dst!retain;..' and MQTTOut.mappings.
   One record shape for all three:  head h = [host, port, base, slash, opts]  and items
   [methods, src, path, dst, opts]  (REST: methods, path, dst = topic; MQTT: src, path, dst, opts). *)
Hd(ho, po, ba, sl, os) == [host |-> ho, port |-> po, base |-> ba, slash |-> sl, opts |-> os]
It(me, sr, pa, ds, os) == [methods |-> me, src |-> sr, path |-> pa, dst |-> ds, opts |-> os]
RECURSIVE RStripTok(_, _)
RStripTok(s, tok) == IF s # <<>> /\ s[Len(s)] = tok THEN RStripTok(SubSeq(s, 1, Len(s) - 1), tok) ELSE s   \* rstrip('/')
RenderHead(scheme, h, w) ==
  <<scheme>> \o h.host \o (IF h.port = <<>> THEN <<>> ELSE <<":">> \o h.port)
  \o (IF h.base = <<>> THEN <<>> ELSE <<"/">> \o h.base) \o (IF h.slash THEN <<"/">> ELSE <<>>)
  \o FlattenSeq([i \in 1..Len(h.opts) |-> Sep("!", w.bang) \o RenderOpt(h.opts[i], w)])
(* host[:port][/path]  ->  webvis.py:135-147, rest.py:269-281, mqtt_out.py:237-254 *)
ParseHostPortPath(t) ==
  LET ap == Split1(t, "/")                                       \* addr, *path = x.split('/', 1)
      hp == RSplit1(ap[1], ":")                                  \* host, *port = addr.rsplit(':', 1)
  IN  [host |-> hp[1], port |-> IF Len(hp) = 2 THEN hp[2] ELSE <<>>, path |-> IF Len(ap) = 2 THEN ap[2] ELSE <<>>]

(* ---- REST  (rest.py:251-345) ---- *)
UpperOf(wd) == CASE wd = "get" -> "GET" [] wd = "put" -> "PUT" [] wd = "post" -> "POST" [] wd = "delete" -> "DELETE"
                 [] OTHER -> wd
RenderEp(e, w) ==
  (IF e.methods = <<>> THEN <<>>
   ELSE <<"(">> \o Sp(w.bang) \o JoinSeq([i \in 1..Len(e.methods) |-> <<e.methods[i]>>], Sep("|", w.bang)) \o Sp(w.bang) \o <<")">> \o Sp(w.bang))
  \o e.path \o (IF e.dst = <<>> THEN <<>> ELSE Sep(">", w.gt) \o e.dst)
RenderRest(c, w) == Sp(w.edge) \o RenderHead("http://", c.h, w)
                    \o FlattenSeq([i \in 1..Len(c.items) |-> Sep(";", w.semi) \o RenderEp(c.items[i], w)]) \o Sp(w.edge)
ParseRestSource(text) ==
  LET parts == StripAll(Split(text, ";"))                                                    \* rest.py:269
      a     == ParseHostPortPath(Tail(parts[1]))                                             \* source[7:]
      maps  == IF Len(parts) = 1 THEN <<<<>>>> ELSE Tail(parts)                              \* rest.py:283-284
      Ep(m) == LET pt   == StripAll(Split1(m, ">"))                                          \* rest.py:289
                   p0   == pt[1]
                   hasM == p0 # <<>> /\ Head(p0) = "("                                       \* rest.py:292
                   mp   == IF hasM THEN StripAll(Split1(Tail(p0), ")")) ELSE <<>>
               IN  It(IF hasM THEN [i \in 1..Len(Split(mp[1], "|")) |-> Strip(Split(mp[1], "|")[i])[1]] ELSE <<>>,
                      <<>>, IF hasM THEN (IF Len(mp) = 2 THEN mp[2] ELSE <<>>) ELSE p0,
                      IF Len(pt) = 2 THEN pt[2] ELSE <<>>, <<>>)
  IN  [h |-> Hd(a.host, a.port, RStripTok(a.path, "/"), FALSE, <<>>), items |-> [i \in 1..Len(maps) |-> Ep(maps[i])]]
NormRest(c) ==                                                                               \* rest.py:307-334
  LET b0 == c.h.base
      b1 == IF b0 # <<>> /\ Head(b0) = "/" THEN Tail(b0) ELSE b0
      NEp(e) == It(IF e.methods = <<>> THEN <<"GET", "POST">> ELSE [i \in 1..Len(e.methods) |-> UpperOf(e.methods[i])],
                   <<>>, IF e.path = <<"/">> THEN <<>> ELSE IF e.path # <<>> /\ Head(e.path) = "/" THEN Tail(e.path) ELSE e.path,
                   IF e.dst = <<>> THEN <<Main>> ELSE e.dst, <<>>)
  IN  [h |-> [c.h EXCEPT !.base = RStripTok(b1, "/"), !.slash = FALSE], items |-> [i \in 1..Len(c.items) |-> NEp(c.items[i])]]
RestKeys(n) == UNION {{<<n.items[i].methods[j], n.items[i].path>> : j \in 1..Len(n.items[i].methods)} : i \in 1..Len(n.items)}
ValidRest(c) == LET n == NormRest(c)                                                         \* rest.py:328-332
                IN  Cardinality(RestKeys(n)) = Cardinality(UNION {{<<i, j>> : j \in 1..Len(n.items[i].methods)} : i \in 1..Len(n.items)})

(* ---- Webvis  (webvis.py:100-150): http://host:port and nothing else ---- *)
ParseWebvis(text) == LET a == ParseHostPortPath(Tail(text)) IN [h |-> Hd(a.host, a.port, a.path, FALSE, <<>>), items |-> <<>>]

(* ---- MQTTOut  (mqtt_out.py:202-321) ---- *)
\* white space is ignored around every '/' of a source path as well (mqtt_out.py: each path segment is stripped): the slashes
\* inside the path are rendered with the white space of the '>' separator
RenderMqPath(p, w) == FlattenSeq([i \in 1..Len(p) |-> IF p[i] = "/" THEN Sep("/", w.gt) ELSE <<p[i]>>])
RenderMq(m, w) ==
  m.src \o (IF m.path = <<>> THEN <<>> ELSE <<"/">> \o RenderMqPath(m.path, w)) \o (IF m.dst = <<>> THEN <<>> ELSE Sep(">", w.gt) \o m.dst)
  \o FlattenSeq([i \in 1..Len(m.opts) |-> Sep("!", w.bang) \o RenderOpt(m.opts[i], w)])
RenderMqtt(c, w) == Sp(w.edge) \o RenderHead("mqtt://", c.h, w)
                    \o FlattenSeq([i \in 1..Len(c.items) |-> Sep(";", w.semi) \o RenderMq(c.items[i], w)]) \o Sp(w.edge)
ParseMqttMapping(m) ==                                                                        \* mqtt_out.py:274-289
  LET po    == ParseOptions(m)
      sd    == StripAll(Split(po.text, ">")) \o <<<<>>>>                                      \* (... + [''])[:2]
      src   == sd[1]
      dst   == sd[2]
      comps == StripAll(Split(src, "/"))
  IN  IF src # <<>> THEN [m |-> It(<<>>, comps[1], Join(Tail(comps), "/"), dst, SetToSeq(po.opts)),
                          err |-> IF Tail(comps) = <<>> /\ dst # <<>> THEN "dst_without_path" ELSE "ok"]
      ELSE [m |-> It(<<>>, <<>>, <<>>, dst, SetToSeq(po.opts)), err |-> IF dst # <<>> THEN "dst_without_src" ELSE "ok"]
ParseMqttOutput(text) ==
  LET pt == ParseTopics(Tail(text), 0, "none", Main)                                          \* mqtt_out.py:220 output[7:]
      po == ParseOptions(pt.text)                                                             \* :228
      a  == ParseHostPortPath(po.text)                                                        \* :237, :245
  IN  [h |-> Hd(a.host, a.port, a.path, FALSE, SetToSeq(po.opts)), maps |-> pt.tops]
DefaultDst(m) == IF m.dst = <<>> /\ m.path # <<>>                                              \* mqtt_out.py:313-314
                 THEN (IF m.path = <<"image">> THEN <<"frames">> ELSE <<m.path[Len(m.path)]>>) ELSE m.dst
NormMq(m) == [m EXCEPT !.dst = DefaultDst(m), !.opts = SetToSeq({m.opts[i] : i \in 1..Len(m.opts)})]
ValidMq(m) == /\ ~(m.src = <<>> /\ m.path = <<>>)                       \* the empty mapping has no documented meaning
              /\ (m.dst # <<>> => m.path # <<>>)                         \* mqtt_out.py:280-284, 299-301
              /\ (m.path # <<>> => m.path[1] \in {"image", "data"} /\ (m.path[1] = "image" => Len(m.path) = 1))
              /\ ValidOpts(m.opts)
ValidMqtt(c) == /\ \A i \in 1..Len(c.items) : ValidMq(c.items[i])
                /\ Cardinality({i \in 1..Len(c.items) : DefaultDst(c.items[i]) = <<>>}) <= 1     \* mqtt_out.py:316
                /\ Cardinality({DefaultDst(c.items[i]) : i \in 1..Len(c.items)}) = Len(c.items)  \* mqtt_out.py:318
ExpectedMqtt(c) == [h |-> [c.h EXCEPT !.slash = FALSE, !.base = IF c.h.base = <<>> THEN <<>> ELSE c.h.base \o (IF c.h.slash THEN <<"/">> ELSE <<>>),   \* "base/" keeps its slash
                                      !.opts = SetToSeq({c.h.opts[i] : i \in 1..Len(c.h.opts)})],
                    items |-> [i \in 1..Len(c.items) |-> NormMq(c.items[i])]]
(* form A: everything in `outputs`; forms B, C: broker fields + `mappings` as a comma text / a list of texts *)
NormMqttA(c, w) == LET o == ParseMqttOutput(Strip(RenderMqtt(c, w)))
                   IN  [h |-> o.h, items |-> [i \in 1..Len(o.maps) |-> NormMq(ParseMqttMapping(o.maps[i]).m)]]
NormMqttB(c, w) == LET l == SplitCommasMaybe(JoinCommas([i \in 1..Len(c.items) |-> RenderMq(c.items[i], w)], w))
                   IN  [h |-> ExpectedMqtt(c).h, items |-> [i \in 1..Len(l) |-> NormMq(ParseMqttMapping(l[i]).m)]]
NormMqttC(c, w) == [h |-> ExpectedMqtt(c).h,
                    items |-> [i \in 1..Len(c.items) |-> NormMq(ParseMqttMapping(Sp(w.edge) \o RenderMq(c.items[i], w) \o Sp(w.edge)).m)]]

(* ---- cases ---- *)
HostPorts == {<<<<>>, <<>>>>, <<<<"0.0.0.0">>, <<"8000">>>>, <<<<"*">>, <<>>>>, <<<<>>, <<"6000">>>>, <<<<"192.168.1.13">>, <<"6000">>>>}
WebvisCases == {[c |-> "Webvis", h |-> Hd(hp[1], hp[2], <<>>, FALSE, <<>>), items |-> <<>>, w |-> j] : hp \in HostPorts, j \in WsIdx}
RestBases  == {<<>>, <<"endpoint">>, <<"a/b">>}
EpPool     == {It(me, <<>>, pa, tp, <<>>) : me \in {<<>>, <<"get">>, <<"put", "post">>, <<"PUT", "delete", "get">>},
                                            pa \in {<<>>, <<"one">>, <<"two/{var}">>},
                                            tp \in {<<>>, <<"mytopic">>, <<"mytopic/one">>}}
EpFill     == <<It(<<"delete">>, <<>>, <<"fill/{id}">>, <<"rest/zub">>, <<>>), It(<<>>, <<>>, <<"other">>, <<>>, <<>>)>>
EpSeqs     == {<<>>} \cup {<<e>> : e \in EpPool} \cup {<<e, EpFill[1]>> : e \in EpPool} \cup {<<EpFill[2], e>> : e \in EpPool}
              \cup {<<EpFill[1], e, EpFill[2]>> : e \in EpPool}
(* a trailing '/' is only generated after a base path/topic ("[/base/path]", "[/base/topic/]"); '/' alone is not in the
   documented grammar *)
SlashOk(k) == k.h.slash => k.h.base # <<>>
RestCases  == {k \in {[c |-> "REST", h |-> Hd(hp[1], hp[2], ba, sl, <<>>), items |-> es, w |-> j] :
                        hp \in HostPorts, ba \in RestBases, sl \in BOOLEAN, es \in {<<>>, <<EpFill[1]>>, <<EpFill[2], EpFill[1]>>}, j \in WsIdx}
                      \cup {[c |-> "REST", h |-> Hd(hp[1], hp[2], <<"endpoint">>, FALSE, <<>>), items |-> es, w |-> j] :
                        hp \in {<<<<"0.0.0.0">>, <<"8000">>>>, <<<<>>, <<>>>>}, es \in EpSeqs, j \in WsIdx} : ValidRest(k) /\ SlashOk(k)}
MqBases    == {<<>>, <<"base_topic">>, <<"a", "/", "b">>}
MqHeadOpts == {<<>>, <<V("qos", <<"1">>)>>, <<T("retain")>>, <<V("qos", <<"0">>), F("retain")>>}
MqOpts     == {<<>>, <<V("qos", <<"0">>)>>, <<V("qos", <<"0">>), V("retain", <<"true">>)>>, <<T("retain")>>, <<F("retain")>>}
MqPool     == {m \in {It(<<>>, sr, pa, ds, os) : sr \in {<<>>, <<"topic">>}, os \in MqOpts,
                        pa \in {<<>>, <<"image">>, <<"data">>, <<"data", "/", "sub">>, <<"data", "/", "sub", "/", "more">>},
                        ds \in {<<>>, <<"other">>}} : ValidMq(m)}
MqFill     == <<It(<<>>, <<"topic2">>, <<"image">>, <<"topic2_frames">>, <<>>), It(<<>>, <<"cam2">>, <<"data", "/", "x">>, <<>>, <<T("retain")>>)>>
MqSeqs     == {<<>>} \cup {<<e>> : e \in MqPool} \cup {<<e, MqFill[1]>> : e \in MqPool} \cup {<<MqFill[2], e>> : e \in MqPool}
              \cup {<<MqFill[1], e, MqFill[2]>> : e \in MqPool}
MqttCases  == {k \in {[c |-> "MQTTOut", h |-> Hd(hp[1], hp[2], ba, sl, os), items |-> ms, w |-> j] :
                        hp \in HostPorts, ba \in MqBases, sl \in BOOLEAN, os \in MqHeadOpts,
                        ms \in {<<>>, <<MqFill[1]>>, <<MqFill[2], MqFill[1]>>}, j \in WsIdx}
                      \cup {[c |-> "MQTTOut", h |-> Hd(hp[1], hp[2], <<"base_topic">>, TRUE, <<>>), items |-> ms, w |-> j] :
                        hp \in {<<<<"0.0.0.0">>, <<"8000">>>>, <<<<>>, <<>>>>}, ms \in MqSeqs, j \in WsIdx} : ValidMqtt(k) /\ SlashOk(k)}
ProtoCases == IF Mode # "proto" THEN {} ELSE WebvisCases \cup RestCases \cup MqttCases

(* ---- the laws on the reference: every text form normalises to the structured form it is declared equivalent to ---- *)
ProtoEq(k) ==
  LET w == WsSeq[k.w] IN
  CASE k.c = "Webvis"  -> ParseWebvis(Strip(Sp(w.edge) \o RenderHead("http://", k.h, w) \o Sp(w.edge)))
                            = [h |-> [k.h EXCEPT !.slash = FALSE], items |-> <<>>]
    [] k.c = "REST"    -> NormRest(ParseRestSource(Strip(RenderRest(k, w))))
                            = NormRest([k EXCEPT !.items = IF k.items = <<>> THEN <<It(<<>>, <<>>, <<>>, <<>>, <<>>)>> ELSE k.items])
    [] k.c = "MQTTOut" -> /\ NormMqttA(k, w) = ExpectedMqtt(k)
                          /\ NormMqttB(k, w) = ExpectedMqtt(k)
                          /\ NormMqttC(k, w) = ExpectedMqtt(k)
ProtoIdem(k) == k.c = "REST" => LET n == NormRest(k) IN NormRest(n) = n
ProtoVec(k) == LET w == WsSeq[k.w] IN
  [c |-> k.c, h |-> k.h, items |-> k.items, w |-> k.w,
   t |-> CASE k.c = "Webvis" -> Sp(w.edge) \o RenderHead("http://", k.h, w) \o Sp(w.edge)
           [] k.c = "REST" -> RenderRest(k, w) [] k.c = "MQTTOut" -> RenderMqtt(k, w),
   mt |-> IF k.c = "MQTTOut" THEN [i \in 1..Len(k.items) |-> RenderMq(k.items[i], w)] ELSE <<>>,
   n |-> CASE k.c = "Webvis" -> [h |-> [k.h EXCEPT !.slash = FALSE], items |-> <<>>]
           [] k.c = "REST" -> LET n0 == NormRest([k EXCEPT !.items = IF k.items = <<>> THEN <<It(<<>>, <<>>, <<>>, <<>>, <<>>)>> ELSE k.items])
                              IN [h |-> n0.h, items |-> n0.items]
           [] k.c = "MQTTOut" -> ExpectedMqtt(k)]

(* ================================================ state space = cases ========================================== *)
VARIABLE kase
Init == CASE Mode = "topics"  -> kase \in {k \in TopicCases : k.x.maps = <<>>}
          [] Mode = "options" -> kase \in {k \in OptionCases : k.x.opts = <<>>}
          [] Mode = "proto"   -> kase \in ProtoCases
          [] Mode = "config"  -> kase \in UNION {{[c |-> cls, i |-> <<k>>, w |-> j] : k \in 1..Len(Pool(cls)), j \in WsIdx} : cls \in Classes}
Next == CASE Mode = "topics"  -> /\ Len(kase.x.maps) < MaxMaps
                                 /\ \E m \in MapAtoms : /\ ValidMaps(Append(kase.x.maps, m))
                                                        /\ kase' = [kase EXCEPT !.x.maps = Append(@, m)]
          [] Mode = "options" -> /\ Len(kase.x.opts) < MaxOpts
                                 /\ \E o \in OAtoms : /\ ValidOpts(Append(kase.x.opts, o))
                                                      /\ kase' = [kase EXCEPT !.x.opts = Append(@, o)]
          [] Mode = "proto"   -> FALSE /\ UNCHANGED kase
          [] Mode = "config"  -> /\ Len(kase.i) = 1
                                 /\ \E idx \in Expand(kase.c, kase.i[1]) \ {kase.i} : kase' = [kase EXCEPT !.i = idx]

InvValid        == Mode \in {"topics", "options"} => Valid(kase.x)
InvRT_Topics    == Mode = "topics"  => RT_Topics(kase.x, kase.w)
InvRT_Options   == Mode = "options" => RT_Options(kase.x, kase.w)
InvRT_Entry     == Mode = "options" => RT_Entry(kase.x, kase.w)
InvDefectExact  == Mode = "options" => (RT_OptionsD(kase.x, kase.w, AllDefects) <=> ~Deviates(kase.x, kase.w))
InvCfgValid     == Mode = "config"  => \A i \in 1..Len(kase.i) : Valid(Pool(kase.c)[kase.i[i]])
InvCfgEq        == Mode = "config"  => CfgEq(kase)
InvCfgIdem      == Mode = "config"  => CfgIdem(kase)
InvCfgInit      == Mode = "config"  => CfgInit(kase)
InvProtoEq      == Mode = "proto"   => ProtoEq(kase)
InvProtoIdem    == Mode = "proto"   => ProtoIdem(kase)

ASSUME LawAmbiguousBang
ASSUME LawAmbiguousAddr
ASSUME LawAmbiguousSemi
ASSUME LawDocExample
ASSUME LawDocExampleDefect
ASSUME LawDocTopicsInvalid

(* ================================================== vectors ================================================== *)
WBits(w) == <<w.comma, w.semi, w.gt, w.bang, w.eqL, w.eqR, w.edge>>
GVec(k) == [x |-> k.x, w |-> WBits(k.w), t |-> Render(k.x, k.w),
            dev |-> Mode = "options" /\ Deviates(k.x, k.w),
            asis |-> IF Mode = "options" /\ Deviates(k.x, k.w)
                     THEN LET r == ParseOptionsD(Render([k.x EXCEPT !.maps = <<>>], k.w), AllDefects)
                          IN  [text |-> r.text, opts |-> SetToSeq(r.opts)]
                     ELSE [text |-> <<>>, opts |-> <<>>]]
TextSamples ==      \* a few complete comma texts, so that the harness can check its own comma-joining against JoinCommas
  UNION {UNION {{[c |-> cls, i |-> idx, w |-> j, t |-> FormText([c |-> cls, i |-> idx, w |-> j]).text] :
                   idx \in {e \in Expand(cls, i) : Len(e) \in {1, 3} /\ ~HasCommaCfg([c |-> cls, i |-> e, w |-> 1])}, j \in WsIdx} :
                i \in {k \in 1..Len(Pool(cls)) : k % 23 = 4}} : cls \in Classes}
PoolVec(cls) == LET p == Pool(cls)
                IN  [i \in 1..Len(p) |-> [x |-> p[i], r |-> [j \in 1..Len(WsSeq) |-> Render(p[i], WsSeq[j])],
                                           comma |-> HasComma(p[i]),
                                           n |-> Defaults(cls, StructItem(cls, p[i], FALSE, WsNone))]]
Vectors ==
  IF "VERIF_OUT" \notin DOMAIN IOEnv THEN [mode |-> Mode] ELSE
  CASE Mode = "topics"  -> [mode |-> Mode, ident |-> Ident, cases |-> SetToSeq({GVec(k) : k \in TopicCases})]
    [] Mode = "options" -> [mode |-> Mode, ident |-> Ident, cases |-> SetToSeq({GVec(k) : k \in OptionCases})]
    [] Mode = "proto"   -> [mode |-> Mode, ident |-> Ident, ws |-> [j \in 1..Len(WsSeq) |-> WBits(WsSeq[j])],
                            cases |-> SetToSeq({ProtoVec(k) : k \in ProtoCases})]
    [] Mode = "config"  -> [mode |-> Mode, ident |-> Ident, ws |-> [j \in 1..Len(WsSeq) |-> WBits(WsSeq[j])],
                            wsidx |-> SetToSeq(WsIdx),
                            pools |-> [cls \in Classes |-> PoolVec(cls)],
                            cases |-> [cls \in Classes |-> [i \in 1..Len(Pool(cls)) |-> SetToSeq(Expand(cls, i))]],
                            texts |-> SetToSeq(TextSamples)]
ASSUME "VERIF_OUT" \in DOMAIN IOEnv => JsonSerialize(IOEnv.VERIF_OUT, Vectors)
=============================================================================

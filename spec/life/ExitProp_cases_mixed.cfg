CONSTANTS
  Defects = {}
  TopoSet = {"chain", "tee", "rejoin"}
  PropSet = {"all", "clean", "error", "none"}
  ObeySet = {"all", "clean", "error", "none"}
  Mixed = TRUE
  Emit = TRUE
INIT Init
NEXT Next
VIEW view
INVARIANT TypeOK
INVARIANT EmitCase

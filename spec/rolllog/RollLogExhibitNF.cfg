SPECIFICATION SpecC
CONSTANTS
  Readers = {"r1"}
  AutoRef = {"r1"}
  Sizes = {1, 2}
  FileSizes = {1, 3}
  TotalSizes = {2, 8}
  MaxWrites = 3
  MaxTs = 2
  MaxDeletes = 1
  MaxReopens = 0
  MaxPosOps = 0
  Active = {"r1"}
  Bin = FALSE
  Acts = {"write", "writenf", "flush", "read", "delete"}
  Defects = {"skip_empty"}
VIEW view
PROPERTY C13_ExactlyOnceInOrder
PROPERTY C13_Budget
PROPERTY C13_NewestKept
PROPERTY C13_NoOverwrite

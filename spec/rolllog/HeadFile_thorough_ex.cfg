SPECIFICATION HSpec
CONSTANTS
  Readers = {"r1"}
  AutoRef = {}
  Sizes = {1, 2}
  FileSizes = {1, 2, 4}
  TotalSizes = {8}
  MaxWrites = 4
  MaxTs = 1
  MaxDeletes = 1
  MaxReopens = 0
  MaxPosOps = 2
  Active = {"r1"}
  Bin = FALSE
  Acts = {"write", "read", "delete", "delete_up", "refresh", "readblock"}
  Defects = {}
  MaxCrashes = 2
  MaxSaves = 2
VIEW allview
INVARIANT TypeOK
INVARIANT C14_HeadNeverCorrupt
INVARIANT C14_SavedNotAhead
PROPERTY C14_RestartsFromSavedPos
PROPERTY C14_NoSkip
PROPERTY C14_BoundedReplay

\* expected counterexample: with the deviation "assign_empty_ignored" in force an empty-assigned --sources= is auto-chained (EmptyRespected is not part of C12's formula)
CONSTANTS
  Sizes = {1, 2}
  IpcModes = {FALSE}
  Names = {"VideoIn", "Webvis"}
  GivenIds = {}
  NumIds = {}
  SrcForms = {"absent", "assign_empty"}
  RefSuffixes = {""}
  AddrSuffixes = {""}
  UriSuffixes = {""}
  SrcHosts = {"localhost"}
  SrcPorts = {5552}
  OutForms = {"absent", "assign_empty"}
  OutHosts = {"127.0.0.1"}
  Ports = {5552}
  IpcNames = {"pipe"}
  Extras = {""}
  Defects = {"assign_empty_ignored"}
INIT Init
NEXT Next
INVARIANT AsIsEmptyRespected

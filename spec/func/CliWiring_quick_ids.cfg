\* facet "ids": automatic naming Name | Name1, Name2, explicit ids that collide with it, duplicate-id error, ids named as sources; exhaustive for 1-3 filters
CONSTANTS
  Sizes = {1, 2, 3}
  IpcModes = {FALSE}
  Names = {"Util", "Webvis"}
  GivenIds = {"a", "Util"}
  NumIds = {"Util"}
  SrcForms = {"absent", "ref"}
  RefSuffixes = {""}
  AddrSuffixes = {""}
  UriSuffixes = {""}
  SrcHosts = {"localhost"}
  SrcPorts = {5552}
  OutForms = {"absent"}
  OutHosts = {"127.0.0.1"}
  Ports = {5552}
  IpcNames = {"pipe"}
  Extras = {""}
  Defects = {"assign_empty_ignored"}
INIT Init
NEXT Next
INVARIANT TypeOK
INVARIANT ErrorsJustified
INVARIANT DesignUniqueIds
INVARIANT DesignEverySourceBound
INVARIANT DesignPortsDisjoint
INVARIANT DesignPassThrough
INVARIANT DesignEmptyRespected
INVARIANT AsIsUniqueIds
INVARIANT AsIsEverySourceBound
INVARIANT AsIsPortsDisjoint
INVARIANT AsIsPassThrough

SPECIFICATION SpecC
CONSTANTS
  Readers = {"r2"}
  AutoRef = {}
  Sizes = {1, 2}
  FileSizes = {1, 3}
  TotalSizes = {1, 4}
  MaxWrites = 3
  MaxTs = 2
  MaxDeletes = 1
  MaxReopens = 0
  MaxPosOps = 2
  Active = {"r2"}
  Bin = FALSE
  Acts = {"write", "read", "delete", "seek", "tell", "refresh"}
  Defects = {"overwrite", "refresh_skip", "frac_ts"}
VIEW view
ACTION_CONSTRAINT Emit

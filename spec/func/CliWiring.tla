----------------------------- MODULE CliWiring -----------------------------
(* C12 - the CLI wires filters into a well-formed pipeline.

   Reference specification of openfilter/cli/common.py `parse_filters` (called by cmd_run.py l.91 as
   `parse_filters(args[:idx:-1], opts.ipc)`), written phase by phase as the code is:

       ParseKey      l.115-138  parse_param_value: "--k v", "--k=v", bare "--k", "--k="
       Ids           l.197-225  automatic ids  Name | Name1, Name2, ...   for filters without --id
       DupIds        l.227-233  duplicate id -> ValueError
       Chain         l.237-261  auto-chaining to the last filter that can feed others; empty keys deleted
       Scan          l.263-301  highest user-given TCP output port, default source address of every filter with outputs
       Resolve       l.303-358  id -> address, allocation of outputs for referenced filters (tcp: max_port += 2; --ipc)

   A command line is a sequence of abstract filter descriptions (what the user wrote).  Text is atomic in TLA+, so
   ids are records [n, i] (rendered n ++ i, i = 0 rendered as ""), addresses are records [t, pos, id, h, p, s] and
   suffixes ("?", "??", ";topic", ";a>b", "!opt", combinations) are opaque tokens that the reference only has to carry;
   the harness (vlib/c12.py) renders them to real argv words and parses the real result back into this vocabulary.

   The state space is a set of cases: a behaviour builds one command line filter by filter (so TLC's workers share
   the work) and the complete states (Len(cl) = n) are the cases.  `res` is the wiring of the code as it stands
   (Defects = the known, unrepaired deviations), `des` the wiring of the intended design (no deviation) when it
   differs.  The laws of C12 are invariants over the complete states. *)
EXTENDS Integers, Sequences, FiniteSets, TLC, IOUtils, CSV

CONSTANTS
  Sizes,         \* lengths of the command lines, e.g. 1..3
  IpcModes,      \* subset of BOOLEAN: `openfilter run --ipc` given or not
  Names,         \* class names of the filters used, subset of AllNames
  GivenIds,      \* strings usable as `--id X`
  NumIds,        \* class names N for which the user may write `--id N1` (collides with automatic numbering)
  SrcForms,      \* forms of --sources, subset of AllSrcForms
  RefSuffixes,   \* suffix tokens written after an id
  AddrSuffixes,  \* suffix tokens written after a real address
  UriSuffixes,   \* suffix tokens written after a file:// source
  SrcHosts, SrcPorts,   \* real tcp:// source addresses host x port (port 0 = none written = 5550)
  OutForms,      \* forms of --outputs, subset of AllOutForms
  OutHosts,      \* hosts of user-given tcp outputs other than "*"
  Ports,         \* user-given tcp output ports (0 = none written, 'tcp://*' = 5550)
  IpcNames,      \* names of user-given ipc:// endpoints
  Extras,        \* unrelated options carried along ("" = none)
  Defects        \* known deviations of the code from the intended design that `res` carries

AllNames    == {"VideoIn", "Util", "Webvis", "VideoOut"}
AllSrcForms == {"absent", "assign_empty", "bare", "uri", "uri2", "ref", "self", "tcp", "ipc",
                "ref+tcp", "tcp+ref", "ref+ref"}
AllOutForms == {"absent", "assign_empty", "bare", "tcp", "host", "ipc", "two", "ipc+tcp", "uri"}
AllDefects  == {"assign_empty_ignored",   \* `--sources=` / `--outputs=` are dropped by parse_param_value (l.116-122 fall
                                          \* through to `return None, None`) although l.255-261 mean them as "no sources"
                "ipc_name_clash"}         \* --ipc allocates ipc://<id> without looking at user-given ipc:// outputs (l.342-344)
ASSUME Names \subseteq AllNames /\ SrcForms \subseteq AllSrcForms /\ OutForms \subseteq AllOutForms
ASSUME Defects \subseteq AllDefects /\ IpcModes \subseteq BOOLEAN

(* filter_can_do_filter_outputs (l.74-102): Input -> True, Output -> False, others by probing normalize_config *)
CanOut(name) == name \in {"VideoIn", "Util"}

(* ---- vocabulary ------------------------------------------------------------------------------------------------ *)
MkId(n, i) == [n |-> n, i |-> i]
NoId       == MkId("", 0)
Item(t, pos, id, h, p, s) == [t |-> t, pos |-> pos, id |-> id, h |-> h, p |-> p, s |-> s]
Ref(j, s)    == Item("ref", j, NoId, "", 0, s)    \* the id of the filter at position j, as the user would write it
IdItem(i, s) == Item("id", 0, i, "", 0, s)        \* an id in a sources list (text level)
Tcp(h, p, s) == Item("tcp", 0, NoId, h, p, s)     \* tcp://h[:p]   (p = 0: no port written)
Ipc(i, h, s) == Item("ipc", 0, i, h, 0, s)        \* ipc://<i><h>
Uri(s)       == Item("uri", 0, NoId, "", 0, s)    \* anything that is not tcp:// or ipc:// and not an id: file://...
None         == Item("none", 0, NoId, "", 0, "")
IsMq(a)      == a.t \in {"tcp", "ipc"}            \* is_mq_addr
PortOf(a)    == IF a.p = 0 THEN 5550 ELSE a.p     \* (... + [5550])[:2]
Wild(h)      == h \in {"*", "0", "0.0.0.0", ""}   \* addr[:1] in "*0"
Max(S)       == CHOOSE x \in S : \A y \in S : y <= x

Opt(f, v) == [f |-> f, v |-> v]    \* what the user wrote for --sources / --outputs: form and items

(* ---- the alphabet of one filter --------------------------------------------------------------------------------- *)
IdOpts == {NoId} \cup {MkId(g, 0) : g \in GivenIds} \cup {MkId(c, 1) : c \in NumIds}

SrcAllowed(name) == IF name = "VideoIn" THEN {"absent", "assign_empty", "bare", "uri", "uri2"}
                    ELSE AllSrcForms \ {"uri", "uri2"}
OutAllowed(name) == IF name = "Webvis" THEN {"absent"}
                    ELSE IF name = "VideoOut" THEN {"uri"}
                    ELSE AllOutForms \ {"uri"}

TcpSrcs == {Tcp(h, p, s) : h \in SrcHosts, p \in SrcPorts, s \in AddrSuffixes}
SrcOf(form, k, n) ==
  LET others == (1..n) \ {k} IN
  CASE form = "absent"       -> {Opt("absent", <<>>)}
    [] form = "assign_empty" -> {Opt("assign_empty", <<>>)}
    [] form = "bare"         -> {Opt("bare", <<>>)}
    [] form = "uri"          -> {Opt("list", <<Uri(s)>>) : s \in UriSuffixes}
    [] form = "uri2"         -> {Opt("list", <<Uri(""), Uri(";t")>>)}
    [] form = "ref"          -> {Opt("list", <<Ref(j, s)>>) : j \in others, s \in RefSuffixes}
    [] form = "self"         -> {Opt("list", <<Ref(k, "")>>)}
    [] form = "tcp"          -> {Opt("list", <<a>>) : a \in TcpSrcs}
    [] form = "ipc"          -> {Opt("list", <<Ipc(MkId(x, 0), "", s)>>) : x \in IpcNames, s \in AddrSuffixes}
    [] form = "ref+tcp"      -> {Opt("list", <<Ref(j, s), a>>) : j \in others, s \in RefSuffixes, a \in TcpSrcs}
    [] form = "tcp+ref"      -> {Opt("list", <<a, Ref(j, s)>>) : j \in others, s \in RefSuffixes, a \in TcpSrcs}
    [] form = "ref+ref"      -> {Opt("list", <<Ref(j, s), Ref(j2, "")>>) : j \in others, j2 \in others, s \in RefSuffixes}
SrcOpts(name, k, n) == UNION {SrcOf(form, k, n) : form \in SrcForms \cap SrcAllowed(name)}

OutOf(form) ==
  CASE form = "absent"       -> {Opt("absent", <<>>)}
    [] form = "assign_empty" -> {Opt("assign_empty", <<>>)}
    [] form = "bare"         -> {Opt("bare", <<>>)}
    [] form = "tcp"          -> {Opt("list", <<Tcp("*", p, "")>>) : p \in Ports}
    [] form = "host"         -> {Opt("list", <<Tcp(h, p, "")>>) : h \in OutHosts, p \in Ports}
    [] form = "ipc"          -> {Opt("list", <<Ipc(MkId(x, 0), "", "")>>) : x \in IpcNames}
    [] form = "two"          -> {Opt("list", <<Tcp("*", pq[1], ""), Tcp("*", pq[2], "")>>) :
                                   pq \in {pq \in Ports \X Ports : pq[2] - pq[1] >= 2 \/ pq[1] - pq[2] >= 2}}
    [] form = "ipc+tcp"      -> {Opt("list", <<Ipc(MkId(x, 0), "", ""), Tcp("*", p, "")>>) : x \in IpcNames, p \in Ports}
    [] form = "uri"          -> {Opt("list", <<Uri("")>>)}
OutOpts(name) == UNION {OutOf(form) : form \in OutForms \cap OutAllowed(name)}

FilterOptsOf(name, k, n) ==
  {[name |-> name, gid |-> g, sf |-> so.f, src |-> so.v, of |-> oo.f, out |-> oo.v, x |-> x] :
     g \in IdOpts, so \in SrcOpts(name, k, n), oo \in OutOpts(name), x \in Extras}
FilterOpts(k, n) == UNION {FilterOptsOf(name, k, n) : name \in Names}

(* The quantifier keeps *user-given* endpoints pairwise disjoint (two filters given the same port are the user's
   conflict, not the CLI's): tcp outputs occupy p and p+1; ipc names are used once.  Lists have at most two items. *)
UserTcpOuts(cl) == {<<k, m>> \in (1..Len(cl)) \X (1..2) : m <= Len(cl[k].out) /\ cl[k].out[m].t = "tcp"}
UserIpcOuts(cl) == {<<k, m>> \in (1..Len(cl)) \X (1..2) : m <= Len(cl[k].out) /\ cl[k].out[m].t = "ipc"}
UserConflictFree(cl) ==
  /\ \A a \in UserTcpOuts(cl), b \in UserTcpOuts(cl) :
        a # b => LET p == PortOf(cl[a[1]].out[a[2]])  q == PortOf(cl[b[1]].out[b[2]])
                 IN p - q >= 2 \/ q - p >= 2
  /\ \A a \in UserIpcOuts(cl), b \in UserIpcOuts(cl) : a # b => cl[a[1]].out[a[2]].id # cl[b[1]].out[b[2]].id

(* ================================================================================================================
   The reference: ParseFilters(cl, ipc, D) with D the set of deviations in force
   ================================================================================================================ *)
Key(in, v) == [in |-> in, v |-> v]   \* one key of a config dict: present?, value as a list of items (<<>> = None / falsy)

(* l.115-138 + l.201-207 *)
ParseKey(form, items, D) ==
  CASE form = "absent"       -> Key(FALSE, <<>>)
    [] form = "bare"         -> Key(TRUE, <<>>)       \* "--sources" followed by a switch or the end: True (l.132-136) -> None (l.202-207)
    [] form = "assign_empty" -> IF "assign_empty_ignored" \in D
                                THEN Key(FALSE, <<>>) \* l.116-122: value is "", falls out of the if to `return None, None`: key not set
                                ELSE Key(TRUE, <<>>)  \* l.255-261: 'convert "--sources=" empty assign to no sources'
    [] form = "list"         -> Key(TRUE, items)

(* l.197-225: filters without --id are grouped by class name; a single one is called Name, several Name1, Name2, ... *)
AutoId(cl, k) ==
  LET same == {j \in 1..Len(cl) : cl[j].name = cl[k].name /\ cl[j].gid = NoId}
  IN IF Cardinality(same) = 1 THEN MkId(cl[k].name, 0)
     ELSE MkId(cl[k].name, Cardinality({j \in same : j <= k}))
Ids(cl) == [k \in 1..Len(cl) |-> IF cl[k].gid # NoId THEN cl[k].gid ELSE AutoId(cl, k)]
(* l.227-233 *)
DupIds(ids) == \E i \in DOMAIN ids, j \in DOMAIN ids : i < j /\ ids[i] = ids[j]

(* what the user types for "the filter at position j" is that filter's id *)
Text(items, ids) == [m \in DOMAIN items |-> IF items[m].t = "ref" THEN IdItem(ids[items[m].pos], items[m].s)
                                            ELSE items[m]]
Configs(cl, ids, D) ==
  [k \in 1..Len(cl) |-> [name |-> cl[k].name, id |-> ids[k],
                         src |-> ParseKey(cl[k].sf, Text(cl[k].src, ids), D),
                         out |-> ParseKey(cl[k].of, cl[k].out, D)]]

(* l.237-261: one pass in command-line order; `last` is last_source (an id, NoId = None) *)
RECURSIVE ChainFrom(_, _, _)
ChainFrom(cfgs, k, last) ==
  IF k > Len(cfgs) THEN <<>>
  ELSE LET c     == cfgs[k]
           src1  == IF last # NoId /\ ~c.src.in THEN Key(TRUE, <<IdItem(last, "")>>) ELSE c.src      \* l.246-247
           last1 == IF (~c.out.in \/ c.out.v # <<>>) /\ CanOut(c.name) THEN c.id ELSE last           \* l.249-252
           src2  == IF src1.in /\ src1.v = <<>> THEN Key(FALSE, <<>>) ELSE src1                      \* l.254-257
           out2  == IF c.out.in /\ c.out.v = <<>> THEN Key(FALSE, <<>>) ELSE c.out                   \* l.258-261
       IN <<[c EXCEPT !.src = src2, !.out = out2]>> \o ChainFrom(cfgs, k + 1, last1)

(* l.263-301 *)
NonMqOut(c)  == \E m \in DOMAIN c.out.v : ~IsMq(c.out.v[m])                                          \* l.275-280
ScanPorts(cfgs) ==                                                                                   \* l.282-289
  {PortOf(cfgs[km[1]].out.v[km[2]]) :
      km \in {km \in (DOMAIN cfgs) \X (1..2) : /\ km[2] <= Len(cfgs[km[1]].out.v)
                                               /\ ~NonMqOut(cfgs[km[1]])
                                               /\ cfgs[km[1]].out.v[km[2]].t = "tcp"}}
MaxPort0(cfgs) == Max({5548} \cup ScanPorts(cfgs))
DefaultSource(o) ==                                                                                  \* l.291-301: first output
  IF o.t = "tcp" THEN Tcp(IF Wild(o.h) THEN "localhost" ELSE o.h, PortOf(o), "")
  ELSE [o EXCEPT !.s = ""]
SourceBy0(cfgs) == [k \in DOMAIN cfgs |-> IF cfgs[k].out.v # <<>> /\ ~NonMqOut(cfgs[k])
                                          THEN DefaultSource(cfgs[k].out.v[1]) ELSE None]
PosOfId(cfgs, i) == IF \E k \in DOMAIN cfgs : cfgs[k].id = i                                         \* config_by_id.get
                    THEN CHOOSE k \in DOMAIN cfgs : cfgs[k].id = i ELSE 0

(* l.303-358: sequential over filters and over their sources; st = [mp, by, outs, err] *)
UserIpcNames(cfgs) == {cfgs[km[1]].out.v[km[2]].id :
                         km \in {km \in (DOMAIN cfgs) \X (1..2) : /\ km[2] <= Len(cfgs[km[1]].out.v)
                                                                  /\ cfgs[km[1]].out.v[km[2]].t = "ipc"}}
ResolveOne(st, cfgs, k, it, ipc, D) ==    \* -> [st, it]
  IF st.err # "" \/ IsMq(it) \/ it.t # "id" THEN [st |-> st, it |-> it]                              \* l.318-321 (uri: l.322-325)
  ELSE LET j == PosOfId(cfgs, it.id) IN
       IF j = 0 THEN [st |-> st, it |-> it]                                                          \* l.322-325 unknown id: skipped
       ELSE IF NonMqOut(cfgs[j]) THEN [st |-> [st EXCEPT !.err = "nonmq_source"], it |-> it]         \* l.327-328
       ELSE IF j = k THEN [st |-> [st EXCEPT !.err = "self_source"], it |-> it]                      \* l.329-330
       ELSE IF st.by[j] # None THEN [st |-> st, it |-> [st.by[j] EXCEPT !.s = it.s]]                 \* l.332-335
       ELSE IF ipc                                                                                   \* l.342-344
            THEN LET fresh == IF "ipc_name_clash" \notin D /\ cfgs[j].id \in UserIpcNames(cfgs) THEN "_" ELSE ""
                     a     == Ipc(cfgs[j].id, fresh, "")
                 IN [st |-> [st EXCEPT !.by[j] = a, !.outs[j] = <<a>>], it |-> [a EXCEPT !.s = it.s]]
            ELSE LET mp == st.mp + 2                                                                 \* l.346-350
                 IN [st |-> [st EXCEPT !.mp = mp, !.by[j] = Tcp("localhost", mp, ""), !.outs[j] = <<Tcp("*", mp, "")>>],
                     it |-> Tcp("localhost", mp, it.s)]

RECURSIVE ResolveItems(_, _, _, _, _, _, _)
ResolveItems(st, cfgs, k, items, acc, ipc, D) ==   \* -> [st, items]
  IF items = <<>> THEN [st |-> st, items |-> acc]
  ELSE LET r == ResolveOne(st, cfgs, k, Head(items), ipc, D)
       IN ResolveItems(r.st, cfgs, k, Tail(items), Append(acc, r.it), ipc, D)

RECURSIVE ResolveFrom(_, _, _, _, _, _)
ResolveFrom(st, cfgs, k, srcs, ipc, D) ==          \* -> [st, srcs]
  IF k > Len(cfgs) THEN [st |-> st, srcs |-> srcs]
  ELSE LET r == ResolveItems(st, cfgs, k, cfgs[k].src.v, <<>>, ipc, D)
       IN ResolveFrom(r.st, cfgs, k + 1, Append(srcs, r.items), ipc, D)

Failure(e) == [err |-> e, fs |-> <<>>]
ParseFilters(cl, ipc, D) ==
  LET ids == Ids(cl) IN
  IF DupIds(ids) THEN Failure("duplicate_id")
  ELSE LET cfgs == ChainFrom(Configs(cl, ids, D), 1, NoId)
           st0  == [mp |-> MaxPort0(cfgs), by |-> SourceBy0(cfgs),
                    outs |-> [k \in DOMAIN cfgs |-> cfgs[k].out.v], err |-> ""]
           r    == ResolveFrom(st0, cfgs, 1, <<>>, ipc, D)
       IN IF r.st.err # "" THEN Failure(r.st.err)
          ELSE [err |-> "",
                fs  |-> [k \in DOMAIN cfgs |-> [id |-> ids[k], src |-> r.srcs[k], out |-> r.st.outs[k], x |-> cl[k].x]]]

(* ================================================================================================================
   The laws of C12, over a command line cl and a wiring R (R.err = "": a list of configs was returned)
   ================================================================================================================ *)
Loopback == {"localhost", "127.0.0.1"}
Binds(o, a) ==   \* the output o of some filter is what a source connecting to address a reaches
  \/ o.t = "ipc" /\ a.t = "ipc" /\ o.id = a.id /\ o.h = a.h
  \/ o.t = "tcp" /\ a.t = "tcp" /\ PortOf(o) = PortOf(a)
       /\ (o.h = a.h \/ (o.h \in Loopback /\ a.h \in Loopback) \/ (Wild(o.h) /\ a.h \in Loopback))
Binders(R, a) == {j \in DOMAIN R.fs : \E m \in DOMAIN R.fs[j].out : Binds(R.fs[j].out[m], a)}

UniqueIds(cl, R) ==
  \A i \in DOMAIN R.fs : R.fs[i].id # NoId /\ \A j \in DOMAIN R.fs : i # j => R.fs[i].id # R.fs[j].id

EverySourceBound(cl, R) ==
  \A k \in DOMAIN R.fs :
    IF cl[k].sf = "list"
    THEN \A m \in DOMAIN cl[k].src :            \* sources that name another filter explicitly
           cl[k].src[m].t = "ref" /\ cl[k].src[m].pos # k =>
             /\ m <= Len(R.fs[k].src)
             /\ LET a == R.fs[k].src[m]
                IN IsMq(a) /\ a.s = cl[k].src[m].s /\ Binders(R, a) = {cl[k].src[m].pos}
    ELSE \A m \in DOMAIN R.fs[k].src :          \* nothing written: what is there comes from auto-chaining
           LET a == R.fs[k].src[m]
           IN IsMq(a) /\ a.s = "" /\ \E j \in 1..(k - 1) : Binders(R, a) = {j}

Occ(p) == {p, p + 1}
UserPorts(cl) == {PortOf(cl[km[1]].out[km[2]]) : km \in UserTcpOuts(cl)}
AutoOuts(cl, R) == {km \in (DOMAIN R.fs) \X (1..2) : /\ cl[km[1]].of # "list" /\ km[2] <= Len(R.fs[km[1]].out)
                                                     /\ R.fs[km[1]].out[km[2]].t = "tcp"}
PortsDisjoint(cl, R) ==
  \A a \in AutoOuts(cl, R) :
    LET p == PortOf(R.fs[a[1]].out[a[2]]) IN
    /\ \A q \in UserPorts(cl) : Occ(p) \cap Occ(q) = {}
    /\ \A b \in AutoOuts(cl, R) : a # b => Occ(p) \cap Occ(PortOf(R.fs[b[1]].out[b[2]])) = {}

PassThrough(cl, R) ==
  \A k \in DOMAIN R.fs :
    /\ cl[k].gid # NoId => R.fs[k].id = cl[k].gid
    /\ cl[k].of = "list" => R.fs[k].out = cl[k].out
    /\ cl[k].sf = "list" => /\ Len(R.fs[k].src) = Len(cl[k].src)
                            /\ \A m \in DOMAIN cl[k].src : cl[k].src[m].t # "ref" => R.fs[k].src[m] = cl[k].src[m]
    /\ R.fs[k].x = cl[k].x

(* Not part of C12's formula; documents the intended meaning of an empty --sources / --outputs (l.255-261). *)
Named(cl, k) == \E j \in DOMAIN cl, m \in 1..2 : m <= Len(cl[j].src) /\ cl[j].src[m].t = "ref" /\ cl[j].src[m].pos = k
EmptyRespected(cl, R) ==
  \A k \in DOMAIN R.fs :
    /\ cl[k].sf \in {"assign_empty", "bare"} => R.fs[k].src = <<>>
    /\ cl[k].of \in {"assign_empty", "bare"} /\ ~Named(cl, k) => R.fs[k].out = <<>>

(* ================================================================================================================
   State space = set of cases
   ================================================================================================================ *)
VARIABLES n,     \* length of the command line being built
          ipc,   \* --ipc
          cl,    \* the command line so far
          res,   \* wiring of the code as it stands: ParseFilters(cl, ipc, Defects); Pending until cl is complete
          des    \* wiring of the intended design ParseFilters(cl, ipc, {}) when it differs from res, else Same
vars == <<n, ipc, cl, res, des>>
Pending == [err |-> "pending", fs |-> <<>>]
Same    == [err |-> "same", fs |-> <<>>]

(* One line per case for the conformance harness (vlib/c12.py): positional tuples in TLC's print syntax.
   item = <<t, pos, id.n, id.i, h, p, s>>, filter = <<name, gid.n, gid.i, sf, src, of, out, x>>,
   wiring = <<err, <<<<id.n, id.i, src, out, x>>, ...>>>>, line = <<ipc, cl, ids, res, des>> (ids = Ids(cl): what the
   user types for a "ref" item, also when the reference rejects the command line). *)
ItemT(a)   == <<a.t, a.pos, a.id.n, a.id.i, a.h, a.p, a.s>>
ItemsT(s)  == [m \in DOMAIN s |-> ItemT(s[m])]
FilterT(f) == <<f.name, f.gid.n, f.gid.i, f.sf, ItemsT(f.src), f.of, ItemsT(f.out), f.x>>
WiringT(R) == <<R.err, [k \in DOMAIN R.fs |->
                          <<R.fs[k].id.n, R.fs[k].id.i, ItemsT(R.fs[k].src), ItemsT(R.fs[k].out), R.fs[k].x>>]>>
Emit(c, i, r, d) ==
  "VERIF_OUT" \in DOMAIN IOEnv =>
     CSVWrite("%1$s", << <<i, [k \in DOMAIN c |-> FilterT(c[k])],
                            [k \in DOMAIN c |-> <<Ids(c)[k].n, Ids(c)[k].i>>], WiringT(r), WiringT(d)>> >>, IOEnv.VERIF_OUT)

(* The deviations are consulted only by ParseKey on "assign_empty" and by ResolveOne under --ipc with a user-given
   ipc:// output; on every other command line ParseFilters does not depend on D. *)
Affected(c, i) == \/ \E k \in DOMAIN c : c[k].sf = "assign_empty" \/ c[k].of = "assign_empty"
                  \/ i /\ UserIpcOuts(c) # {}

Init == n \in Sizes /\ ipc \in IpcModes /\ cl = <<>> /\ res = Pending /\ des = Pending

Add ==      \* exhaustive: every filter of the alphabet
  /\ Len(cl) < n
  /\ \E f \in FilterOpts(Len(cl) + 1, n) :
       /\ UserConflictFree(Append(cl, f))
       /\ cl' = Append(cl, f)
  /\ UNCHANGED <<n, ipc, res, des>>

Pick(S) == IF S = {} THEN {} ELSE {RandomElement(S)}
AddSampled ==   \* sampled (TLC -simulate): one random filter, the form drawn first so that every form is equally likely
  /\ Len(cl) < n
  /\ LET k == Len(cl) + 1 IN
     \E name \in Pick(Names) : \E ug \in Pick(1..3) : \E g \in Pick(IF ug = 1 THEN IdOpts ELSE {NoId}) :
     \E sform \in Pick(SrcForms \cap SrcAllowed(name)) : \E so \in Pick(SrcOf(sform, k, n)) :
     \E oform \in Pick(OutForms \cap OutAllowed(name)) : \E oo \in Pick(OutOf(oform)) : \E x \in Pick(Extras) :
       LET f == [name |-> name, gid |-> g, sf |-> so.f, src |-> so.v, of |-> oo.f, out |-> oo.v, x |-> x] IN
       /\ UserConflictFree(Append(cl, f))
       /\ cl' = Append(cl, f)
  /\ UNCHANGED <<n, ipc, res, des>>

Finish ==   \* the command line is complete: run the reference, record the case
  /\ Len(cl) = n /\ res = Pending
  /\ LET asis == ParseFilters(cl, ipc, Defects)
         dsgn == IF Defects = {} \/ ~Affected(cl, ipc) THEN asis ELSE ParseFilters(cl, ipc, {})
         d    == IF dsgn = asis THEN Same ELSE dsgn
     IN res' = asis /\ des' = d /\ Emit(cl, ipc, asis, d)
  /\ UNCHANGED <<n, ipc, cl>>

Next       == Add \/ Finish
SampleNext == AddSampled \/ Finish

Complete == res # Pending
Design   == IF des = Same THEN res ELSE des
Law(L(_, _), R) == Complete /\ R.err = "" => L(cl, R)

(* the intended design has the property *)
DesignUniqueIds        == Law(UniqueIds, Design)
DesignEverySourceBound == Law(EverySourceBound, Design)
DesignPortsDisjoint    == Law(PortsDisjoint, Design)
DesignPassThrough      == Law(PassThrough, Design)
DesignEmptyRespected   == Law(EmptyRespected, Design)
(* the code as it stands (with Defects) *)
AsIsUniqueIds          == Law(UniqueIds, res)
AsIsEverySourceBound   == Law(EverySourceBound, res)
AsIsPortsDisjoint      == Law(PortsDisjoint, res)
AsIsPassThrough        == Law(PassThrough, res)
AsIsEmptyRespected     == Law(EmptyRespected, res)
(* errors are raised exactly for: duplicate id, a filter naming itself, a filter with a non-mq output named as a source *)
ErrorsJustified ==
  Complete /\ res.err # "" =>
    \/ res.err = "duplicate_id" /\ DupIds(Ids(cl))
    \/ res.err = "self_source"  /\ \E k \in DOMAIN cl, m \in 1..2 : m <= Len(cl[k].src) /\ cl[k].src[m] = Ref(k, "")
    \/ res.err = "nonmq_source" /\ \E k \in DOMAIN cl : cl[k].of = "list" /\ \E m \in DOMAIN cl[k].out : cl[k].out[m].t = "uri"
TypeOK == res.err \in {"", "pending", "duplicate_id", "self_source", "nonmq_source"}
=============================================================================

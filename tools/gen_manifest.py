#!/usr/bin/env python3-vt
"""Regenerates MANIFEST.json from the table below (single source of truth) and validates it against the schema."""
import json, os, sys
HERE = os.path.dirname(os.path.dirname(os.path.abspath(__file__)))
sys.path.insert(0, HERE)
from tools.manifest_table import CHECKS, NOT_YET, ENGINES, HOOKS, NOTES

checks = []
for pid, c in sorted(CHECKS.items()):
    checks.append({
        'property_id': pid,
        'quick_cmd': f'./check {pid} --tier quick',
        'thorough_cmd': f'./check {pid} --tier thorough',
        'evidence_file': f'/verif/evidence/{pid}.json',
        'replay_cmd_template': f'./check {pid} --replay {{path}}',
        'engine': c['engine'],
        'level_claimed': {'category': c.get('category', 'model_checking'), 'text': c['text'], 'design_ref': c['design_ref']},
        'level_note': c['note'],
        'technique': c['technique'],
    })
props = [json.loads(l)['id'] for l in open(os.path.join(HERE, 'properties.jsonl'))]
na = [{'property_id': p, 'reason': NOT_YET.get(p, 'check not built yet in this revision (planned: see DESIGN.md section 5)')}
      for p in props if p not in CHECKS]
m = {'version': 1,
     'setup_cmd': 'true',
     'hooks': HOOKS,
     'engines': ENGINES,
     'checks': checks,
     'notes': NOTES,
     'not_applicable': na}
json.dump(m, open(os.path.join(HERE, 'MANIFEST.json'), 'w'), indent=1)
import jsonschema
jsonschema.validate(m, json.load(open('/root/.vp/MANIFEST.schema.json')))
print(f'MANIFEST.json: {len(checks)} checks, {len(na)} not_applicable - valid')

#!/bin/sh
# tools/mutant_selftest.sh [pattern]: applies every mutants/<Cxx>_*.diff matching pattern to a scratch worktree of /repo and
# runs the property's quick check against it; prints one line per mutant (CAUGHT = exit 1 with a VIOLATION line).
PAT="${1:-C}"
cd /verif
for d in mutants/${PAT}*.diff; do
  n=$(basename "$d" .diff); prop=$(echo "$n" | cut -c1-3)
  wt=/tmp/mw_${n}_$$
  git -C /repo worktree add -q --detach "$wt" HEAD || continue
  if git -C "$wt" apply "/verif/$d" 2>/dev/null; then
    out=$(VERIF_REPO="$wt" timeout 1500 ./check "$prop" --tier quick 2>&1); rc=$?
    v=$(echo "$out" | grep -c '^VIOLATION')
    first=$(echo "$out" | grep -A1 '^VIOLATION' | sed -n 2p | cut -c1-140)
    if [ $rc -eq 1 ]; then echo "CAUGHT  $n ($v witnesses) $first"; elif [ $rc -eq 0 ]; then echo "MISSED  $n  $(echo "$out" | tail -1 | cut -c1-160)"; else echo "ERROR   $n rc=$rc $(echo "$out" | tail -2 | cut -c1-200)"; fi
  else echo "NOAPPLY $n"; fi
  git -C /repo worktree remove --force "$wt"
done

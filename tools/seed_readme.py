#!/venv/bin/python
"""Writes /verif/seeded/README.md from seeded/*/meta.json, result.json and the notes below."""
import glob, json, os
NOTES = {
    'C01_7': 'round 4; missed at first (no source ever ended cleanly and came back); the specification gained Again (a source that has ended is started again, its stream goes on; exits only in the first incarnation) - model check, replay and random runs with the join holding the other source\'s frame - caught since',
    'C01_8': 'round 4; missed at first (the documented warning switches were always on); runs alternate ZMQ_WARN_OLDER / ZMQ_WARN_NEWER = false - caught since',
    'C02_7': 'round 4; missed at first by C02 (the join with sources_timeout was only in C01); C02 gained the silent-source runs - caught since',
    'C02_8': 'round 4; missed at first (no relay returned a callable that yields None); the specification gained lazy-None relays (mq.ln, design mutation lazy_none_keeps_state - no counterexample within bounds), replay conforms; C02 gained directed kills of a slow producer right after such a frame - caught since',
    'C03_7': 'round 4; missed at first (ids never skipped on the trunk before a tee with a slow branch); C03 gained TrunkTeeRejoin - caught since',
    'C03_8': 'round 4; missed at first (the short subscription forms were only used in C02); C03 gained RemapMain - caught since',
    'C04_7': 'round 4; missed at first (no stall scenario declared required outputs); added - caught since',
    'C04_8': 'round 4; caught as the checks stood (design mutation bal_eph_reenables)',
    'C05_7': 'round 4; missed at first (no consumer had to pull a source up to sparse ids while a listener registered after it); C05 gained JoinSparseEph in the late-listener differential - caught since',
    'C05_8': 'round 4; NOT caught (conformance drift only): needs libzmq message trackers (send(copy=False, track=True) + tracker.wait()) over a flow-controlled pipe to a connected listener that has stopped reading, with parts of 64 KiB or more and more than a thousand queued messages; simzmq does not model trackers',
    'C06_7': 'round 4; missed at first (no consumer died behind a publisher blocked in one send() call); C06 gained the non-required death behind a blocking publisher - caught since',
    'C06_8': 'round 4; caught as the checks stood', 'C07_7': 'round 4', 'C07_8': 'round 4 (same switch as C01_8)',
    'C01_5': 'round 3; caught as the checks stood',
    'C01_6': 'round 3; missed at first (a publisher never died inside one publish); C01 gained the kill-inside-a-publish enumeration (1..m-1 of the m messages of a frame set delivered, the rest lost with the publisher, restart on the same address) - caught since',
    'C02_5': 'round 3; missed at first (no consumer ran in low-latency mode); the specification\'s lowlat behaviour is now exercised (model check, replay with publisher kills) and the design mutation ll_prev_stale yields the schedule - caught since',
    'C02_6': 'round 3; missed at first by C02 (the relay-rejoin amnesia schedule was only replayed by C01); C02 replays it too and judges the id a frame was published under - caught since',
    'C03_5': 'round 3; missed at first (the simulated network bounded what is queued towards a subscriber by the publisher\'s high-water mark alone); simzmq now models SNDHWM + RCVHWM for the join-with-a-slower-branch scenario (80 frames must arrive complete) - caught since. The same scenario with 700 frames loses frames on the unchanged tree: open finding C03-join-fast-source-runs-ahead. (The demonstration is timing based: it failed once without the change while four seed tests ran concurrently and passes alone.)',
    'C03_6': 'round 3; missed at first (no relay returned None and then a set without the explicitly subscribed topics); C03 gained Chain3NoneEmpty - caught since',
    'C04_5': 'round 3; missed at first (every consumer had its own filter id); C04 gained two replicas with one id on one output - caught since',
    'C04_6': 'round 3; missed at first (only the direct publisher of the stalled consumer was counted, and mq.py read the real wall clock); every producer upstream of the stalled consumer is counted and mq.py\'s clock is virtual - caught since',
    'C05_5': 'round 3; caught as the checks stood',
    'C05_6': 'round 3; missed at first (no consumer was attached to one publisher twice); C05 gained DualAttach (model check, replay, differential with a slow consumer) - caught since',
    'C06_5': 'round 3; missed at first (no restarted filter numbered its own output behind a slow producer); C06 gained EphRelay in the fault enumeration - caught since',
    'C06_6': 'round 3; missed at first (the required output was the only consumer); C06 gained RequiredTee and counts every publish from the kill on (two in-flight publishes allowed) - caught since',
    'C07_5': 'round 3; caught as the checks stood', 'C07_6': 'round 3; caught as the checks stood',
    'C08_5': 'round 3; missed at first (return-vs-raise and the announcement were judged for runs with one reason of ending only); a run that was ending cleanly and then hits an exception in shutdown() is now judged as ending by that error (fini-stage errors: raise, announcement as known before) - caught since',
    'C08_6': 'round 3; caught as the checks stood',
    'C18_5': 'round 3; missed at first (the capturing client never failed); new specification spec/life/Emitter.tla with a failing backend, replayed on the real emitter - caught since',
    'C18_6': 'round 3; missed at first (the telemetry bridge was never driven); Emitter.tla models the bridge\'s export / force_flush (also after the run), replayed through the real OTelLineageExporter - caught since',
    'C09_5': 'round 3; missed at first (every jpg came from a picture of the declared format; the expected pixels came from the code\'s own decode); some colour-declared frames now carry a single-channel JPEG and the reference decode is independent - caught since',
    'C09_6': 'round 3; caught as the checks stood', 'C10_5': 'round 3; caught as the checks stood',
    'C10_6': 'round 3; missed at first (one frame world per case); C10 gained the stream probe (different jpg frames one after the other, blobs freed, earlier pictures kept) - caught since',
    'C11_5': 'round 3; missed at first (no white space at the inner slashes of an MQTT source path); ConfigGrammar renders it - caught since',
    'C11_6': 'round 3; missed at first (no pass-through option with a falsy value); the VideoOut pool gained !crf=0 and !no-an - caught since',
    'C12_5': 'round 3; missed at first (no id source with "?" directly followed by an option); suffixes "?!opt" / "??!opt" added - caught since',
    'C12_6': 'round 3; caught as the checks stood',
    'C13_5': 'round 3; first run ended as MACHINERY-FAILURE (the projection of a saved position did not know the special values of seek()); fixed - caught since',
    'C13_6': 'round 3; missed at first (bin records were bytes only); bin records are now bytes, bytearrays and two-dimensional buffers - caught since',
    'C14_5': 'round 3; caught as the checks stood', 'C14_6': 'round 3; caught as the checks stood',
    'C15_5': 'round 3; caught as the checks stood', 'C15_6': 'round 3; caught as the checks stood',
    'C16_5': 'round 3; missed at first (every configuration file had a safe_metrics list); files with another section only / an empty safe_metrics key added - caught since',
    'C16_6': 'round 3; missed at first (the lock-down cases ran first in the process); a permissive exporter now exports every name first - caught since',
    'C17_5': 'round 3; missed at first (chains ran through execute_xforms only); every other chain now runs through Util.setup()/process() with mixed topic scoping - caught since',
    'C17_6': 'round 3; caught as the checks stood',
    'C09_3': 'round 2 (functions); missed at first (no data string with an unpaired surrogate); FIXED_DATA gained surrogate-escaped strings - caught since',
    'C09_4': 'round 2 (functions); missed at first (no read-only frame derived from a writable buffer that is rewritten afterwards); C09 gained the rocached/poked frame kind (owner.ro, jpg cached, owner buffer re-rendered) - caught since (stale_jpg)',
    'C10_3': 'round 2 (functions); first run ended as MACHINERY-FAILURE (the self-test judged a clean history on the real code); what the monitors say about that history is now merged into the verdicts - caught since',
    'C11_3': 'round 2 (functions); missed at first (results of parse_options / normalize_config were never written into by the caller); every evaluation now modifies the returned containers in place and parses the same text again - caught since',
    'C11_4': 'round 2 (functions); first run ended as MACHINERY-FAILURE (the self-test needs a conforming vector on the real code); on a tree with witnesses a failing self-test is recorded as void instead - caught since',
    'C13_4': 'round 2 (functions); missed at first (record payloads were digits and dots only); line-mode records now carry a carriage return (mid-record or right before the newline) - caught since',
    'C14_3': 'round 2 (functions); first run ended as MACHINERY-FAILURE, then missed (crash points existed only for the builtins.open/file-object path; saved positions never differed in length by two characters); the observed file system now also injects crashes at os.open/os.write/os.close of the head files and one rendering uses 128-byte cells - caught since',
    'C14_4': 'round 2 (functions); missed at first (readers were built with the default file_size); reader r1 now gets file_size=1 (meaningless for a reader) - caught since',
    'C15_3': 'round 2 (functions); missed at first (credentials were short); character class "long" (a 300-character token as password) added to Redact cfgs - caught since',
    'C16_3': 'round 2 (functions); missed at first (three fixed allow-lists through OpenTelemetryClient); a sample of the specification vectors, rendered over an alphabet whose names/patterns end in "_histogram", now goes through the client wiring in fresh interpreters - caught since',
    'C01_3': 'round 2; missed at first (no explicit multi-topic subscription to a source with a varying topic set behind a skipping relay); C01 gained ExplicitMulti - caught since',
    'C01_4': 'round 2; missed at first, caught since by the same ExplicitMulti topology',
    'C02_3': 'round 2; missed at first (the simulated network copied every part at send time); simzmq now reads copy=False buffers >= 64 KiB at delivery time and the content pipeline reuses one large pixel buffer - caught since',
    'C02_4': 'round 2; missed at first (subscriptions were never written in the short forms); the harness now renders "b>" / ">m" and C02 gained RemapMain - caught since',
    'C03_3': 'round 2; missed at first (no process() ever returned an empty dict); C03 gained Chain3Empty - caught since',
    'C03_4': 'round 2; missed at first (the publisher always existed before its consumers and SUB links were established promptly); C03 gained the late publisher with a slow SUB connection - caught since',
    'C04_3': 'round 2; missed at first (the harness drove Filter.loop_once only, where the change has no effect); the specification gained Blocking filters (MQ applications calling recv()/send() with timeout = None: no STimeout, RTimeout stays inside recv, SBlockTick = time passing in poll(None)), the ghost C04_NoEarlyEvict and the design mutation stale_t; SimPipeline runs such applications on the real MQ; the TLC counterexample of stale_t is replayed on the real sender with its time-out evictions observed - caught since',
    'C04_4': 'round 2; missed at first (no non-balanced publisher bound to two addresses); C04 gained the TwoAddr stall scenario - caught since',
    'C05_3': 'round 2; missed at first; C05 gained the eph-first differential with a slow mixed consumer and a long stream (restricted to what each consumer gets from its synchronized sources) - caught since',
    'C05_4': 'round 2; missed at first (in the late-listener differential every other worker was faster than the listener, so the stream was over before the listener attached); C05 gained Balance2EphSlow2 (both workers slower than the listener), C04 the balanced-listener stall scenario, and the specification the design mutation bal_eph_reenables whose TLC counterexample is replayed by C04 - caught since',
    'C06_4': 'round 2; missed at first (no balanced topology in the fault enumeration); C06 gained kill/restart of a worker of a balanced splitter that is the bottleneck - caught since',
    'C07_3': 'round 2; missed at first (the balanced rejoin was always a sink); C07 gained Balance2Relay and a stored schedule - caught since',
    'C07_4': 'round 2; missed at first (no worker ever ended cleanly mid-stream); with exits now part of the specification C07 gained Balance3 with a worker ending cleanly and a stored schedule - caught since',
    'C08_4': 'round 2; missed at first (the virtual monotonic clock equalled the virtual wall clock); they now differ - caught since',
    'C18_4': 'round 2; missed at first (one run per emitter); the emitter probe now performs consecutive runs on one emitter - caught since',
    'C08_2': 'missed at first (the exiting filter always ended after the pipeline was connected); C08 gained the exit-in-setup variant of every uniform-policy propagation case (judged over the loss-free upstream direction) - caught since',
    'C18_1': 'missed at first (the harness replaced the emitter lock by a no-op and made check+emit of the heartbeat atomic); C18 gained the emitter-level lock-discipline probe (cooperative lock, emit() yields before the event leaves, random interleavings) - caught since',
    'C02_1': 'missed at first (no consumer ever joined late; C02_Payload did not compare the id a frame was published under with the id it was delivered as); C02 gained the JoinLate topology with a late-join fault and the id comparison - caught since',
    'C02_2': 'missed at first (no two topic names were prefixes of one another); C02 gained the PrefixTopics topology - caught since (C02_Hidden)',
    'C01_1': 'missed at first (single-topic branches only); C01 gained TeeRejoinMulti (topic set varying per id, varying topic published first, lost publishes) and the design mutation inval_complete_only - caught since',
    'C01_2': 'missed at first (every rejoin was a sink, so recv() never got a state); C01 gained TeeRejoinRelay and a stored schedule (spec/proto/schedules/C01_relay_rejoin_amnesia.json) - caught since',
    'C03_1': 'missed at first (no filter id was a prefix of another); C03 gained TeeNames with the shorter-named required consumer joining late - caught since',
    'C03_2': 'missed at first (no branch was ever completed by the topics message alone next to a slow branch); C03 gained TeeRejoinAbsent - caught since',
    'C07_2': 'missed at first (single-topic frames only); C07 gained Balance2Multi, the design mutation bal_unlock_on_enter and its TLC counterexample as a stored schedule - caught since (the rejoin dies of the duplicate-topic RuntimeError after mixing ids)',
    'C04_2': 'missed at first (no consumer listed an ephemeral source before a synchronized one); C04 gained the EphFirst stall scenario, C05 its conformance replay - caught since',
    'C17_1': 'missed at first (the hazardous (side, bound) pairs were outside the enumerated and sampled domains); C17 gained the float-hazard pair family (vlib/c17.py gen_extra) - caught since',
    'C05_2': 'missed at first (no topology with a multi-topic ephemeral source next to another source); C05 gained the EphMulti topology (vlib/topos.py) in conformance and random runs - caught since (C05_EphComplete)',
    'C05_1': 'caught after simzmq learned blocking PUSH sends (no DONTWAIT: the caller blocks SNDTIMEO of virtual time) and the kill differential was run on the rejoin topology (C05_NoDelay)',
    'C04_1': 'missed at first (every producer in the stall scenarios was faster than the request interval, so requests never piled up); C04 gained the slow-producer stall scenario (spec: slow origins) - caught since',
    'C16_2': 'missed at first (every case used a fresh configuration file); C16 now rewrites ONE configuration file across cases, starting wide open - caught since',
}
rows = []
for d in sorted(glob.glob('/verif/seeded/C*_*')):
    n = os.path.basename(d)
    try:
        m = json.load(open(d + '/meta.json')); r = json.load(open(d + '/result.json'))
    except Exception:
        continue
    rows.append((n, m.get('summary', '')[:220].replace('\n', ' ').replace('|', '/'), m.get('needs', '')[:160].replace('\n', ' ').replace('|', '/'),
                 'yes' if r.get('caught') else 'NO', (r.get('check', {}).get('lines') or ['', ''])[1][:140].replace('|', '/') if len(r.get('check', {}).get('lines') or []) > 1 else '',
                 NOTES.get(n, '')))
with open('/verif/seeded/README.md', 'w') as fh:
    fh.write('# Seeded changes\n\nChanges to PlainsightAI/openfilter written by independent sub-agents that saw only the text of one property and worked in '
             'their own scratch worktree. Each was confirmed here in a fresh scratch worktree of /repo (`tools/seedtest.py`): the patch applies, '
             'the demonstration passes without it and fails with it, the related repository tests pass with it (each file in its own process and '
             'network namespace; a failure that passes when re-run alone counts as a load flake), and then the property\'s quick check was run '
             'against the patched tree (`VERIF_REPO=<worktree> ./check <Cxx>`). `result.json` holds what was run and observed.\n\n'
             '| id | change | needs | caught | first witness | note |\n|---|---|---|---|---|---|\n')
    for row in rows:
        fh.write('| ' + ' | '.join(row) + ' |\n')
print(len(rows), 'rows')

---------------------------- MODULE RollLogCover ----------------------------
(* spec -> code binding for C13 (DESIGN 3.2): RollLog plus a history variable `path` (the labels taken so far).
   In the model-checking configurations `path` is excluded from the fingerprint by VIEW, so the state space is that of
   RollLog; the ACTION_CONSTRAINT Emit prints, for every transition TLC generates, the label path that ends with this
   transition and the projection Obs of its target state - "one implementation test per model transition".
   In -simulate runs the same Emit prints every step of every sampled behaviour.  The harness (vlib/rolllog_harness.py)
   replays the maximal paths on real RollLog objects and compares Obs at every node. *)
EXTENDS RollLog
VARIABLE path

(* projection of a state into what can be read off the real objects and the real directory *)
Obs ==
  LET sc == ScanLF IN
  [fsz |-> fsz, tsz |-> tsz, clock |-> clock,
   dir |-> [i \in 1..Len(sc) |-> [ts |-> sc[i].ts, c |-> data[dir[sc[i].ts]]]],
   ev  |-> ev,
   wopen |-> wfile # 0, total |-> total,
   objs |-> [o \in Objs |->
              [lf |-> lf[o], ridx |-> ridx[o], open |-> rf[o].ino # 0, off |-> rf[o].off,
               linked |-> rf[o].ino # 0 /\ ridx[o] < Len(lf[o]) /\ dir[lf[o][ridx[o] + 1].ts] = rf[o].ino,
               closed |-> closed[o], pos |-> [k |-> pos[o].k, ts |-> pos[o].ts, off |-> pos[o].off]]]]

InitC == Init /\ path = << <<"init", W, fsz, tsz>> >>      \* the constructor arguments chosen by Init
NextC == \E l \in Labels : NextL(l) /\ path' = Append(path, <<l.a, l.o, l.x, l.y>>)
SpecC == InitC /\ [][NextC]_<<vars, path>>
Flags == [eo |-> StepExactlyOnce, bu |-> StepBudget, nk |-> StepNewestKept, no |-> StepNoOverwrite]
Emit  == PrintT(ToString(<<path', Obs', Flags>>))     \* Flags: the truth of the C13 step formulas on this transition
(* the same, restricted to histories whose roll-overs go to strictly newer names (used to exhibit the deviations that
   have nothing to do with timestamps on their own) *)
MonoNames == ev'.newts # 0 => ev'.newts > maxused
NextM == \E l \in Labels : NextL(l) /\ MonoNames /\ path' = Append(path, <<l.a, l.o, l.x, l.y>>)
SpecM == InitC /\ [][NextM]_<<vars, path>>
=============================================================================

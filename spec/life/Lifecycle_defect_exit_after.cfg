CONSTANTS
  Defects = {"exit_after_time_module"}
  K = 1
  PropSet = {"all"}
  ObeySet = {"all"}
  EASet = {"none", "secs", "ms", "at"}
  WithInterrupt = FALSE
  EarlyExit = TRUE
  Emit = FALSE
INIT Init
NEXT Next
INVARIANT C08_ExitAfter

\* expected counterexample: with the deviation "ipc_name_clash" in force EverySourceBound fails (two filters bind ipc://Util)
CONSTANTS
  Sizes = {1, 2, 3}
  IpcModes = {TRUE}
  Names = {"VideoIn", "Util"}
  GivenIds = {}
  NumIds = {}
  SrcForms = {"absent", "ref"}
  RefSuffixes = {""}
  AddrSuffixes = {""}
  UriSuffixes = {""}
  SrcHosts = {"localhost"}
  SrcPorts = {5552}
  OutForms = {"absent", "ipc"}
  OutHosts = {"127.0.0.1"}
  Ports = {5552}
  IpcNames = {"Util"}
  Extras = {""}
  Defects = {"assign_empty_ignored", "ipc_name_clash"}
INIT Init
NEXT Next
INVARIANT AsIsEverySourceBound

SPECIFICATION HSpec
CONSTANTS
  Readers = {"r1"}
  AutoRef = {"r1"}
  Sizes = {1, 2}
  FileSizes = {1, 2, 4}
  TotalSizes = {8}
  MaxWrites = 4
  MaxTs = 1
  MaxDeletes = 2
  MaxReopens = 0
  MaxPosOps = 1
  Active = {"r1"}
  Bin = FALSE
  Acts = {"write", "read", "delete", "delete_up", "refresh", "readblock"}
  Defects = {}
  MaxCrashes = 2
  MaxSaves = 2
VIEW allview
INVARIANT TypeOK
INVARIANT C14_HeadNeverCorrupt
INVARIANT C14_SavedNotAhead
PROPERTY C14_RestartsFromSavedPos
PROPERTY C14_NoSkip
PROPERTY C14_BoundedReplay

CONSTANTS
  Defects = {}
  Mode = "proto"
  MaxMaps = 1
  MaxOpts = 1
  MaxEntries = 4
  WsLevel = 1
INIT Init
NEXT Next
INVARIANT InvProtoEq
INVARIANT InvProtoIdem

CONSTANTS
  Defects = {}
  Mode = "topics"
  MaxMaps = 2
  MaxOpts = 1
  MaxEntries = 2
  WsLevel = 1
INIT Init
NEXT Next
INVARIANT InvValid
INVARIANT InvRT_Topics

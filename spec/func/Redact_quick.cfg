CONSTANTS
  Defects = {}
  MaxDepth = 2
  Classes = {"Filter", "VideoIn", "VideoOut", "ImageIn", "ImageOut", "MQTTOut", "Recorder", "REST", "Util", "Webvis"}
  SchemeClasses = {"rtsp", "https", "exotic"}
  CharClasses = {"plain", "bang", "mixed", "long"}
INIT Init
NEXT Next
INVARIANT TypeOK
INVARIANT NoCleartextAtSink

"""C07 - load balancing: one branch per frame, ordered duplicate-free rejoin.

Specification: spec/proto/OFP.tla: balanced SendMaybe publishes on exactly one bound output (ChooseOut: eligible output
with the smallest maximum prev_id), bal marker on the wire, first hop never prefetches (RFinal), balanced receiver locks
out the sibling sources while a set is being assembled (ProcMsg / Consume).  Formulas C07_OneBranch (every publish of a
balanced publisher is on one output), C07_Rejoin (ids strictly increasing, no frame twice), C01_SameId at the rejoin.
"""
from . import common, topos
from .common import Report
from .protocheck import Engine, replay_witness

PROPS = ('C07_OneBranch', 'C07_Rejoin', 'C01_SameId', 'NoCrash')
INV = ('C07', 'C01', 'NoCrash')


def scenarios(quick):
    T = topos
    slow1 = T.balance2(maxseq=3)
    slow1.filters['W1']['beh']['slow'] = True
    slow1.name = 'Balance2Slow1'
    slow1b = T.balance2(maxseq=5)
    slow1b.filters['W1']['beh']['slow'] = True
    slow1b.name = 'Balance2Slow1'
    return dict(
        mc=[(T.balance2(maxseq=1), 'SpecZL', {}),
            (T.balance2(maxseq=2), 'SpecZL', {})] +
           ([] if quick else [(T.balance2(maxseq=3), 'SpecZL', {}), (T.balance2(maxseq=1), 'SpecPrompt', {}),
                              (T.balance2_watch(maxseq=2), 'SpecZL', {})]),
        mut=[(T.balance2(maxseq=2), 'SpecZL', ['bal_all_pubs'], {})],
        conf=[(T.balance2(maxseq=3), 'SpecPrompt', 10 if quick else 120, 250),
              (slow1, 'SpecPrompt', 8 if quick else 100, 300),
              (T.balance2_watch(maxseq=3), 'SpecPrompt', 6 if quick else 80, 250),
              (T.balance2_multi(maxseq=3), 'Spec', 8 if quick else 100, 300),
              (T.balance2_relay(maxseq=4), 'SpecPrompt', 6 if quick else 80, 300),
              (T.blocking(T.balance2(maxseq=3)), 'SpecPrompt', 6 if quick else 80, 250),
              (T.with_exit(T.balance3(maxseq=4), 'W3', 1, 'clean', prop=(), obey=()), 'SpecPrompt', 6 if quick else 80, 350)],
        rand=[(T.balance2(maxseq=6), 8 if quick else 150, 1200, 0.03),
              (slow1b, 8 if quick else 150, 1500, 0.03),
              (T.balance3(maxseq=6), 8 if quick else 150, 1800, 0.03),
              (T.balance2_watch(maxseq=5), 6 if quick else 100, 1200, 0.05),
              (T.balance2_multi(maxseq=6), 12 if quick else 200, 1500, 0.08),
              # the rejoin is a relay that does not forward every frame (recv() alternates between a state and None)
              (T.balance2_relay(maxseq=8), 12 if quick else 200, 1500, 0.03),
              # a worker ends cleanly in the middle of the stream (CLOSE reaches the rejoin while siblings' frames are pending)
              (T.with_exit(T.balance3(maxseq=8), 'W3', 2, 'clean', prop=(), obey=()), 12 if quick else 200, 2000, 0.03),
              (T.with_exit(T.balance3(maxseq=8), 'W1', 3, 'clean', prop=(), obey=()), 8 if quick else 150, 2000, 0.03)],
    )


def run(ctx):
    rep = Report(ctx)
    rep.rule = ('case = one execution of the real balanced pipeline (splitter with balanced outputs, 2-3 workers of equal or '
                'unequal speed, balanced-sources rejoin, optional ?? watcher) under one schedule; non-trivial = at least one frame '
                'set handed to a process()')
    rep.assumptions = ['simulated ZeroMQ', 'completeness at the rejoin is not promised (a slow worker\'s overtaken frames may be dropped)']
    eng = Engine(ctx, rep, PROPS)
    sc = scenarios(ctx.quick)
    for topo, spec, bounds in sc['mc']:
        eng.model_check(topo, spec, invariants=INV, bounds=bounds, timeout=900 if ctx.quick else 3000)
    for topo, spec, muts, bounds in sc['mut']:
        eng.mutation_schedules(topo, spec, muts, invariant='C07', bounds=bounds, timeout=150 if ctx.quick else 900)
    eng.stored_schedules('C07_')
    # a worker leaves while its request is queued: the splitter publishes on the endpoint chosen before the CLOSE (stale `outputs`)
    eng.reach(topos.with_exit(topos.balance2(maxseq=2), 'W2', 1, 'clean', prop=(), obey=()), 'SpecPrompt', 'X_NoStaleEndpoint',
              timeout=600)
    if not ctx.quick:
        eng.reach(topos.with_exit(topos.balance3(maxseq=2), 'W3', 1, 'clean', prop=(), obey=()), 'SpecPrompt',
                  'X_NoStaleEndpoint', timeout=1800)
    for topo, spec, num, depth in sc['conf']:
        eng.conformance(topo, spec, num, depth)
    eng.cover(topos.balance2(maxseq=0), 'SpecZL', max_paths=150 if ctx.quick else None)
    for topo, n, steps, pt in sc['rand']:
        eng.random_runs(topo, n, steps, p_timeout=pt, tag='rand', validate=3 if ctx.quick else 25)
    return rep.finish()


def replay(ctx):
    return replay_witness(ctx, PROPS)

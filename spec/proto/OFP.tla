-------------------------------- MODULE OFP --------------------------------
(* OpenFilter request/publish protocol: ZMQSender.send / ZMQReceiver.recv (openfilter/filter_runtime/zeromq.py),
   MQ.send / MQ.recv (mq.py) and Filter.loop_once (filter.py), composed over a constant pipeline topology, with the
   network (PUB->SUB links with prefix subscriptions, slow joiner, high-water mark; PUSH->PULL pipes), faults
   (loss, kill / restart, stall) and the properties C01-C07 of /verif/properties.jsonl.

   ATOMICITY.  A filter is single threaded; sends never block (PUB drops, PUSH uses DONTWAIT); the only points at which
   other processes can observably interleave are the poller.poll() calls (and sleep()).  Hence: ONE ACTION PER
   poll()-TO-poll() BLOCK.  Pieces of straight-line code that are clearer as separate actions (REnter, Proc, Gen, SEnter)
   are "internal": they have priority in Next, which makes them atomic with their predecessor.

   NAMING.  A connection c = <<f, i>> is source number i of consumer f; PubOf(c) is its publisher, OutOf(c) the index
   of the publisher's bound output it connects to.  zeromq.py line numbers refer to the pinned commit.

   DEVIATIONS.  `Defects` switches the places where the code, as found, deviates from the intended design:
     "C01a"  process_msg: a NEWER id arriving at a source whose buffer is empty (subscribe-all / '*') is adopted without
             invalidating the sibling sources (zeromq.py:812-813 returns False even when msg_id > min_recv_id)
     "C01b"  min_recv_id is a local of recv(); Filter.loop_once calls recv() in 100 ms slices, so an id adopted in one
             slice is forgotten by the next while the adopted set stays buffered (zeromq.py:743)
   With Defects = {} the specification is the intended design.

   DESIGN MUTATIONS.  The same constant also switches on named *design mutations* (D(x) below): realistic wrong designs
   (the "must catch" lists of DESIGN.md section 5).  They are never part of a conformance run; TLC is asked for the
   shortest behaviour on which a mutated design violates a property, and that behaviour is replayed as a *schedule* on
   the real code under the property observers: the unchanged code passes, an implementation that has the bug fails.
     "no_inval" "partial_ok" "no_old_recv" "le_old" "no_old_send" "no_clear_req" "eph_in_dosend" "eph_ffwd"
     "no_rerequest" "bal_all_pubs" "no_required" "prefetch_first_hop" "no_unregister" "id_not_carried" "hello_counts"
     "inval_complete_only" "C01b_state" "bal_unlock_on_enter" "bal_eph_reenables" "stale_t" "ll_prev_stale" "lazy_none_keeps_state" "track_wait" "no_expire"
   and the switch "stale_kept": recv() keeps the frames buffered under an older id when it is entered with a newer expected id
   (the code before its repair, see known_findings.json) *)
EXTENDS Integers, Sequences, FiniteSets, TLC

CONSTANTS
  Filters,     \* set of filter names (strings)
  Srcs,        \* [Filters -> Seq([pub, out, eph, all, star, tmap])]  sources of each filter
  NOut,        \* [Filters -> Nat]   number of bound outputs (0: sink)
  OutBal,      \* [Filters -> BOOLEAN]  outputs_balance
  SrcBal,      \* [Filters -> BOOLEAN]  sources_balance
  Required,    \* [Filters -> SUBSET Filters]  outputs_required (client ids)
  Beh,         \* [Filters -> [kind, tseq, skip, slow, lazy, ren, hid, lowlat]]  behaviour of process()
  FIdx,        \* [Filters -> 1..7]  digit used in path codes
  MaxSeq,      \* origins generate frames 0..MaxSeq
  ConnTicks,   \* ZMQ_CONN_TIMEOUT / ZMQ_POLL_TIMEOUT
  PubHWM,      \* ZMQ_PUB_HWM (messages per subscriber pipe)
  SubHWM,      \* 0: no flow control - what is in flight towards a subscriber and what sits unread at it are bounded together by
               \*    PubHWM (the single bound the other configurations use);
               \* n > 0: the subscriber's own pipe holds n messages; when it is full the link delivers nothing more (back pressure of
               \*    the transport) and the publisher's pipe fills up to PubHWM, where further messages for that subscriber are dropped
  PushHWM,     \* ZMQ_PUSH_HWM
  Handshake,   \* ZMQ_CONN_HANDSHAKE
  Defects,     \* subset of {"C01a", "C01b"}
  MaxFaults,   \* bound on Kill / Stall / Drop actions in a behaviour
  FaultKinds,  \* subset of {"kill", "stall", "drop"}
  Victims,     \* filters that may be killed / stalled
  ExitAt,      \* [Filters -> Int]  the filter ends itself in the first process() call that sees original frame ExitAt or a later one (-1: never)
  ExitKind,    \* [Filters -> {"clean", "error"}]  by exit() or by raising
  PropExit,    \* [Filters -> SUBSET {"clean", "error"}]  prop_exit policy: which kinds of its own ending it announces
  ObeyExit,    \* [Filters -> SUBSET {"clean", "error"}]  obey_exit policy: which announced kinds make it end too
  SrcTimeout,  \* [Filters -> Nat]  sources_timeout in poll intervals (0 = none): after that long without a complete set
               \* Filter.loop_once calls process() with {} and sends what it returns (filter.py:865-873)
  Blocking,    \* subset of Filters: applications that drive MQ.recv() / MQ.send() with timeout = None (no 100 ms slices)
  CheckC03,    \* evaluate C03 (meaningful only without faults, with the handshake on and required outputs declared)
  TopicOrder   \* sequence of all topic names: the dict order in which a frame set is published

D(x)    == x \in Defects
HTopic  == "_filter"                    \* hidden topic added by MQ when outputs_filter is on (mq.py:176)
NoPay   == <<-1, -1, -1>>
NoE     == <<-9, NoPay, -9>>            \* "None" entry of a recvd map: <<mid, pay, publisher incarnation>>
NoneSt  == -9
EmptyF  == <<>>
Dom(f)  == DOMAIN f
Hidden(t) == t = HTopic

Conns      == UNION {{<<f, i>> : i \in 1..Len(Srcs[f])} : f \in Filters}
Src(c)     == Srcs[c[1]][c[2]]
PubOf(c)   == Src(c).pub
OutOf(c)   == Src(c).out
Eph(c)     == Src(c).eph
ConnsOf(g) == {c \in Conns : PubOf(c) = g}
NSrc(f)    == Len(Srcs[f])
IsOrigin(f) == NSrc(f) = 0
SyncSrcs(f) == {i \in 1..NSrc(f) : Srcs[f][i].eph = 0}
Explicit(c) == ~Src(c).all /\ ~Src(c).star
SubTopics(c) == {p[1] : p \in Src(c).tmap}                      \* explicitly subscribed source topics
MapTopic(c, t) == IF \E p \in Src(c).tmap : p[1] = t THEN (CHOOSE p \in Src(c).tmap : p[1] = t)[2] ELSE t

(* process() as a function (used by the Proc action and by the C03 reference) *)
OTopics(f, q) == Beh[f].tseq[(q % Len(Beh[f].tseq)) + 1]
Via(f, p) == IF p = NoPay THEN NoPay ELSE <<p[1], p[2], p[3] * 8 + FIdx[f]>>
Ren(f, t) == IF \E p \in Beh[f].ren : p[1] = t THEN (CHOOSE p \in Beh[f].ren : p[1] = t)[2] ELSE t

\* topic -> pay as process() sees it: entries merged through each source's topic map
Seen(f, data) ==
  LET keys == {MapTopic(<<f, x[1]>>, x[2]) : x \in Dom(data)}
  IN [t \in keys |-> data[CHOOSE x \in Dom(data) : MapTopic(<<f, x[1]>>, x[2]) = t][2]]
KeyQ(seen) == LET qs == {seen[t][2] : t \in {u \in Dom(seen) : seen[u] # NoPay}}
              IN IF qs = {} THEN -1 ELSE CHOOSE q \in qs : \A r \in qs : q <= r

\* the process() function of filter f on the topic -> pay map it is handed: None (skip / sink) or the output map
ProcFn(f, seen) ==
  LET outT == {t \in Dom(seen) : ~Hidden(t)}
  IN [none   |-> NOut[f] = 0 \/ KeyQ(seen) \in Beh[f].skip,
      frames |-> [t \in {Ren(f, u) : u \in outT} |-> Via(f, seen[CHOOSE u \in outT : Ren(f, u) = t])]]


VARIABLES
  pc,        \* [Filters -> control point]
  minSend,   \* ZMQSender.min_send_id
  clients,   \* ZMQSender.clients: [Filters -> Seq([c, inc, req, eph, prev, age])] in dict insertion order
  sl,        \* locals of the running send(): [mid, bal, doSend, doHello, outs (balanced: the client list `outputs` was computed from)]
  prevId,    \* ZMQReceiver.prev_id
  rmin,      \* local min_recv_id of the running recv()
  rbal,      \* local `balanced` of the running recv()
  rsrc,      \* [Filters -> Seq([conn, reg, some, e, emin])]  ZMQReceiver.Sender objects
  mq,        \* [Filters -> [ss, sbal, rs, frames, has, inp]]  MQ.send_state / recv_state, frames in hand
  oseq,      \* origin frame counter (survives restarts: a camera keeps counting)
  pubq, subq,      \* per connection: published messages in flight / arrived at the SUB socket
  reqq, pullq,     \* requests in flight per connection / arrived per (publisher, output)
  linkUp,    \* PUB->SUB link established
  inc,       \* incarnation number of each filter (ghost: distinguishes restarts)
  stalled,   \* filters that currently take no steps
  nfaults,
  \* ---- observation (ghost) variables: never read by the protocol actions ------------------------------------
  plog,      \* [Filters -> set of [i, mid, ts]]   what each publisher published: incarnation, id, topic -> pay
  dlast,     \* [Filters -> [id, inc]] last delivered id per consumer incarnation
  ndeliv,    \* [Filters -> Nat] number of sets handed to process()
  lastD,     \* [Filters -> delivered set] the set most recently handed to process(): <<i, t>> -> entry
  ahead,     \* [Conns -> Nat] publishes that include c since c stalled
  bad,       \* set of violated property names (history flag: {} on every behaviour that satisfies C01..C07)
  lbl        \* label of the last step (for replay; hidden by VIEW in exhaustive runs)

pvars == <<pc, minSend, clients, sl, prevId, rmin, rbal, rsrc, mq, oseq, pubq, subq, reqq, pullq, linkUp, inc,
           stalled, nfaults>>
gvars == <<plog, dlast, ndeliv, lastD, ahead, bad>>
vars  == <<pvars, gvars, lbl>>
view  == <<pvars, gvars>>
pvars_ns == <<pc, minSend, clients, sl, prevId, rmin, rbal, rsrc, mq, oseq, pubq, subq, reqq, pullq, linkUp, inc>>

-----------------------------------------------------------------------------
(* Initial per-filter state (also the state after a restart) *)
InitRecvd(c) == IF Explicit(c) THEN [some |-> TRUE,  e |-> [t \in SubTopics(c) |-> NoE]]
                               ELSE [some |-> FALSE, e |-> EmptyF]
InitSrc(c, conn) == [conn |-> conn, reg |-> TRUE, emin |-> 0] @@ InitRecvd(c)
InitSrcs(f) == [i \in 1..NSrc(f) |-> InitSrc(<<f, i>>, FALSE)]
InitMQ      == [ss |-> NoneSt, sbal |-> 0, rs |-> NoneSt, frames |-> EmptyF, has |-> FALSE, inp |-> EmptyF, tw |-> 0, ln |-> FALSE]
\* ln: what process() returned is a callable that will yield None when the sender evaluates it (a relay with Beh.lazy on a skipped id)
\* tw: recv() slices of the current loop_once that timed out (counted only when the filter has a sources_timeout)
InitSL      == [mid |-> 0, bal |-> 0, doSend |-> FALSE, doHello |-> FALSE, outs |-> <<>>, waited |-> 0]
\* waited: ZMQ_POLL_TIMEOUT ticks spent in this send() call; only kept by the design mutation "stale_t" (one clock read per call)
StartPC(f)  == IF IsOrigin(f) THEN "gen" ELSE "r_enter"

Init ==
  /\ pc      = [f \in Filters |-> StartPC(f)]
  /\ minSend = [f \in Filters |-> 0]
  /\ clients = [f \in Filters |-> <<>>]
  /\ sl      = [f \in Filters |-> InitSL]
  /\ prevId  = [f \in Filters |-> -1]
  /\ rmin    = [f \in Filters |-> 0]
  /\ rbal    = [f \in Filters |-> 0]
  /\ rsrc    = [f \in Filters |-> InitSrcs(f)]
  /\ mq      = [f \in Filters |-> InitMQ]
  /\ oseq    = [f \in Filters |-> 0]
  /\ pubq    = [c \in Conns |-> <<>>]
  /\ subq    = [c \in Conns |-> <<>>]
  /\ reqq    = [c \in Conns |-> <<>>]
  /\ pullq   = [f \in Filters |-> [o \in 1..NOut[f] |-> <<>>]]
  /\ linkUp  = [c \in Conns |-> FALSE]
  /\ inc     = [f \in Filters |-> 0]
  /\ stalled = {}
  /\ nfaults = 0
  /\ plog    = [f \in Filters |-> {}]
  /\ dlast   = [f \in Filters |-> -1]
  /\ ndeliv  = [f \in Filters |-> 0]
  /\ lastD   = [f \in Filters |-> EmptyF]
  /\ ahead   = [c \in Conns |-> 0]
  /\ bad     = {}
  /\ lbl     = <<"init", "", 0>>

Alive(f) == pc[f] \notin {"dead", "done"}
Closing(f) == pc[f] \in {"x_close1", "x_close2", "done"}
SubOpen(f) == pc[f] \notin {"dead", "done", "x_close2"}      \* the SUB / PUSH sockets of f exist
Runs(f)  == Alive(f) /\ f \notin stalled

-----------------------------------------------------------------------------
(* Network.  zmq PUB/SUB: a message reaches subscriber c iff the link is established and the first frame starts with
   one of c's subscription prefixes (zeromq.py:558-574):  None -> '/', '*' -> '', explicit -> '//' + '/t/' or '_t/'.
   Control messages (topics, hello, close, oob) are published under '//' and therefore reach every subscriber. *)
Matches(c, m) == \/ m.k # "data"
                 \/ Src(c).star
                 \/ Src(c).all /\ ~Hidden(m.topic)
                 \/ Explicit(c) /\ m.topic \in SubTopics(c)

\* publish msgs on the given outputs of g: appended to every established matching link below the high-water mark
RECURSIVE PubSeq(_, _, _)
PubSeq(c, msgs, q) ==      \* q = <<in flight, arrived count>>; one message at a time because the HWM is per message
  IF msgs = <<>> THEN q
  ELSE LET m == Head(msgs)
           q1 == IF Matches(c, m) /\ Len(q[1]) + (IF SubHWM = 0 THEN q[2] ELSE 0) < PubHWM THEN <<Append(q[1], m), q[2]>> ELSE q
       IN PubSeq(c, Tail(msgs), q1)

PubAll(g, outs, msgs, pq) ==
  [c \in Conns |-> IF PubOf(c) = g /\ OutOf(c) \in outs /\ linkUp[c] /\ SubOpen(c[1])
                   THEN PubSeq(c, msgs, <<pq[c], Len(subq[c])>>)[1]
                   ELSE pq[c]]

HelloMsg(g) == [k |-> "hello", mid |-> -4, topic |-> "", topics |-> {}, pay |-> NoPay, bal |-> 0, inc |-> inc[g]]
OobMsg(g, kind) == [k |-> "oob", mid |-> -2, topic |-> kind, topics |-> {}, pay |-> NoPay, bal |-> 0, inc |-> inc[g]]
CloseMsg(g) == [k |-> "close", mid |-> -3, topic |-> "", topics |-> {}, pay |-> NoPay, bal |-> 0, inc |-> inc[g]]
AllOuts(g) == 1..NOut[g]
TermPub(f, kind, pq) == IF kind \in PropExit[f] /\ NOut[f] > 0 THEN PubAll(f, AllOuts(f), <<OobMsg(f, kind)>>, pq) ELSE pq

Establish(c) == /\ ~linkUp[c] /\ SubOpen(c[1]) /\ Alive(PubOf(c))
                /\ linkUp' = [linkUp EXCEPT ![c] = TRUE]
                /\ lbl' = <<"est", c[1], c[2]>>
                /\ UNCHANGED <<pc, minSend, clients, sl, prevId, rmin, rbal, rsrc, mq, oseq, pubq, subq, reqq, pullq,
                               inc, stalled, nfaults, gvars>>

SubRoom(c) == SubHWM = 0 \/ Len(subq[c]) < SubHWM
DeliverPub(c) == /\ pubq[c] # <<>> /\ SubOpen(c[1]) /\ SubRoom(c)
                 /\ subq' = [subq EXCEPT ![c] = Append(@, Head(pubq[c]))]
                 /\ pubq' = [pubq EXCEPT ![c] = Tail(@)]
                 /\ lbl' = <<"dpub", c[1], c[2]>>
                 /\ UNCHANGED <<pc, minSend, clients, sl, prevId, rmin, rbal, rsrc, mq, oseq, reqq, pullq, linkUp,
                                inc, stalled, nfaults, gvars>>

\* (with flow control the PULL side of a request pipe holds PushHWM requests as well: a publisher that does not read them makes
\*  the consumer's pipe fill up, and its send_push() then fails with zmq.Again)
PullRoom(c) == SubHWM = 0 \/ Len(pullq[PubOf(c)][OutOf(c)]) < PushHWM
DeliverReq(c) == /\ reqq[c] # <<>> /\ Alive(PubOf(c)) /\ PullRoom(c)
                 /\ pullq' = [pullq EXCEPT ![PubOf(c)][OutOf(c)] = Append(@, Head(reqq[c]))]
                 /\ reqq' = [reqq EXCEPT ![c] = Tail(@)]
                 /\ lbl' = <<"dreq", c[1], c[2]>>
                 /\ UNCHANGED <<pc, minSend, clients, sl, prevId, rmin, rbal, rsrc, mq, oseq, pubq, subq, linkUp,
                                inc, stalled, nfaults, gvars>>

DropPub(c) == /\ "drop" \in FaultKinds /\ nfaults < MaxFaults
              /\ pubq[c] # <<>>
              /\ pubq' = [pubq EXCEPT ![c] = Tail(@)]
              /\ nfaults' = nfaults + 1
              /\ lbl' = <<"drop", c[1], c[2]>>
              /\ UNCHANGED <<pc, minSend, clients, sl, prevId, rmin, rbal, rsrc, mq, oseq, subq, reqq, pullq, linkUp,
                             inc, stalled, gvars>>

-----------------------------------------------------------------------------
(* Receiver: ZMQReceiver.recv (zeromq.py:715-948) *)

\* request(prev_id) (zeromq.py:894-908): one request per source; '??' sources have no PUSH socket; a full pipe raises
\* zmq.Again which only marks the source disconnected (send_push, zeromq.py:616-627)
ReqMsg(f, c, mid, srcs) == [c |-> c, inc |-> inc[f], mid |-> mid, eph |-> Eph(c), new |-> ~srcs[c[2]].conn, k |-> "req", x |-> ""]
OobReq(f, c, kind)   == [c |-> c, inc |-> inc[f], mid |-> -2, eph |-> 0, new |-> FALSE, k |-> "oob", x |-> kind]
CloseReq(f, c)       == [c |-> c, inc |-> inc[f], mid |-> -3, eph |-> 0, new |-> FALSE, k |-> "close", x |-> ""]
\* the high-water mark is per PUSH socket: requests still in flight from an earlier incarnation of f do not count
Pending(f, c, q) == Len(SelectSeq(q[c], LAMBDA m : m.inc = inc[f]))
Request(f, mid, srcs, q) ==
  [c \in Conns |-> IF c[1] = f /\ Eph(c) < 2 /\ Pending(f, c, q) < PushHWM
                   THEN Append(q[c], ReqMsg(f, c, mid, srcs)) ELSE q[c]]
ReqConn(f, srcs, q) ==    \* effect of zmq.Again on sender.conn
  [i \in 1..Len(srcs) |-> IF Eph(<<f, i>>) < 2 /\ Pending(f, <<f, i>>, q) >= PushHWM
                          THEN [srcs[i] EXCEPT !.conn = FALSE] ELSE srcs[i]]

(* A filter ends (Filter.run, filter.py:1166-1215): shutdown(), then the exit message if the policy says so
   (MQ.send_exit_msg: receiver.send_oob to every source with a request pipe, sender.send_oob on every output), then
   fini() -> MQ.destroy(): receiver.destroy() sends CLOSE on the request pipes and sleeps ZMQ_EXPLICIT_LINGER (a yield),
   closes its sockets; then sender.destroy() publishes CLOSE, sleeps (a yield), closes.  kind = "clean" | "error". *)
TermReq(f, kind, q) ==
  [c \in Conns |->
     IF c[1] = f /\ Eph(c) < 2
     THEN LET q1 == IF kind \in PropExit[f] /\ Pending(f, c, q) < PushHWM THEN Append(q[c], OobReq(f, c, kind)) ELSE q[c]
              n1 == Len(SelectSeq(q1, LAMBDA m : m.inc = inc[f]))
          IN IF n1 < PushHWM THEN Append(q1, CloseReq(f, c)) ELSE q1
     ELSE q[c]]

\* the protocol-visible part of ending, conjoined by the action in which the ending is triggered (q, pq: the request / publish
\* queues after that action's own effects); everything up to the first sleep() of MQ.destroy() happens in the same step
Terminate(f, kind, q, pq) ==
  /\ reqq' = TermReq(f, kind, q)
  /\ IF NSrc(f) > 0
     THEN /\ pubq' = TermPub(f, kind, pq)
          /\ pc' = [pc EXCEPT ![f] = "x_close1"]
     ELSE /\ pubq' = PubAll(f, AllOuts(f), <<CloseMsg(f)>>, TermPub(f, kind, pq))
          /\ pc' = [pc EXCEPT ![f] = "x_close2"]

Got(s) == IF ~s.some THEN "none"
          ELSE IF \A t \in Dom(s.e) : s.e[t] # NoE THEN "all"
          ELSE IF D("partial_ok") /\ \E t \in Dom(s.e) : s.e[t] # NoE THEN "all"
          ELSE IF \A t \in Dom(s.e) : s.e[t] = NoE THEN "none" ELSE "some"
GotAll(s) == Got(s) = "all"

\* init_recvd (zeromq.py:526, 565): subscribe-all excludes hidden topics, '*' includes everything
InitFrom(c, m, ent) ==
  [t \in (IF Src(c).star THEN m.topics ELSE {x \in m.topics : ~Hidden(x)}) |-> IF t = m.topic THEN ent ELSE NoE]
\* Sender.new_recv(msg, topic, topics) (zeromq.py:596-614)
NewFrom(c, m, ent) ==
  IF ~Explicit(c) THEN InitFrom(c, m, ent)
  ELSE [t \in SubTopics(c) |-> IF t = m.topic THEN ent ELSE NoE]      \* topic = '' fills nothing

(* One published message m on source i of receiver f; st = [min, bal, srcs].  process_msg + what follows it in
   recv_once (zeromq.py:758-865). *)
ProcMsg(f, i, m, st) ==
  LET c     == <<f, i>>
      eph   == Eph(c) > 0
      s1    == [st.srcs[i] EXCEPT !.conn = TRUE]                         \* zeromq.py:773-776
      srcs1 == [st.srcs EXCEPT ![i] = s1]
      ent   == <<m.mid, m.pay, m.inc>>
      mbal  == IF eph THEN 0 ELSE m.bal                                  \* zeromq.py:770
      bal1  == IF mbal > 0 THEN mbal ELSE st.bal
      minU  == IF eph THEN s1.emin ELSE st.min                           \* the id this source compares against
      \* drop subscribed topics that the publisher does not have (zeromq.py:857-862), unregister if complete (864)
      After(s) ==
         LET s2 == IF Explicit(c) /\ s.some /\ (Dom(s.e) \ m.topics) # {}
                      /\ (~eph \/ (Dom(s.e) \cap m.topics) # {})
                   THEN [s EXCEPT !.e = [t \in (Dom(s.e) \cap m.topics) |-> s.e[t]]] ELSE s
         IN IF GotAll(s2) /\ ~D("no_unregister") THEN [s2 EXCEPT !.reg = FALSE] ELSE s2
      \* invalidate the other synchronized sources (zeromq.py:839-845) / lock them out when balancing (849-855)
      Others(s, inval) ==
         [j \in 1..Len(st.srcs) |->
            IF j = i THEN s
            ELSE IF inval /\ ~SrcBal[f] /\ Eph(<<f, j>>) = 0 /\ (~D("inval_complete_only") \/ GotAll(srcs1[j]))
                 THEN [InitSrc(<<f, j>>, srcs1[j].conn) EXCEPT !.emin = srcs1[j].emin]
            ELSE IF ~eph /\ SrcBal[f] /\ m.topic # "" THEN [srcs1[j] EXCEPT !.reg = FALSE]
            ELSE srcs1[j]]
      Done(s, inval) ==
         [x |-> "", min |-> IF eph THEN st.min ELSE m.mid, bal |-> bal1,
          srcs |-> Others(After(IF eph THEN [s EXCEPT !.emin = m.mid] ELSE s), inval)]
  IN CASE m.k = "close" -> [min |-> st.min, bal |-> st.bal, x |-> "",            \* zeromq.py:791-797
                            srcs |-> [srcs1 EXCEPT ![i] = [s1 EXCEPT !.emin = 0, !.conn = FALSE]]]
       [] m.k = "hello" -> [min |-> st.min, bal |-> st.bal, srcs |-> srcs1, x |-> ""]
       \* out-of-band = exit message of a neighbour (zeromq.py:788-789 -> Filter.init.on_exit_msg): obeyed or ignored
       [] m.k = "oob" -> [min |-> st.min, bal |-> st.bal, srcs |-> srcs1, x |-> IF m.topic \in ObeyExit[f] THEN m.topic ELSE ""]
       [] OTHER ->
          IF (m.mid < minU /\ ~D("no_old_recv")) \/ (D("le_old") /\ m.mid <= minU /\ s1.some)
          THEN [min |-> st.min, bal |-> bal1, srcs |-> srcs1, x |-> ""]          \* older: discard (806-810)
          ELSE IF ~s1.some                                                       \* recvd is None (812-813)
               THEN Done([s1 EXCEPT !.some = TRUE, !.e = InitFrom(c, m, ent)],
                         "C01a" \notin Defects /\ m.mid > minU /\ ~eph)
          ELSE IF m.mid = minU                                                   \* 815-817
               THEN Done(IF m.topic # "" /\ m.k = "data"
                         THEN [s1 EXCEPT !.e = [t \in Dom(s1.e) \cup {m.topic} |-> IF t = m.topic THEN ent ELSE s1.e[t]]]
                         ELSE s1, FALSE)
          ELSE Done([s1 EXCEPT !.some = TRUE, !.e = NewFrom(c, m, ent)], ~eph /\ ~D("no_inval"))   \* newer (819-822)

\* one message from every ready registered source, last registered first (socks.pop(), zeromq.py:753); in balanced
\* mode a data message forces a re-poll (socks = None, zeromq.py:855)
RECURSIVE Consume(_, _, _, _, _)
Consume(f, i, st, q, ready) ==
  IF i = 0 THEN [st |-> st, q |-> q]
  ELSE IF i \in ready /\ q[<<f, i>>] # <<>>
       THEN LET m  == Head(q[<<f, i>>])
                r  == ProcMsg(f, i, m, st)
                q1 == [q EXCEPT ![<<f, i>>] = Tail(@)]
            IN IF r.x # "" THEN [st |-> r, q |-> q1]          \* exit() raised inside recv(): the rest of the batch is not read
               ELSE IF SrcBal[f] /\ m.k = "data" /\ Eph(<<f, i>>) = 0 /\ m.mid >= st.min
               THEN [st |-> r, q |-> q1]
               ELSE Consume(f, i - 1, r, q1, ready)
       ELSE Consume(f, i - 1, st, q, ready)

Ready(f) == {i \in 1..NSrc(f) : rsrc[f][i].reg /\ subq[<<f, i>>] # <<>>}

\* return condition of recv_once (zeromq.py:871-889), scanning the sources in order with the code's early breaks
RECURSIVE Scan(_, _, _, _)
Scan(f, srcs, j, acc) ==      \* acc = [sync, complete, partial]
  IF j > Len(srcs) THEN acc
  ELSE LET g == Got(srcs[j])
       IN IF g = "all" THEN Scan(f, srcs, j + 1, [acc EXCEPT !.complete = TRUE])
          ELSE IF g # "none" THEN [acc EXCEPT !.partial = TRUE]
          ELSE IF Eph(<<f, j>>) = 0 /\ ~SrcBal[f] THEN [acc EXCEPT !.sync = FALSE]
          ELSE Scan(f, srcs, j + 1, acc)
Complete(f, srcs) ==
  LET a == Scan(f, srcs, 1, [sync |-> TRUE, complete |-> FALSE, partial |-> FALSE])
  IN a.sync /\ a.complete /\ ~a.partial

\* recv() entry (zeromq.py:740-746, 910): min_recv_id from the state handed over by MQ, park at recv_once(0)'s poll
REnter(f) ==
  /\ pc[f] = "r_enter"
  /\ LET base == IF mq[f].rs = NoneSt THEN prevId[f] + 1 ELSE mq[f].rs
         amnesia == D("C01b") \/ (D("C01b_state") /\ mq[f].rs # NoneSt)
     IN rmin' = [rmin EXCEPT ![f] = IF ~amnesia /\ rmin[f] > base THEN rmin[f] ELSE base]
  /\ rbal' = [rbal EXCEPT ![f] = 0]
  /\ rsrc' = IF D("bal_unlock_on_enter") /\ SrcBal[f]      \* mutation: every incomplete source is put back into the poller
             THEN [rsrc EXCEPT ![f] = [i \in 1..NSrc(f) |-> IF GotAll(rsrc[f][i]) THEN rsrc[f][i] ELSE [rsrc[f][i] EXCEPT !.reg = TRUE]]]
             \* the id expected now is past the one the frames buffered by a timed-out recv() carry (sends made without input
             \* after sources_timeout advanced it): they are dropped, every source is polled again (ZMQReceiver.new_recv)
             ELSE IF ~D("stale_kept") /\ (IF mq[f].rs = NoneSt THEN prevId[f] + 1 ELSE mq[f].rs) > rmin[f]
                     /\ \E i \in SyncSrcs(f) : Got(rsrc[f][i]) # "none"
             THEN [rsrc EXCEPT ![f] = [i \in 1..NSrc(f) |-> [InitSrc(<<f, i>>, rsrc[f][i].conn) EXCEPT !.emin = rsrc[f][i].emin]]]
             ELSE rsrc
  /\ pc' = [pc EXCEPT ![f] = "r_poll0"]
  /\ lbl' = <<"int", f, 0>>
  /\ UNCHANGED <<minSend, clients, sl, prevId, mq, oseq, pubq, subq, reqq, pullq, linkUp, inc, stalled, nfaults,
                 gvars>>

\* resume from poll() inside recv_once with messages available
RPollMsgs(f, phase) ==
  /\ pc[f] = phase
  /\ Ready(f) # {}
  /\ LET r == Consume(f, NSrc(f), [min |-> rmin[f], bal |-> rbal[f], srcs |-> rsrc[f], x |-> ""], subq, Ready(f))
     IN /\ rmin' = [rmin EXCEPT ![f] = r.st.min]
        /\ rbal' = [rbal EXCEPT ![f] = r.st.bal]
        /\ rsrc' = [rsrc EXCEPT ![f] = r.st.srcs]
        /\ subq' = r.q
        /\ IF r.st.x # ""               \* an obeyed exit message: exit() raised inside recv(), the filter ends
           THEN Terminate(f, r.st.x, reqq, pubq)
           ELSE /\ pc' = [pc EXCEPT ![f] = IF Complete(f, r.st.srcs)
                                           THEN (IF phase = "r_poll0" THEN "r_fin0" ELSE "r_finw") ELSE phase]
                /\ UNCHANGED <<pubq, reqq>>
  /\ lbl' = <<"step", f, 0>>
  /\ UNCHANGED <<minSend, clients, sl, prevId, mq, oseq, pullq, linkUp, inc, stalled, nfaults, gvars>>

\* recv_once(0) finds nothing: first request of the slice, park at poll(ZMQ_POLL_TIMEOUT)  (zeromq.py:939-948)
RPoll0Empty(f) ==
  /\ pc[f] = "r_poll0"
  /\ Ready(f) = {}
  /\ reqq' = Request(f, rmin[f] - 1, rsrc[f], reqq)
  /\ rsrc' = [rsrc EXCEPT ![f] = ReqConn(f, rsrc[f], reqq)]
  /\ pc' = [pc EXCEPT ![f] = "r_wait"]
  /\ lbl' = <<"step", f, 0>>
  /\ UNCHANGED <<minSend, clients, sl, prevId, rmin, rbal, mq, oseq, pubq, subq, pullq, linkUp, inc, stalled, nfaults,
                 gvars>>

(* Ageing: a poll/sleep timeout of filter g lets ZMQ_POLL_TIMEOUT of g's time pass; a client whose last request is
   older than ZMQ_CONN_TIMEOUT is dropped the next time a request is handled (zeromq.py:387-396). *)
Aged(cl) == IF ConnTicks = 0 THEN cl     \* ConnTicks = 0: connections never time out (expiry not modelled)
            ELSE [n \in 1..Len(cl) |-> [cl[n] EXCEPT !.age = IF @ > ConnTicks THEN @ ELSE @ + 1,
                                                       !.sil = IF @ > ConnTicks THEN @ ELSE @ + 1]]
\* age = now - t_last as the sender computes it; sil (ghost) = time since the client's last request.  They differ only under
\* the design mutation "stale_t".

\* poll(100) times out: second request of the slice with the possibly adopted id, recv returns None, loop_once calls again.
\* With timeout = None (zeromq.py:944-945) recv() does not return: it requests again and polls for another ZMQ_POLL_TIMEOUT.
RTimeout(f) ==
  /\ pc[f] = "r_wait"
  /\ Ready(f) = {}
  /\ reqq' = IF D("no_rerequest") THEN reqq ELSE Request(f, rmin[f] - 1, rsrc[f], reqq)
  /\ rsrc' = [rsrc EXCEPT ![f] = ReqConn(f, rsrc[f], reqq)]
  /\ clients' = [clients EXCEPT ![f] = Aged(@)]
  /\ LET giveUp == SrcTimeout[f] > 0 /\ f \notin Blocking /\ mq[f].tw + 1 >= SrcTimeout[f]
     IN IF giveUp    \* loop_once stops waiting: process({}) (no state from recv: the sender numbers what it returns itself)
        THEN /\ pc' = [pc EXCEPT ![f] = "proc"]
             /\ mq' = [mq EXCEPT ![f].inp = EmptyF, ![f].has = TRUE, ![f].ss = NoneSt, ![f].sbal = 0, ![f].tw = 0]
        ELSE /\ pc' = [pc EXCEPT ![f] = IF f \in Blocking THEN "r_wait" ELSE "r_enter"]
             /\ mq' = IF SrcTimeout[f] > 0 THEN [mq EXCEPT ![f].tw = @ + 1] ELSE mq
  /\ lbl' = <<"timeout", f, 0>>
  /\ UNCHANGED <<minSend, sl, prevId, rmin, rbal, oseq, pubq, subq, pullq, linkUp, inc, stalled, nfaults, gvars>>

(* ---- C03: what every filter must see = functional composition of the upstream process() functions.
   Message ids are carried from input to output (MQ.send_state), so the frames of different sources pair up by id.
   OutById(g): id -> topic -> pay published by g in a fault-free run; InById(f): id -> topic -> pay handed to f. *)
RECURSIVE OutById(_), InById(_)
SeenFrom(f, i, ts) ==      \* what source i contributes to process()'s map from the published map ts
  LET sub == IF Src(<<f, i>>).star THEN Dom(ts) ELSE IF Src(<<f, i>>).all THEN {t \in Dom(ts) : ~Hidden(t)}
             ELSE Dom(ts) \cap SubTopics(<<f, i>>)
  IN [t \in {MapTopic(<<f, i>>, u) : u \in sub} |-> ts[CHOOSE u \in sub : MapTopic(<<f, i>>, u) = t]]
InById(f) ==
  LET sy  == SyncSrcs(f)
      ids == {n \in 0..MaxSeq : \A i \in sy : n \in Dom(OutById(Srcs[f][i].pub))}
      Merge(n) == LET parts == [i \in sy |-> SeenFrom(f, i, OutById(Srcs[f][i].pub)[n])]
                      keys  == UNION {Dom(parts[i]) : i \in sy}
                  IN [t \in keys |-> parts[CHOOSE i \in sy : t \in Dom(parts[i])][t]]
  IN [n \in ids |-> Merge(n)]
OutById(g) ==
  IF IsOrigin(g)
  THEN [n \in 0..MaxSeq |-> LET fr == [t \in OTopics(g, n) |-> <<FIdx[g], n, 0>>]
                            IN IF Beh[g].hid THEN fr @@ [t \in {HTopic} |-> NoPay] ELSE fr]
  ELSE LET inb == InById(g)
           ok  == {n \in Dom(inb) : ~ProcFn(g, inb[n]).none}
       IN [n \in ok |-> LET fr == ProcFn(g, inb[n]).frames
                        IN IF Beh[g].hid THEN fr @@ [t \in {HTopic} |-> NoPay] ELSE fr]
\* the n-th (1-based) expected input of f, in id order
ExpIds(f) == Dom(InById(f))
NthId(S, n) == CHOOSE x \in S : Cardinality({y \in S : y < x}) = n - 1
C03Applies(f) == SyncSrcs(f) = 1..NSrc(f) /\ NSrc(f) > 0 /\ ~SrcBal[f]

(* ---- observation of a delivery: the formulas of C01 / C02 / C05(iv) / C07 evaluated on the set being returned ---- *)
PLog(g, i, mid) == {r \in plog[g] : r.i = i /\ r.mid = mid}
Subscribed(c, ts) == IF Src(c).star THEN ts ELSE IF Src(c).all THEN {t \in ts : ~Hidden(t)} ELSE ts \cap SubTopics(c)

DeliveryFaults(f, srcs, newid) ==
  LET full == {i \in 1..Len(srcs) : Got(srcs[i]) = "all"}     \* an ephemeral source may contribute nothing
      sync == {i \in full : Eph(<<f, i>>) = 0}
      Ents(i) == {srcs[i].e[t] : t \in Dom(srcs[i].e)}
      ids  == UNION {{e[1] : e \in Ents(i)} : i \in sync}
      Exact(i) ==       \* source i holds exactly the subscribed topics its publisher published under that id
         LET g == PubOf(<<f, i>>)
             es == Ents(i)
         IN \/ /\ es = {}      \* empty complete set: some publish of that id must have had no subscribed topic
               /\ \E r \in plog[g] : r.mid = newid /\ Subscribed(<<f, i>>, Dom(r.ts)) = {}
            \/ /\ Cardinality({<<e[1], e[3]>> : e \in es}) = 1
               /\ LET e0 == CHOOSE e \in es : TRUE
                      pl == PLog(g, e0[3], e0[1])
                  IN /\ pl # {}
                     /\ LET ts == (CHOOSE r \in pl : TRUE).ts
                        IN /\ Dom(srcs[i].e) = Subscribed(<<f, i>>, Dom(ts))
                           /\ \A t \in Dom(srcs[i].e) : srcs[i].e[t][2] = ts[t]
      origs == UNION {{<<e[2][1], e[2][2]>> : e \in {x \in Ents(i) : x[2] # NoPay}} : i \in sync}
  IN  (IF Cardinality(ids) > 1 THEN {"C01_SameId"} ELSE {})
      \cup (IF \E i \in sync : ~Exact(i) THEN {"C01_ExactTopics"} ELSE {})
      \cup (IF \E a, b \in origs : a[1] = b[1] /\ a[2] # b[2] THEN {"C01_SameOrigin"} ELSE {})
      \cup (IF sync # {} /\ ~SrcBal[f] /\ newid <= dlast[f] THEN {"C02_Order"} ELSE {})
      \cup (IF SrcBal[f] /\ newid <= dlast[f] THEN {"C07_Rejoin"} ELSE {})
      \cup (IF \E i \in full \ sync : ~Exact(i) THEN {"C05_EphComplete"} ELSE {})
      \cup (IF \E i \in full : \E t \in Dom(srcs[i].e) : t \notin Subscribed(<<f, i>>, Dom(srcs[i].e)) THEN {"C02_Hidden"} ELSE {})

Pairs(srcs) == UNION {{<<i, t>> : t \in {u \in Dom(srcs[i].e) : srcs[i].e[u] # NoE}} : i \in {j \in 1..Len(srcs) : srcs[j].some}}

\* the trailing poll(0) after a complete set (zeromq.py:889), then the return path (915-937)
RFinal(f, phase, back) ==
  /\ pc[f] = phase
  /\ IF Ready(f) # {}
     THEN /\ pc' = [pc EXCEPT ![f] = back]
          /\ lbl' = <<"step", f, 0>>
          /\ UNCHANGED <<minSend, clients, sl, prevId, rmin, rbal, rsrc, mq, oseq, pubq, subq, reqq, pullq, linkUp,
                         inc, stalled, nfaults, gvars>>
     ELSE LET srcs == rsrc[f]
              data == [x \in Pairs(srcs) |-> srcs[x[1]].e[x[2]]]
              pre  == ~Beh[f].lowlat /\ (rbal[f] # 1 \/ D("prefetch_first_hop"))                  \* prefetch (zeromq.py:916-917)
              dup  == \E x, y \in Pairs(srcs) : x # y /\ MapTopic(<<f, x[1]>>, x[2]) = MapTopic(<<f, y[1]>>, y[2])
          IN /\ reqq' = IF pre THEN Request(f, rmin[f], srcs, reqq) ELSE reqq
             /\ prevId' = [prevId EXCEPT ![f] = IF D("ll_prev_stale") /\ Beh[f].lowlat THEN @ ELSE rmin[f]]
             /\ rsrc' = [rsrc EXCEPT ![f] = [i \in 1..NSrc(f) |->
                            [InitSrc(<<f, i>>, (IF pre THEN ReqConn(f, srcs, reqq) ELSE srcs)[i].conn)
                               EXCEPT !.emin = srcs[i].emin]]]
             /\ mq' = [mq EXCEPT ![f].ss = IF D("id_not_carried") THEN NoneSt ELSE rmin[f], ![f].sbal = rbal[f], ![f].rs = NoneSt,
                                 ![f].inp = data, ![f].has = TRUE, ![f].tw = 0]
             /\ pc' = [pc EXCEPT ![f] = IF dup THEN "crashed" ELSE "proc"]        \* duplicate topic: RuntimeError (928)
             /\ bad' = bad \cup DeliveryFaults(f, srcs, rmin[f]) \cup
                        (IF CheckC03 /\ C03Applies(f) /\
                            ~(/\ ndeliv[f] < Cardinality(ExpIds(f))
                              /\ LET n == NthId(ExpIds(f), ndeliv[f] + 1)
                                 IN rmin[f] = n /\ Seen(f, data) = InById(f)[n])
                         THEN {"C03_Prefix"} ELSE {})
             /\ dlast' = [dlast EXCEPT ![f] = rmin[f]]
             /\ ndeliv' = [ndeliv EXCEPT ![f] = @ + 1]
             /\ lastD' = [lastD EXCEPT ![f] = data]
             /\ lbl' = <<"step", f, 1>>
             /\ UNCHANGED <<minSend, clients, sl, rmin, rbal, oseq, pubq, subq, pullq, linkUp, inc, stalled, nfaults,
                            plog, ahead>>

-----------------------------------------------------------------------------
(* Filter.process_frames + MQ.send entry (filter.py:838-883, mq.py:141-198) *)
Proc(f) ==
  /\ pc[f] = "proc"
  /\ LET r == ProcFn(f, Seen(f, mq[f].inp))
     IN IF ExitAt[f] >= 0 /\ KeyQ(Seen(f, mq[f].inp)) >= ExitAt[f]
        THEN \* process() calls exit() / raises: the filter ends (the frames in hand are dropped)
             /\ mq' = [mq EXCEPT ![f].has = FALSE, ![f].inp = EmptyF, ![f].frames = EmptyF]
             /\ Terminate(f, ExitKind[f], reqq, pubq)
        ELSE IF r.none /\ NOut[f] > 0 /\ Beh[f].lazy
        THEN \* process() returned a callable that yields None: it is evaluated when the sender is ready to publish (mq.py:165-171)
             /\ mq' = [mq EXCEPT ![f].inp = EmptyF, ![f].frames = EmptyF, ![f].ln = TRUE]
             /\ pc' = [pc EXCEPT ![f] = IF Beh[f].slow THEN "work_s" ELSE "s_enter"]
        ELSE IF r.none
        THEN \* sink, or process() returned None: MQ.send(None) returns True at once (mq.py:183-187)
             /\ mq' = [mq EXCEPT ![f].has = FALSE, ![f].inp = EmptyF, ![f].frames = EmptyF]
             /\ pc' = [pc EXCEPT ![f] = IF Beh[f].slow THEN "work_r" ELSE "r_enter"]
        ELSE /\ mq' = [mq EXCEPT ![f].inp = EmptyF, ![f].frames = r.frames]
             /\ pc' = [pc EXCEPT ![f] = IF Beh[f].slow THEN "work_s" ELSE "s_enter"]
  /\ IF ExitAt[f] >= 0 /\ KeyQ(Seen(f, mq[f].inp)) >= ExitAt[f] THEN TRUE ELSE UNCHANGED <<pubq, reqq>>
  /\ lbl' = <<"int", f, 0>>
  /\ UNCHANGED <<minSend, clients, sl, prevId, rmin, rbal, rsrc, oseq, subq, pullq, linkUp, inc, stalled,
                 nfaults, gvars>>

\* process() takes (virtual) time: the filter yields in sleep(); a timeout-kind step ends it
WorkDone(f) ==
  /\ pc[f] \in {"work_r", "work_s"}
  /\ pc' = [pc EXCEPT ![f] = IF pc[f] = "work_r" THEN "r_enter" ELSE "s_enter"]
  /\ clients' = [clients EXCEPT ![f] = Aged(@)]
  /\ lbl' = <<"timeout", f, 0>>
  /\ UNCHANGED <<minSend, sl, prevId, rmin, rbal, rsrc, mq, oseq, pubq, subq, reqq, pullq, linkUp, inc, stalled,
                 nfaults, gvars>>

GenExit(f) ==           \* the origin ends itself instead of producing frame ExitAt
  /\ pc[f] = "gen"
  /\ oseq[f] <= MaxSeq /\ ExitAt[f] >= 0 /\ oseq[f] = ExitAt[f] /\ inc[f] = 0      \* (a source started again goes on)
  /\ Terminate(f, ExitKind[f], reqq, pubq)
  /\ lbl' = <<"int", f, 0>>
  /\ UNCHANGED <<minSend, clients, sl, prevId, rmin, rbal, rsrc, mq, oseq, subq, pullq, linkUp, inc, stalled,
                 nfaults, gvars>>

Gen(f) ==
  /\ pc[f] = "gen"
  /\ oseq[f] <= MaxSeq /\ ~(ExitAt[f] >= 0 /\ oseq[f] = ExitAt[f] /\ inc[f] = 0)
  /\ IF Beh[f].lazy
     THEN mq' = [mq EXCEPT ![f].frames = EmptyF, ![f].has = TRUE]       \* a callable: evaluated inside send_maybe
     ELSE /\ mq' = [mq EXCEPT ![f].frames = [t \in OTopics(f, oseq[f]) |-> <<FIdx[f], oseq[f], 0>>], ![f].has = TRUE]
  /\ oseq' = IF Beh[f].lazy THEN oseq ELSE [oseq EXCEPT ![f] = @ + 1]
  /\ pc' = [pc EXCEPT ![f] = IF Beh[f].slow /\ ~Beh[f].lazy THEN "work_s" ELSE "s_enter"]    \* a slow producer
  /\ lbl' = <<"int", f, 0>>
  /\ UNCHANGED <<minSend, clients, sl, prevId, rmin, rbal, rsrc, pubq, subq, reqq, pullq, linkUp, inc, stalled,
                 nfaults, gvars>>

AfterSend(f) == IF IsOrigin(f) THEN "gen" ELSE "r_enter"

-----------------------------------------------------------------------------
(* Sender: ZMQSender.send (zeromq.py:266-509) *)

\* send() entry (304-320): stale-id discard, locals reset, park at the drain loop's poll_recv(0)
SEnter(f) ==
  /\ pc[f] = "s_enter"
  /\ LET mid == IF mq[f].ss = NoneSt THEN minSend[f] ELSE mq[f].ss
     IN IF mq[f].ss # NoneSt /\ mq[f].ss < minSend[f] /\ ~D("no_old_send")
        THEN \* discard: returns ZMQStateRecv(min_send_id) at once (309-310); MQ.send stores it (mq.py:192-193)
             /\ mq' = [mq EXCEPT ![f].rs = minSend[f], ![f].ss = NoneSt, ![f].has = FALSE, ![f].frames = EmptyF]
             /\ pc' = [pc EXCEPT ![f] = AfterSend(f)]
             /\ UNCHANGED sl
        ELSE /\ sl' = [sl EXCEPT ![f] = [InitSL EXCEPT !.mid = mid, !.bal = IF mq[f].ss = NoneSt THEN 0 ELSE mq[f].sbal]]
             /\ pc' = [pc EXCEPT ![f] = "s_drain"]
             /\ UNCHANGED mq
  /\ lbl' = <<"int", f, 0>>
  /\ UNCHANGED <<minSend, clients, prevId, rmin, rbal, rsrc, oseq, pubq, subq, reqq, pullq, linkUp, inc, stalled,
                 nfaults, gvars>>

CIdx(cl, c, i) == {n \in 1..Len(cl) : cl[n].c = c /\ cl[n].inc = i}
HasClient(cl, c, i) == CIdx(cl, c, i) # {}
PutClient(cl, r) == IF HasClient(cl, r.c, r.inc)
                    THEN [n \in 1..Len(cl) |-> IF cl[n].c = r.c /\ cl[n].inc = r.inc THEN r ELSE cl[n]]
                    ELSE Append(cl, r)
DelClient(cl, c, i) == SelectSeq(cl, LAMBDA r : ~(r.c = c /\ r.inc = i))
ExpireW(cl, w) == IF ConnTicks = 0 \/ D("no_expire") THEN cl ELSE SelectSeq(cl, LAMBDA r : r.age - w <= ConnTicks)
Expire(cl) == ExpireW(cl, 0)
EarlyEvict(cl, w) == ConnTicks > 0 /\ \E n \in 1..Len(cl) : cl[n].age - w > ConnTicks /\ cl[n].sil <= ConnTicks

\* do_send / outputs recomputation (zeromq.py:387-412) over the client list after expiry
OutStat(cl, o) ==      \* (output do_send, # requested, max prev_id) of bound output o, None if it has no client
  LET ns == {n \in 1..Len(cl) : OutOf(cl[n].c) = o}
  IN [has |-> ns # {},
      ok  |-> IF D("bal_eph_reenables")       \* the fold (acc /\ req) \/ eph in client order: a listener after a worker re-enables
              THEN \E k \in ns \cup {0} : (k = 0 \/ cl[k].eph > 0) /\ \A n \in ns : n > k => cl[n].req
              ELSE \A n \in ns : cl[n].req \/ cl[n].eph > 0,
      nreq |-> Cardinality({n \in ns : cl[n].req}),
      prev |-> IF ns = {} THEN -1 ELSE CHOOSE p \in {cl[n].prev : n \in ns} \cup {-1} :
                                          \A n \in ns : cl[n].prev <= p]
Eligible(g, cl) == {o \in 1..NOut[g] : OutStat(cl, o).has /\ OutStat(cl, o).ok /\ OutStat(cl, o).nreq > 0}
DoSend(g, cl) ==
  /\ D("no_required") \/ Required[g] \subseteq {cl[n].c[1] : n \in 1..Len(cl)}
  /\ IF OutBal[g] THEN Eligible(g, cl) # {}
     ELSE \A n \in 1..Len(cl) : cl[n].req \/ (cl[n].eph > 0 /\ ~D("eph_in_dosend"))

\* first output in dict order of `outputs` (order of first client per pull) with the smallest max prev_id (443-448)
FirstPos(cl, o) == CHOOSE n \in 1..Len(cl) : OutOf(cl[n].c) = o /\ \A k \in 1..(n - 1) : OutOf(cl[k].c) # o
ChooseOut(g, cl) ==
  LET el == Eligible(g, cl)
      mn == CHOOSE p \in {OutStat(cl, o).prev : o \in el} : \A o \in el : p <= OutStat(cl, o).prev
      cands == {o \in el : OutStat(cl, o).prev = mn}
  IN CHOOSE o \in cands : \A o2 \in cands : FirstPos(cl, o) <= FirstPos(cl, o2)


\* order in which topics are published: dict order of the frames = TopicOrder restricted to the set
SetSeq(S) == SelectSeq(TopicOrder, LAMBDA t : t \in S)

(* send_maybe (zeromq.py:416-486) followed by the code after it.  lc = locals, cl = clients; waitpc = where to park if
   nothing is sent. *)
SendMaybe(f, lc, cl, waitpc) ==
  LET \* (do_send / outputs are not recomputed after a CLOSE removed a client, zeromq.py:352-360: a balanced publisher chooses its
      \* endpoint from `outputs` as of the last request, lc.outs, even if the worker behind it has left since)
      canSend == lc.doSend /\ Len(cl) > 0
      ocl     == lc.outs
      lazyNone == mq[f].ln
  IN IF canSend /\ lazyNone
     THEN \* the callable yields None: "frames have been sent" (zeromq.py:424-426): nothing is published, no id is used up, no
          \* client is marked as served; MQ.send keeps no state for the next recv() (mq.py:192)
          /\ pubq' = IF lc.doHello THEN PubAll(f, AllOuts(f), <<HelloMsg(f)>>, pubq) ELSE pubq
          /\ sl' = [sl EXCEPT ![f] = [lc EXCEPT !.doHello = FALSE]]
          /\ clients' = [clients EXCEPT ![f] = cl]
          /\ mq' = [mq EXCEPT ![f].rs = IF D("lazy_none_keeps_state") THEN minSend[f] ELSE NoneSt, ![f].ss = NoneSt, ![f].has = FALSE,
                              ![f].frames = EmptyF, ![f].ln = FALSE]
          /\ pc' = [pc EXCEPT ![f] = AfterSend(f)]
          /\ UNCHANGED <<minSend, oseq, plog, ahead>>
     ELSE IF ~canSend
     THEN /\ pubq' = IF lc.doHello THEN PubAll(f, AllOuts(f), <<HelloMsg(f)>>, pubq) ELSE pubq
          /\ sl' = [sl EXCEPT ![f] = [lc EXCEPT !.doHello = FALSE]]
          /\ clients' = [clients EXCEPT ![f] = cl]
          /\ pc' = [pc EXCEPT ![f] = waitpc]
          /\ UNCHANGED <<minSend, mq, oseq, plog, ahead>>
     ELSE LET lazy   == IsOrigin(f) /\ Beh[f].lazy                      \* callable evaluated now (424-426, mq.py:165-179)
              frames0 == IF lazy THEN [t \in OTopics(f, oseq[f]) |-> <<FIdx[f], oseq[f], 0>>] ELSE mq[f].frames
              frames == IF Beh[f].hid THEN frames0 @@ [t \in {HTopic} |-> NoPay] ELSE frames0
              ts     == Dom(frames)
              ordT   == SetSeq(ts)
              out    == IF OutBal[f] /\ ~D("bal_all_pubs") THEN {ChooseOut(f, ocl)} ELSE AllOuts(f)
              balv   == IF OutBal[f] THEN 1 ELSE IF lc.bal > 0 THEN (IF lc.bal >= 3 THEN 3 ELSE lc.bal + 1) ELSE 0
              data   == [n \in 1..Len(ordT) |-> [k |-> "data", mid |-> lc.mid, topic |-> ordT[n], topics |-> ts,
                                                 pay |-> frames[ordT[n]], bal |-> balv, inc |-> inc[f]]]
              tmsg   == <<[k |-> "topics", mid |-> lc.mid, topic |-> "", topics |-> ts, pay |-> NoPay, bal |-> balv,
                           inc |-> inc[f]]>>
              hello  == IF lc.doHello /\ OutBal[f] THEN <<HelloMsg(f)>> ELSE <<>>
              pq1    == PubAll(f, AllOuts(f), hello, pubq)
              incl   == {n \in 1..Len(cl) : OutOf(cl[n].c) \in out}
          IN /\ pubq' = PubAll(f, out, data \o tmsg, pq1)
             /\ clients' = [clients EXCEPT ![f] = [n \in 1..Len(cl) |-> IF n \in incl /\ ~D("no_clear_req") THEN [cl[n] EXCEPT !.req = FALSE] ELSE cl[n]]]
             /\ minSend' = [minSend EXCEPT ![f] = lc.mid + 1]
             /\ sl' = [sl EXCEPT ![f] = [lc EXCEPT !.doHello = FALSE, !.outs = <<>>]]
             /\ mq' = [mq EXCEPT ![f].rs = lc.mid + 1, ![f].ss = NoneSt, ![f].has = FALSE, ![f].frames = EmptyF]
             /\ oseq' = IF lazy THEN [oseq EXCEPT ![f] = @ + 1] ELSE oseq
             /\ plog' = [plog EXCEPT ![f] = @ \cup {[i |-> inc[f], mid |-> lc.mid, ts |-> frames, outs |-> out]}]
             /\ ahead' = [c \in Conns |-> IF PubOf(c) = f /\ OutOf(c) \in out /\ c[1] \in stalled /\ Eph(c) = 0
                                             /\ \E n \in incl : cl[n].c = c
                                          THEN ahead[c] + 1 ELSE ahead[c]]
             /\ pc' = [pc EXCEPT ![f] = IF D("track_wait") THEN "s_track" ELSE AfterSend(f)]

\* lowest-index bound output with a pending request (socks[0], zeromq.py:331)
ReadyOut(f) == {o \in 1..NOut[f] : pullq[f][o] # <<>>}
FirstOut(f) == CHOOSE o \in ReadyOut(f) : \A o2 \in ReadyOut(f) : o <= o2

\* one poll_recv() resume with a request at the head of a PULL queue (zeromq.py:322-414)
ObeyedOob(f) == LET m == Head(pullq[f][FirstOut(f)]) IN m.k = "oob" /\ m.x \in ObeyExit[f]

\* an exit message from a consumer that this filter obeys (zeromq.py:346-350 -> on_exit_msg -> exit() raised inside send())
SPollOob(f, phase) ==
  /\ pc[f] = phase
  /\ ReadyOut(f) # {} /\ ObeyedOob(f)
  /\ LET o == FirstOut(f)
         m == Head(pullq[f][o])
     IN /\ pullq' = [pullq EXCEPT ![f][o] = Tail(@)]
        /\ mq' = [mq EXCEPT ![f].has = FALSE, ![f].frames = EmptyF]
        /\ Terminate(f, m.x, reqq, pubq)
  /\ lbl' = <<"step", f, 0>>
  /\ UNCHANGED <<minSend, clients, sl, prevId, rmin, rbal, rsrc, oseq, subq, linkUp, inc, stalled, nfaults, gvars>>

SPollMsg(f, phase) ==
  /\ pc[f] = phase
  /\ ReadyOut(f) # {} /\ ~ObeyedOob(f)
  /\ LET o  == FirstOut(f)
         m  == Head(pullq[f][o])
         c  == m.c
         cl == clients[f]
         lc == sl[f]
         waitph == phase \in {"s_wait", "s_wait_h"}
         drainpc == "s_drain"
     IN /\ pullq' = [pullq EXCEPT ![f][o] = Tail(@)]
        /\ CASE m.k = "close" ->                                         \* 352-360: forget the client, poll_recv returns True
                  IF waitph
                  THEN SendMaybe(f, lc, DelClient(cl, c, m.inc), "s_wait") /\ UNCHANGED <<bad>>
                  ELSE /\ clients' = [clients EXCEPT ![f] = DelClient(cl, c, m.inc)]
                       /\ pc' = [pc EXCEPT ![f] = drainpc]
                       /\ UNCHANGED <<sl, minSend, mq, pubq, oseq, plog, ahead, bad>>
             [] m.k = "oob" ->                                           \* 346-350 (exit messages: see Lifecycle spec)
                  IF waitph THEN SendMaybe(f, lc, cl, "s_wait") /\ UNCHANGED <<bad>>
                  ELSE /\ pc' = [pc EXCEPT ![f] = drainpc]
                       /\ UNCHANGED <<clients, sl, minSend, mq, pubq, oseq, plog, ahead, bad>>
             [] OTHER ->
                  IF ~HasClient(cl, c, m.inc) /\ Handshake /\ m.new /\ ~D("hello_counts")
                  THEN \* 362-371: soak up the new-connection request, poll again with timeout 0
                       /\ sl' = [sl EXCEPT ![f].doHello = TRUE]
                       /\ pc' = [pc EXCEPT ![f] = IF waitph THEN "s_wait_h" ELSE "s_drain_h"]
                       /\ UNCHANGED <<clients, minSend, mq, pubq, oseq, plog, ahead, bad>>
                  ELSE LET cl1 == PutClient(cl, [c |-> c, inc |-> m.inc, req |-> TRUE, eph |-> m.eph, prev |-> m.mid,
                                                 age |-> IF D("stale_t") THEN lc.waited ELSE 0, sil |-> 0])
                       IN IF m.mid >= lc.mid /\ (m.eph = 0 \/ D("eph_ffwd"))
                          THEN \* 379-385: downstream asks for a newer id: fast-forward, send() returns as if sent
                               /\ clients' = [clients EXCEPT ![f] = cl1]
                               /\ minSend' = [minSend EXCEPT ![f] = m.mid + 1]
                               /\ mq' = [mq EXCEPT ![f].rs = m.mid + 1, ![f].ss = NoneSt, ![f].has = FALSE, ![f].frames = EmptyF]
                               /\ pc' = [pc EXCEPT ![f] = AfterSend(f)]
                               /\ UNCHANGED <<sl, pubq, oseq, plog, ahead, bad>>
                          ELSE LET wt  == IF D("stale_t") THEN lc.waited ELSE 0
                                   cl2 == ExpireW(cl1, wt)                 \* 387-396
                                   lc1 == [lc EXCEPT !.doSend = DoSend(f, cl2), !.outs = IF OutBal[f] THEN cl2 ELSE <<>>]
                               IN /\ bad' = bad \cup
                                       (IF \E n \in 1..Len(cl2) : cl2[n].eph = 0 /\ ~cl2[n].req /\ lc1.doSend /\ ~OutBal[f]
                                        THEN {"C05_GuardSync"} ELSE {}) \cup
                                       (IF EarlyEvict(cl1, wt) THEN {"C04_EarlyEvict"} ELSE {})
                                  /\ IF waitph
                                     THEN SendMaybe(f, lc1, cl2, "s_wait")
                                     ELSE /\ clients' = [clients EXCEPT ![f] = cl2]
                                          /\ sl' = [sl EXCEPT ![f] = lc1]
                                          /\ pc' = [pc EXCEPT ![f] = drainpc]
                                          /\ UNCHANGED <<minSend, mq, pubq, oseq, plog, ahead>>
  /\ lbl' = <<"step", f, 0>>
  /\ UNCHANGED <<prevId, rmin, rbal, rsrc, subq, reqq, linkUp, inc, stalled, nfaults, dlast, ndeliv, lastD>>

\* design mutation "track_wait" ("zero-copy": the frames' buffers are handed to libzmq by reference and send() returns only when
\* libzmq is done with them - MessageTracker.wait()): the sender sits here until the data messages of the publish have left its pipes
Released(f) == \A c \in Conns : PubOf(c) = f =>
                 \A n \in 1..Len(pubq[c]) : ~(pubq[c][n].k = "data" /\ pubq[c][n].mid = minSend[f] - 1 /\ pubq[c][n].inc = inc[f])
STrack(f) ==
  /\ pc[f] = "s_track" /\ Released(f)
  /\ pc' = [pc EXCEPT ![f] = AfterSend(f)]
  /\ lbl' = <<"step", f, 0>>
  /\ UNCHANGED <<minSend, clients, sl, prevId, rmin, rbal, rsrc, mq, oseq, pubq, subq, reqq, pullq, linkUp, inc, stalled,
                 nfaults, gvars>>

\* poll(0) finds nothing
SPollEmpty(f) ==
  /\ pc[f] \in {"s_drain", "s_drain_h", "s_wait_h"}
  /\ ReadyOut(f) = {}
  /\ IF pc[f] = "s_drain_h"
     THEN /\ pc' = [pc EXCEPT ![f] = "s_drain"]      \* poll_recv returned True: the drain loop polls again
          /\ UNCHANGED <<minSend, clients, sl, mq, pubq, oseq, plog, ahead>>
     ELSE SendMaybe(f, sl[f], clients[f], "s_wait")  \* drain finished, or the soak in the wait loop finished
  /\ lbl' = <<"step", f, 0>>
  /\ UNCHANGED <<prevId, rmin, rbal, rsrc, subq, reqq, pullq, linkUp, inc, stalled, nfaults, dlast, ndeliv, lastD, bad>>

\* poll(remaining) in the wait loop times out: send returns None, MQ.send returns False, loop_once calls send again
STimeout(f) ==
  /\ pc[f] = "s_wait"
  /\ f \notin Blocking          \* send(timeout = None) waits in poll(None) until a request arrives (zeromq.py:497-500)
  /\ ReadyOut(f) = {}
  /\ pc' = [pc EXCEPT ![f] = "s_enter"]
  /\ clients' = [clients EXCEPT ![f] = Aged(@)]
  /\ lbl' = <<"timeout", f, 0>>
  /\ UNCHANGED <<minSend, sl, prevId, rmin, rbal, rsrc, mq, oseq, pubq, subq, reqq, pullq, linkUp, inc, stalled,
                 nfaults, gvars>>

\* send(timeout = None) stays in poll(None): ZMQ_POLL_TIMEOUT of the sender's time passes, nothing else happens
SBlockTick(f) ==
  /\ pc[f] = "s_wait"
  /\ f \in Blocking /\ ConnTicks > 0
  /\ ReadyOut(f) = {}
  /\ clients' = [clients EXCEPT ![f] = Aged(@)]
  /\ sl' = [sl EXCEPT ![f].waited = IF D("stale_t") /\ @ <= ConnTicks THEN @ + 1 ELSE @]
  /\ lbl' = <<"timeout", f, 0>>
  /\ UNCHANGED <<pc, minSend, prevId, rmin, rbal, rsrc, mq, oseq, pubq, subq, reqq, pullq, linkUp, inc, stalled,
                 nfaults, gvars>>

\* receiver.destroy(): the ZMQ_EXPLICIT_LINGER sleep is over, the SUB / PUSH sockets are closed; then sender.destroy() publishes
\* CLOSE and sleeps in turn
XClose1Done(f) ==
  /\ pc[f] = "x_close1"
  /\ subq' = [c \in Conns |-> IF c[1] = f THEN <<>> ELSE subq[c]]
  /\ linkUp' = [c \in Conns |-> IF c[1] = f THEN FALSE ELSE linkUp[c]]
  /\ LET pq == [c \in Conns |-> IF c[1] = f THEN <<>> ELSE pubq[c]]
     IN IF NOut[f] > 0
        THEN /\ pubq' = PubAll(f, AllOuts(f), <<CloseMsg(f)>>, pq)
             /\ pc' = [pc EXCEPT ![f] = "x_close2"]
        ELSE /\ pubq' = pq
             /\ pc' = [pc EXCEPT ![f] = "done"]
  /\ prevId' = [prevId EXCEPT ![f] = -1]          \* MQ.destroy drops the receiver object
  /\ lbl' = <<"timeout", f, 0>>
  /\ UNCHANGED <<minSend, clients, sl, rmin, rbal, rsrc, mq, oseq, reqq, pullq, inc, stalled, nfaults, gvars>>

\* the PUB / PULL sockets are closed: what was published is still delivered, nothing more is accepted
XClose2Done(f) ==
  /\ pc[f] = "x_close2"
  /\ pullq' = [pullq EXCEPT ![f] = [o \in 1..NOut[f] |-> <<>>]]
  /\ linkUp' = [c \in Conns |-> IF PubOf(c) = f THEN FALSE ELSE linkUp[c]]
  /\ pc' = [pc EXCEPT ![f] = "done"]
  /\ minSend' = [minSend EXCEPT ![f] = 0]        \* MQ.destroy drops the sender object
  /\ clients' = [clients EXCEPT ![f] = <<>>]
  /\ lbl' = <<"timeout", f, 0>>
  /\ UNCHANGED <<sl, prevId, rmin, rbal, rsrc, mq, oseq, pubq, subq, reqq, inc, stalled, nfaults, gvars>>

-----------------------------------------------------------------------------
(* Faults *)
\* process death: sockets vanish, nothing is said; what is already in flight towards others may arrive or not (keep)
Kill(f, keep) ==
  /\ "kill" \in FaultKinds /\ nfaults < MaxFaults /\ f \in Victims /\ Alive(f)
  /\ pc' = [pc EXCEPT ![f] = "dead"]
  /\ minSend' = [minSend EXCEPT ![f] = 0]
  /\ clients' = [clients EXCEPT ![f] = <<>>]
  /\ sl' = [sl EXCEPT ![f] = InitSL]
  /\ prevId' = [prevId EXCEPT ![f] = -1]
  /\ rmin' = [rmin EXCEPT ![f] = 0]
  /\ rbal' = [rbal EXCEPT ![f] = 0]
  /\ rsrc' = [rsrc EXCEPT ![f] = InitSrcs(f)]
  /\ mq' = [mq EXCEPT ![f] = InitMQ]
  /\ pubq' = [c \in Conns |-> IF c[1] = f \/ (PubOf(c) = f /\ ~keep) THEN <<>> ELSE pubq[c]]
  /\ subq' = [c \in Conns |-> IF c[1] = f THEN <<>> ELSE subq[c]]
  /\ reqq' = [c \in Conns |->
                IF c[1] = f /\ (~keep \/ ~Alive(PubOf(c))) THEN <<>>
                ELSE IF PubOf(c) = f          \* the pipe of a live consumer keeps its requests; older ones die with f
                     THEN SelectSeq(reqq[c], LAMBDA m : Alive(c[1]) /\ m.inc = inc[c[1]])
                ELSE reqq[c]]
  /\ pullq' = [pullq EXCEPT ![f] = [o \in 1..NOut[f] |-> <<>>]]
  /\ linkUp' = [c \in Conns |-> IF c[1] = f \/ PubOf(c) = f THEN FALSE ELSE linkUp[c]]
  /\ stalled' = stalled \ {f}
  /\ nfaults' = nfaults + 1
  /\ lbl' = <<"kill", f, IF keep THEN 1 ELSE 0>>
  \* an origin killed before it ever published a frame has not visibly produced anything: its stream starts over
  /\ oseq' = [oseq EXCEPT ![f] = IF IsOrigin(f) /\ plog[f] = {} THEN 0 ELSE @]
  /\ UNCHANGED <<inc, gvars>>

Restart(f) ==
  /\ pc[f] = "dead"
  /\ pc' = [pc EXCEPT ![f] = StartPC(f)]
  /\ inc' = [inc EXCEPT ![f] = @ + 1]
  /\ dlast' = [dlast EXCEPT ![f] = -1]
  /\ lbl' = <<"restart", f, 0>>
  /\ UNCHANGED <<minSend, clients, sl, prevId, rmin, rbal, rsrc, mq, oseq, pubq, subq, reqq, pullq, linkUp, stalled,
                 nfaults, plog, ndeliv, lastD, ahead, bad>>

\* a source that has ended (cleanly or by an error: CLOSE was published) is started again, e.g. by a supervisor: new objects on the
\* same addresses, its stream goes on
Again(f) ==
  /\ "again" \in FaultKinds /\ nfaults < MaxFaults /\ f \in Victims /\ IsOrigin(f)
  /\ pc[f] = "done"
  /\ pc' = [pc EXCEPT ![f] = StartPC(f)]
  /\ inc' = [inc EXCEPT ![f] = @ + 1]
  /\ sl' = [sl EXCEPT ![f] = InitSL]
  /\ mq' = [mq EXCEPT ![f] = InitMQ]
  /\ dlast' = [dlast EXCEPT ![f] = -1]
  /\ nfaults' = nfaults + 1
  /\ lbl' = <<"restart", f, 0>>
  /\ UNCHANGED <<minSend, clients, prevId, rmin, rbal, rsrc, oseq, pubq, subq, reqq, pullq, linkUp, stalled,
                 plog, ndeliv, lastD, ahead, bad>>

Stall(f) ==
  /\ "stall" \in FaultKinds /\ nfaults < MaxFaults /\ f \in Victims /\ Runs(f)
  /\ stalled' = stalled \cup {f}
  /\ nfaults' = nfaults + 1
  /\ ahead' = [c \in Conns |-> IF c[1] = f THEN 0 ELSE ahead[c]]
  /\ lbl' = <<"stall", f, 0>>
  /\ UNCHANGED <<pvars_ns, plog, dlast, ndeliv, lastD, bad>>

Resume(f) ==
  /\ f \in stalled
  /\ stalled' = stalled \ {f}
  /\ ahead' = [c \in Conns |-> IF c[1] = f THEN 0 ELSE ahead[c]]
  /\ lbl' = <<"resume", f, 0>>
  /\ UNCHANGED <<pvars_ns, nfaults, plog, dlast, ndeliv, lastD, bad>>

-----------------------------------------------------------------------------
Internal(p) == p \in {"r_enter", "proc", "s_enter", "gen"}
IntEnabled(f) == Runs(f) /\ Internal(pc[f]) /\ ~(pc[f] = "gen" /\ oseq[f] > MaxSeq)

IntStep(f) == Runs(f) /\ (REnter(f) \/ Proc(f) \/ Gen(f) \/ GenExit(f) \/ SEnter(f))

\* steps that resume a filter from poll() without a timeout
StepNT(f) ==
  /\ Runs(f)
  /\ \/ RPollMsgs(f, "r_poll0") \/ RPollMsgs(f, "r_wait") \/ RPoll0Empty(f)
     \/ RFinal(f, "r_fin0", "r_poll0") \/ RFinal(f, "r_finw", "r_wait")
     \/ SPollMsg(f, "s_drain") \/ SPollMsg(f, "s_drain_h") \/ SPollMsg(f, "s_wait") \/ SPollMsg(f, "s_wait_h")
     \/ SPollOob(f, "s_drain") \/ SPollOob(f, "s_drain_h") \/ SPollOob(f, "s_wait") \/ SPollOob(f, "s_wait_h")
     \/ SPollEmpty(f) \/ STrack(f)
StepTO(f) == Runs(f) /\ (RTimeout(f) \/ STimeout(f) \/ SBlockTick(f) \/ WorkDone(f) \/ XClose1Done(f) \/ XClose2Done(f))

Net    == \E c \in Conns : Establish(c) \/ DeliverPub(c) \/ DeliverReq(c)
Fault  == \/ \E c \in Conns : DropPub(c)
          \/ \E f \in Filters : Kill(f, TRUE) \/ Kill(f, FALSE) \/ Restart(f) \/ Again(f) \/ Stall(f) \/ Resume(f)

GInt == \E f \in Filters : IntEnabled(f)

(* Free interleaving: any delivery order, timeouts anywhere *)
Next == IF GInt THEN \E f \in Filters : IntStep(f)
        ELSE (\E f \in Filters : StepNT(f) \/ StepTO(f)) \/ Net \/ Fault
Spec == Init /\ [][Next]_vars

(* Prompt scheduling: message latency and compute time are far below the poll interval, so a poll timeout fires only
   when nothing else can happen ("delays below the request interval, runnable filters run promptly"). *)
NetEnabled == \E c \in Conns : \/ ~linkUp[c] /\ SubOpen(c[1]) /\ Alive(PubOf(c))
                               \/ pubq[c] # <<>> /\ SubOpen(c[1]) /\ SubRoom(c)
                               \/ reqq[c] # <<>> /\ Alive(PubOf(c)) /\ PullRoom(c)
FilterReady(f) == /\ Runs(f)
                  /\ \/ pc[f] \in {"r_poll0", "r_fin0", "r_finw", "s_drain", "s_drain_h", "s_wait_h"}
                     \/ pc[f] = "r_wait" /\ Ready(f) # {}
                     \/ pc[f] = "s_wait" /\ ReadyOut(f) # {}
                     \/ pc[f] = "s_track" /\ Released(f)
GBusy == NetEnabled \/ \E f \in Filters : FilterReady(f)
NextPrompt ==
  IF GInt THEN \E f \in Filters : IntStep(f)
  ELSE \/ Fault
       \/ IF GBusy THEN (\E f \in Filters : StepNT(f)) \/ Net
          ELSE \E f \in Filters : StepTO(f)
SpecPrompt == Init /\ [][NextPrompt]_vars

(* Zero latency: a published message or request arrives before anything else happens *)
NextZL ==
  IF GInt THEN \E f \in Filters : IntStep(f)
  ELSE \/ Fault
       \/ IF NetEnabled THEN Net
          ELSE IF \E f \in Filters : FilterReady(f) THEN \E f \in Filters : StepNT(f)
          ELSE \E f \in Filters : StepTO(f)
SpecZL == Init /\ [][NextZL]_vars

(* Prompt scheduling with fairness (liveness: C03_Complete, C06): strong fairness per filter - a filter's timeout is
   disabled while a neighbour sits at an internal control point, so weak fairness would let one filter's timeouts
   starve another's - and weak fairness for the network.  No faults. *)
PFilter(f) == IF GInt THEN IntStep(f) ELSE IF GBusy THEN StepNT(f) ELSE StepTO(f)
PNet       == ~GInt /\ GBusy /\ Net
NextFair   == (\E f \in Filters : PFilter(f)) \/ PNet
\* Time passes for everybody: a filter whose poll can time out infinitely often while the system is idle does time out (without
\* this a neighbour's re-requests alone satisfy SF(PFilter(f)) - f keeps answering them - while f's own clock, which ages and
\* expires the clients of dead incarnations, stands still for ever).
TFair(f) == SF_vars(~GInt /\ ~GBusy /\ StepTO(f))
FairPrompt == Init /\ [][NextFair]_vars /\ (\A f \in Filters : SF_vars(PFilter(f)) /\ TFair(f)) /\ WF_vars(PNet)

(* A consumer may stop reading for good (Stall without Resume): everybody else still gets fair turns. *)
FairStalled == Init /\ [][NextFair \/ (~GInt /\ \E f \in Filters : Stall(f))]_vars
                 /\ (\A f \in Filters : SF_vars(PFilter(f)) /\ TFair(f)) /\ WF_vars(PNet)

(* The same with faults: a killed filter is eventually restarted, a stalled one eventually resumes. *)
FairFault == Init /\ [][NextFair \/ (~GInt /\ Fault)]_vars
               /\ (\A f \in Filters : SF_vars(PFilter(f)) /\ TFair(f)) /\ (\A f \in Victims : WF_vars(Restart(f)) /\ WF_vars(Resume(f)))
               /\ WF_vars(PNet)

-----------------------------------------------------------------------------
(* Properties *)
NoViolation == bad = {}
C01 == bad \cap {"C01_SameId", "C01_ExactTopics", "C01_SameOrigin"} = {}
C02 == bad \cap {"C02_Order", "C02_Hidden"} = {}
C05 == bad \cap {"C05_EphComplete", "C05_GuardSync"} = {}
C07_OneBranch == \A g \in Filters : OutBal[g] => \A r \in plog[g] : Cardinality(r.outs) = 1
C07 == bad \cap {"C07_Rejoin"} = {} /\ C07_OneBranch
C03 == "C03_Prefix" \notin bad
C03_AllDelivered == \A f \in Filters : C03Applies(f) => ndeliv[f] = Cardinality(ExpIds(f))
C03_Complete == <>[]C03_AllDelivered
\* a listener that has stopped reading never holds its publisher: every origin still hands off all its frames (FairStalled, the
\* victims are '?' / '??' consumers, SubHWM > 0)
C05_ListenerCannotHold == <>[](\A g \in Filters : IsOrigin(g) => pc[g] = "gen" /\ oseq[g] > MaxSeq)
C04_NoEarlyEvict == "C04_EarlyEvict" \notin bad     \* a client is dropped only after ZMQ_CONN_TIMEOUT of silence
C04_Bounded == \A c \in Conns : ahead[c] <= 9
C04_Tight(n) == \A c \in Conns : ahead[c] <= n        \* the bound the design actually achieves (per configuration)
C04_Tight1 == C04_Tight(1)
C04_Tight2 == C04_Tight(2)
C04_Tight3 == C04_Tight(3)
C04_Tight4 == C04_Tight(4)
C04_Tight5 == C04_Tight(5)
C04_Tight6 == C04_Tight(6)
\* C06: no deadlock / self-healing - whatever single fault happens, every origin eventually hands off all its frames
\* (a publisher stuck forever behind a dead or confused consumer never does) and everything is alive again
C06_Drained == \A g \in Filters : (IsOrigin(g) => pc[g] = "gen" /\ oseq[g] > MaxSeq) /\ Alive(g)
C06_Heals == <>[]C06_Drained

(* C08 at pipeline level: who ends = least fixpoint of announce / obey over the topology, starting from the filters that end by
   themselves.  An exit message travels downstream on the PUB socket and upstream on the request pipe (not from a '??' source,
   which has none). *)
Exiters == {f \in Filters : ExitAt[f] >= 0}
Nbrs(f) == {c[1] : c \in ConnsOf(f)} \cup {PubOf(c) : c \in {d \in Conns : d[1] = f /\ Eph(d) < 2}}
RECURSIVE ReachK(_, _)
ReachK(k, R) == LET add == {g \in Filters : k \in ObeyExit[g] /\ \E f \in R : k \in PropExit[f] /\ g \in Nbrs(f)} \ R
                IN IF add = {} THEN R ELSE ReachK(k, R \cup add)
ReachX == UNION {ReachK(ExitKind[f], {f}) : f \in Exiters}
C08_NoSpuriousExit == \A f \in Filters : Closing(f) => f \in ReachX
\* (an origin that has produced its MaxSeq frames is parked for good - the horizon of the model, not a filter that keeps running:
\*  it polls nothing any more and cannot see an exit message that arrives later)
Exhausted(f) == IsOrigin(f) /\ pc[f] = "gen" /\ oseq[f] > MaxSeq
C08_AllEnded == \A f \in ReachX : pc[f] = "done" \/ Exhausted(f)
C08_WholePipeline == <>[]C08_AllEnded

(* Reachability goals: "invariants" that are meant to be FALSE somewhere - TLC's counterexample is the shortest schedule that gets
   there, and that schedule is replayed on the real code with the state compared after every step (Engine.reach). *)
\* a balanced publisher has just published on an endpoint that none of its clients is attached to any more (stale `outputs`)
X_NoStaleEndpoint == \A g \in Filters : (OutBal[g] /\ Alive(g) /\ ~Closing(g)) =>
                        \A r \in plog[g] : (r.mid = minSend[g] - 1 /\ r.i = inc[g]) =>
                                              \E n \in 1..Len(clients[g]) : OutOf(clients[g][n].c) \in r.outs

\* a sender has dropped a client as timed out (another consumer's request made it look) and that consumer is running again,
\* connected, and not yet registered anew
X_NoLiveEviction == \A c \in Conns : (linkUp[c] /\ Runs(c[1]) /\ Alive(PubOf(c)) /\ Eph(c) < 2 /\ prevId[c[1]] >= 0)
                                       => HasClient(clients[PubOf(c)], c, inc[c[1]]) \/ pc[PubOf(c)] \in {"gen", "work_s", "s_enter"}

\* no filter dies of a RuntimeError raised by the protocol code itself
NoCrash == \A f \in Filters : pc[f] # "crashed"

TypeOK == /\ \A f \in Filters : minSend[f] \in Nat /\ prevId[f] >= -1
          /\ \A c \in Conns : Eph(c) = 2 => reqq[c] = <<>>              \* C05(iii): '??' never requests
=============================================================================

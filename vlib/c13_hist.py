"""C13, code -> spec: seeded random long histories executed on the real RollLog objects, judged by the Python monitor
(vlib/rolllog_harness.Monitor = the step formulas of RollLog.tla); a sample is recorded as JSON and validated by TLC
against spec/rolllog/TraceRollLog.tla (conformance of every step + the spec's own evaluation of the step formulas must
equal the monitor's verdict)."""
import json
import os
import random
import tempfile

from . import common
from .common import run_tlc, MachineryError
from . import rolllog_harness as H

W = H.W
READERS = ('r1', 'r2')
OBJS = (W,) + READERS


def gen_history(seed, mode, nops, policy, fsz, tsz, unit, step, slack, utc, bump_binding, record=False, labels=None):
    """run one history.  policy: 'mono' (timestamps strictly increase) | 'free' (equal / backward timestamps, clock may
    step back).  With `labels` given, those are executed instead of generated (replay of a witness)."""
    rnd = random.Random(seed)
    res = {'labels': [], 'violations': [], 'counts': {}, 'steps': [], 'nrec': 0}
    with H.World(mode, unit, step, utc) as world:
        rp = H.Replayer(world, fsz, tsz, readers=READERS, autoref=('r1',), slack=slack)
        rp.bump_binding = bump_binding
        clock = 1
        closed = set()
        floor = 0              # environment assumption: first file of a restarted writer is newer than every old name
        maxused = 0
        need_floor = False
        nv = 0
        exc_seen = False
        k = 0
        nf = rnd.random() < 0.4        # a writer that does not flush every record (write(..., flush=False) + flush())
        while True:
            if labels is not None:
                if k >= len(labels):
                    break
                lab = tuple(labels[k])
            else:
                if k >= nops:
                    break
                lab = _choose(rnd, rp, world, mode, policy, clock, closed, maxused, need_floor, res['nrec'], nf)
                if lab is None:
                    k += 1
                    continue
            k += 1
            a, o, x, y = lab
            try:
                out = rp.do(lab)
            except common.MachineryError:
                break                      # e.g. the file to delete is not there any more: the history ends here
            res['labels'].append(lab)
            if out.get('fatal'):
                for v in rp.mon.violations[nv:]:
                    res['violations'].append((v[0], v[1], v[2], len(res['labels']) - 1))
                res['fatal'] = repr(out['exc'])
                break
            if a == 'tick':
                clock = x
            elif a in ('write', 'writenf'):
                res['nrec'] += 1
                for e in out['events']:
                    if e[0] == 'create':
                        maxused = max(maxused, rp.ts_of_name(e[1]))
                        need_floor = False
            elif a == 'close':
                closed.add(o)
            elif a == 'reopen':
                closed.discard(o)
                if o == W:
                    need_floor = True
            if out['exc'] is not None:
                exc_seen = True
            new = rp.mon.violations[nv:]
            nv = len(rp.mon.violations)
            for v in new:
                res['violations'].append((v[0], v[1], v[2], len(res['labels']) - 1))
            if record:
                pr = rp.project(out)
                chunk = pr.pop('chunk')
                res['steps'].append({'l': list(lab), 'obs': pr, 'chunk': [-1] if out['exc'] is not None else chunk,
                                     'viol': ['?'] if exc_seen else sorted({v[0] for v in new})})
        res['counts'] = rp.mon.counts
        res['param'] = {'seed': seed, 'mode': mode, 'policy': policy, 'fsz': fsz, 'tsz': tsz, 'unit': unit,
                        'step': step, 'slack': list(slack), 'utc': utc, 'file_size_bytes': rp.file_bytes,
                        'total_size_bytes': rp.total_bytes}
    return res


def _choose(rnd, rp, world, mode, policy, clock, closed, maxused, need_floor, nrec, nf=False):
    ops = ['write'] * 6 + ['read'] * 5 + ['readblock'] * 2 + ['tick'] * 2 + ['seek', 'tell', 'refresh', 'delete',
                                                                              'close', 'reopen', 'reopen']
    if nf:
        ops += ['flush'] * 2
    a = rnd.choice(ops)
    if a == 'flush':
        return None if W in closed else ('flush', W, 0, 0)
    names = sorted(os.listdir(world.logs))
    newest = max([rp.ts_of_name(n) for n in names], default=0)
    if a == 'write':
        if W in closed or nrec >= 38:
            return None
        size = rnd.choice((1, 1, 2, 2, 3, 4))
        if policy == 'mono' or need_floor:
            t = max(maxused, clock) + 1 if rnd.random() < 0.5 or need_floor else 0
            if t == 0 and clock <= maxused:
                t = maxused + 1
        else:
            t = rnd.choice([0, 0, clock, max(1, maxused), max(1, maxused - 1), maxused + 1, rnd.randint(1, maxused + 2)])
        if t > 58:
            return None
        if t and rnd.random() < 0.3:
            t += 100                  # the caller's timestamp has a sub-microsecond fraction (time.time() floats do)
        return ('writenf' if nf and rnd.random() < 0.6 else 'write', W, size, t)
    if a == 'tick':
        t = clock + rnd.choice((1, 1, 2)) if policy == 'mono' else max(1, clock + rnd.choice((-2, -1, 1, 1, 2)))
        return ('tick', 'env', t, 0) if t <= 58 and t != clock else None
    if a in ('read', 'readblock', 'seek', 'tell'):
        o = rnd.choice(OBJS)
        if o in closed:
            return None
        if mode == 'bin' and a == 'read':
            a = 'readblock'
        if a == 'seek':
            how = rnd.choice((0, 1, 2, 2))
            if how == 2 and o not in rp.saved:
                return None
            return ('seek', o, how, 0)
        return (a, o, 0, 0)
    if a == 'refresh':
        o = rnd.choice(READERS)
        return None if o in closed else ('refresh', o, 0, 0)
    if a == 'delete':
        if not names or rnd.random() < 0.4:
            return None
        return ('delete', 'env', rp.ts_of_name(rnd.choice(names)), 0)
    if a == 'close':
        o = rnd.choice(OBJS)
        return None if o in closed or rnd.random() < 0.5 else ('close', o, 0, 0)
    if a == 'reopen':
        if not closed:
            return None
        o = rnd.choice(sorted(closed))
        if newest >= clock:           # the constructor refuses to start "before" the newest file (l.132): move on in time
            return ('tick', 'env', newest + 1, 0) if newest + 1 <= 58 else None
        return ('reopen', o, 0, 0)
    return None


def _params(i, seed):
    rnd = random.Random(f'{seed}/p/{i}')
    mode = H.MODES[i % 4]
    unit = rnd.choice((8, 9, 16))
    fsz = rnd.choice((1, 1, 2, 3, 5, 8))
    tsz = rnd.choice((0, 1, 2, 4, 7, 12, 30))
    slack = (rnd.randrange(unit) if rnd.random() < 0.5 else 0, rnd.randrange(unit) if rnd.random() < 0.5 else 0)
    return dict(mode=mode, policy='mono' if i % 2 == 0 else 'free', fsz=fsz, tsz=tsz, unit=unit,
                step=rnd.choice((1.0, 0.015625, 86400.0)), slack=slack, utc=bool(i % 3))


def _hist_chunk(args):
    idxs, seed, nops, bump, record_idx = args
    common.use_repo()
    out = []
    for i in idxs:
        p = _params(i, seed)
        r = gen_history(seed * 1000003 + i, nops=nops, bump_binding=bump, record=i in record_idx, **p)
        out.append((i, r))
    return out


def rerun(wit):
    p = wit['param']
    return gen_history(p['seed'], p['mode'], 0, p['policy'], p['fsz'], p['tsz'], p['unit'], p['step'],
                       tuple(p['slack']), p['utc'], wit.get('bump_binding', False), labels=wit['history'])


def validate_traces(sd, traces, present, nw, corrupt=None):
    """TLC on TraceRollLog with the batch `traces` (list of dict(fsz, tsz, steps)).  Returns (TLCResult, expected
    number of distinct states)."""
    fd, path = tempfile.mkstemp(prefix='verif_c13trace_', suffix='.json')
    try:
        with os.fdopen(fd, 'w') as fh:
            json.dump(traces, fh)
        name = sd.derive('TraceRollLog', 'TraceRollLog_run', defects=present)
        res = run_tlc(sd.d, name, 'TraceRollLog', workers=nw, timeout=3000, deadlock=True,
                      env={'VERIF_TRACE': path})
    finally:
        os.unlink(path)
    return res, sum(len(t['steps']) + 1 for t in traces)


def run_histories(ctx, rep, pool, sd, present, nw):
    n = 400 if ctx.quick else 10000
    nops = 90 if ctx.quick else 120
    nrec = 32 if ctx.quick else 320
    bump = 'overwrite' not in present
    record_idx = set(range(0, n, max(1, n // nrec)))
    idx = list(range(n))
    nchunks = common.NCPU * 4
    jobs = [(idx[c::nchunks], ctx.seed, nops, bump, record_idx) for c in range(nchunks)]
    results = [x for part in pool.map(_hist_chunk, jobs) for x in part]
    results.sort(key=lambda t: t[0])
    counts, viol, nviol, steps = {}, {}, 0, 0
    traces, trace_meta = [], []
    by = {'mono': 0, 'free': 0}
    viol_in_mono = 0
    for i, r in results:
        steps += len(r['labels'])
        by[r['param']['policy']] += 1
        for k, v in r['counts'].items():
            counts[k] = counts.get(k, 0) + v
        for (formula, text, sig, stepi) in r['violations']:
            nviol += 1
            if r['param']['policy'] == 'mono':
                viol_in_mono += 1
            key = json.dumps(sig, sort_keys=True)
            if key not in viol:
                viol[key] = {'n': 0, 'text': text, 'sig': sig, 'formula': formula,
                             'witness': {'history': r['labels'][:stepi + 1], 'param': r['param'],
                                         'bump_binding': bump, 'mode': r['param']['mode']}}
            viol[key]['n'] += 1
        if r['steps']:
            traces.append({'fsz': r['param']['fsz'], 'tsz': r['param']['tsz'], 'steps': r['steps']})
            trace_meta.append(r['param'])
        rep.case(('hist', i), nontrivial=r['nrec'] > 0)
    rep.traces += len(results)
    from .c13 import report_violations
    report_violations(rep, viol, 'random history')
    # ---- TLC validates the recorded sample
    res, expect = validate_traces(sd, traces, present, nw)
    rep.add_tlc('TraceRollLog', res, f'{len(traces)} recorded real executions validated step by step against RollLog.tla '
                                     f'(projection + truth of the step formulas = monitor verdict)')
    if res.error or res.timed_out:
        raise MachineryError(f'TLC failed on TraceRollLog: {res.error or "timeout"}')
    rejected = 0
    if res.violated == 'deadlock' or res.distinct != expect:
        rejected = 1
        m = None
        import re
        ms = list(re.finditer(r'^/\\ tid = (\d+)', res.out, flags=re.M))
        mi = list(re.finditer(r'^/\\ i = (\d+)', res.out, flags=re.M))
        if ms and mi:
            t, k = int(ms[-1].group(1)), int(mi[-1].group(1))
            st = traces[t - 1]['steps']
            rep.drift_note(f'recorded execution {trace_meta[t - 1]} is rejected by TraceRollLog at step {k + 1} '
                           f'{st[k]["l"] if k < len(st) else "?"} after {[s["l"] for s in st[max(0, k - 6):k]]}')
        else:
            raise MachineryError(f'TraceRollLog: {res.distinct} states, expected {expect}\n{res.out[-3000:]}')
    elif res.violated:
        raise MachineryError(f'TraceRollLog reports {res.violated}\n{res.out[-3000:]}')
    rep.traces += len(traces) - rejected
    # ---- self-test: a corrupted trace must be rejected
    import copy
    bad = copy.deepcopy(traces[:4])
    for t in bad:
        st = [s for s in t['steps'] if s['l'][0] == 'write']
        if st:
            st[len(st) // 2]['obs']['total'] += 1
    res2, expect2 = validate_traces(sd, bad, present, nw)
    if res2.error or res2.timed_out:
        raise MachineryError(f'TLC failed on the corrupted trace batch: {res2.error or "timeout"}')
    if res2.violated != 'deadlock':
        raise MachineryError('self-test: TraceRollLog accepted corrupted traces')
    rep.extra['histories'] = {'n': len(results), 'steps': steps, 'by_policy': by, 'monitor_counts': counts,
                              'violating_steps': nviol, 'violating_steps_in_monotone_histories': viol_in_mono,
                              'traces_validated_by_tlc': len(traces), 'tlc_states': res.distinct,
                              'tlc_states_expected': expect, 'selftest_corrupted_trace_rejected': True}
    rep.sample({'random_history': results[1][1]['param'], 'labels': results[1][1]['labels'][:25]}, 10)

#!/venv/bin/python
"""Confirms a seeded change (patch.diff + demo.py + meta.json) in a scratch worktree and runs the property's check
against it:   tools/seedtest.py <Cxx> <change_dir> [--keep-as NAME] [--tier quick]

 1. scratch worktree of /repo HEAD (outside /repo and /verif), removed at the end
 2. demo without the change must pass, with the change must fail
 3. the repository's related test files must pass with the change (run under flock: fixed ports)
 4. VERIF_REPO=<worktree> ./check <Cxx>  -> exit code and VIOLATION lines
 5. writes <change_dir>/result.json; with --keep-as copies patch/demo/meta/result to /verif/seeded/<NAME>/
"""
import json
import os
import shutil
import subprocess
import sys

TESTS = {
    'proto': ['tests/test_zeromq.py', 'tests/test_mq.py', 'tests/test_filter.py'],
    'C09': ['tests/test_mq.py', 'tests/test_frame.py', 'tests/test_zeromq.py'],
    'C10': ['tests/test_frame.py', 'tests/test_mq.py'],
    'C11': ['tests/test_filter.py', 'tests/test_filters.py', 'tests/test_filter_util.py', 'tests/test_filter_video_in.py',
            'tests/test_filter_video_out.py', 'tests/test_filter_image_in.py', 'tests/test_filter_image_out.py',
            'tests/test_filter_webvis.py'],
    'C12': ['tests/test_filter.py'],
    'C13': ['tests/test_rolllog.py'], 'C14': ['tests/test_rolllog.py'],
    'C15': ['tests/test_filter.py', 'tests/test_filter_video_in.py', 'tests/test_filter_video_out.py', 'tests/test_filters.py'],
    'C16': ['tests/test_telemetry.py', 'examples/observability-demo/test_demo.py'],
    'C17': ['tests/test_filter_util.py', 'tests/test_filter_video_in.py'],
    'C08': ['tests/test_filter.py', 'tests/test_zeromq.py'], 'C18': ['tests/test_filter.py'],
}
ENV = dict(os.environ, LOG_PATH='false', DO_NOT_TRACK='true', GPU_METRICS='false', PYTHONDONTWRITEBYTECODE='1')
KNOWN_FAIL = ('test_filter_context_error_handling', 'test_openlineage_enabled', 'test_cli')


def sh(cmd, cwd=None, timeout=1800, env=None):
    p = subprocess.run(cmd, shell=True, cwd=cwd, capture_output=True, text=True, timeout=timeout, env=env or ENV)
    return p.returncode, (p.stdout + p.stderr)


def run_demo(wt, demo):
    env = dict(ENV, PYTHONPATH=wt)
    try:
        rc, out = sh(f'/venv/bin/python {demo} {wt}', cwd=wt, timeout=600, env=env)
    except subprocess.TimeoutExpired:
        return 124, 'timeout'
    return rc, out[-1500:]


def main():
    prop, cdir = sys.argv[1], os.path.abspath(sys.argv[2])
    keep = sys.argv[sys.argv.index('--keep-as') + 1] if '--keep-as' in sys.argv else None
    tier = sys.argv[sys.argv.index('--tier') + 1] if '--tier' in sys.argv else 'quick'
    skip_tests = '--skip-tests' in sys.argv
    wt = f'/tmp/sw_{prop}_{os.getpid()}'
    res = {'property': prop, 'change_dir': cdir}
    sh(f'git -C /repo worktree add -q --detach {wt} HEAD')
    try:
        demo = os.path.join(cdir, 'demo.py')
        rc0, o0 = run_demo(wt, demo)
        res['demo_without'] = {'rc': rc0, 'tail': o0[-400:]}
        rc, out = sh(f'git apply {cdir}/patch.diff', cwd=wt)
        res['applies'] = rc == 0
        if rc != 0:
            res['apply_error'] = out[-500:]
            return res
        rc1, o1 = run_demo(wt, demo)
        res['demo_with'] = {'rc': rc1, 'tail': o1[-400:]}
        if not skip_tests:
            tests = TESTS.get(prop, TESTS['proto'])
            # a private network namespace per run: the tests bind fixed TCP ports, other runs on this machine must not collide
            # one pytest process per file (test_zeromq's TCP class switches the handshake off for the rest of its process)
            out = ''
            for tf in tests:
                rc, o = sh(f'unshare -n sh -c "ip link set lo up; /venv/bin/python -m pytest -q -p no:cacheprovider --timeout=300 '
                           f'{tf} 2>&1 | tail -15"', cwd=wt, timeout=3000)
                out += o
            fails = [l for l in out.splitlines() if l.startswith('FAILED') and not any(k in l for k in KNOWN_FAIL)]
            # a failure that disappears when the test is re-run alone is a timing flake of the loaded machine
            real = []
            for l in fails:
                tid = l.split()[1]
                rc, o = sh(f'unshare -n sh -c "ip link set lo up; /venv/bin/python -m pytest -q -p no:cacheprovider --timeout=300 '
                           f'{tid} 2>&1 | tail -3"', cwd=wt, timeout=900)
                if ' passed' not in o or ' failed' in o:
                    real.append(l)
            fails = real
            res['tests'] = {'files': tests, 'failed': fails, 'tail': out[-300:]}
        rc, out = sh(f'./check {prop} --tier {tier}', cwd='/verif', env=dict(ENV, VERIF_REPO=wt), timeout=3600)
        viol = [l for l in out.splitlines() if l.startswith('VIOLATION') or (l.startswith('  ') and not l.startswith('  ['))][:12]
        res['check'] = {'rc': rc, 'lines': viol, 'summary': out.strip().splitlines()[-1][:300] if out.strip() else ''}
        res['caught'] = rc == 1
    finally:
        sh(f'git -C /repo worktree remove --force {wt}')
        shutil.rmtree(wt, ignore_errors=True)
        json.dump(res, open(os.path.join(cdir, 'result.json'), 'w'), indent=1)
    if keep:
        dst = f'/verif/seeded/{keep}'
        os.makedirs(dst, exist_ok=True)
        for f in ('patch.diff', 'demo.py', 'meta.json', 'result.json'):
            if os.path.exists(os.path.join(cdir, f)):
                shutil.copy(os.path.join(cdir, f), dst)
    return res


if __name__ == '__main__':
    r = main()
    print(json.dumps({k: r.get(k) for k in ('property', 'applies', 'demo_without', 'demo_with', 'tests', 'caught')}, indent=1)[:1500])
    if 'check' in r:
        print('\n'.join(r['check']['lines'][:6]))
        print(r['check']['summary'])

CONSTANTS
  StartKinds = {"rw", "ro", "lazy", "now"}
  StartFmts = {"RGB", "BGR", "GRAY"}
  MaxOps = 3
  Defects = {"jpg_caches_writable"}
  CountNoops = TRUE
  Emit = FALSE
INIT Init
NEXT Next
VIEW view
INVARIANT JpgOnlyOnFrozen

CONSTANTS
  Defects = {"exit_after_time_module", "init_fail_skips_fini", "mq_ctor_partial_leak"}
  K = 1
  PropSet = {"all"}
  ObeySet = {"all"}
  EASet = {"none", "secs"}
  WithInterrupt = TRUE
  EarlyExit = TRUE
  Emit = TRUE
INIT Init
NEXT Next
ACTION_CONSTRAINT EmitDone
INVARIANT TypeOK

"""Topology library shared by the model configurations and the simulated real pipelines (C01-C07)."""
from .proto import Topo, src, beh

T2 = [['main', 'b']]


def chain2(maxseq=2, **kw):
    return Topo('Chain2', {'S': dict(nout=1, beh=beh('origin', tseq=T2)), 'K': dict(srcs=[src('S')])}, maxseq=maxseq, **kw)


def chain3(maxseq=2, slow=False, skip=(), **kw):
    return Topo('Chain3', {'S': dict(nout=1, beh=beh('origin', tseq=T2)),
                           'A': dict(srcs=[src('S')], nout=1, beh=beh('relay', slow=slow, skip=skip)),
                           'K': dict(srcs=[src('A')])}, maxseq=maxseq, **kw)


def tee(maxseq=2, **kw):
    return Topo('Tee', {'S': dict(nout=1, beh=beh('origin', tseq=[['main']])),
                        'A': dict(srcs=[src('S')]), 'B': dict(srcs=[src('S')])}, maxseq=maxseq, **kw)


def tee_rejoin2(maxseq=2, skip=(1,), slowB=False, explicit_b=False, skipA=(), **kw):
    """S -> A -> K(main>a) and S -> B -> K; B may skip ids (the C01 scenarios)"""
    return Topo('TeeRejoin2', {
        'S': dict(nout=1, beh=beh('origin', tseq=[['main']])),
        'A': dict(srcs=[src('S')], nout=1, beh=beh('relay', skip=skipA)),
        'B': dict(srcs=[src('S')], nout=1, beh=beh('relay', skip=skip, slow=slowB)),
        'K': dict(srcs=[src('A', topics=[('main', 'a')]), src('B', topics=[('main', 'main')] if explicit_b else None)]),
    }, maxseq=maxseq, **kw)


def join2(maxseq=1, **kw):
    return Topo('Join2', {'S': dict(nout=1, beh=beh('origin', tseq=[['main']])),
                          'T': dict(nout=1, beh=beh('origin', tseq=[['main']])),
                          'K': dict(srcs=[src('S', topics=[('main', 'a')]), src('T')])}, maxseq=maxseq, **kw)


def eph_side(maxseq=2, **kw):
    return Topo('EphSide', {'S': dict(nout=1, beh=beh('origin', tseq=[['main']])),
                            'K': dict(srcs=[src('S')]),
                            'E': dict(srcs=[src('S', eph=1)]),
                            'W': dict(srcs=[src('S', eph=2)])}, maxseq=maxseq, **kw)


def balance2(maxseq=3, **kw):
    return Topo('Balance2', {'S': dict(nout=2, outbal=True, beh=beh('origin', tseq=[['main']])),
                             'W1': dict(srcs=[src('S', out=1)], nout=1),
                             'W2': dict(srcs=[src('S', out=2)], nout=1),
                             'J': dict(srcs=[src('W1'), src('W2')], srcbal=True)}, maxseq=maxseq, **kw)


def hidden(maxseq=1, **kw):
    return Topo('Hidden', {'S': dict(nout=1, beh=beh('origin', tseq=T2, hid=True)),
                           'K': dict(srcs=[src('S')]),
                           'X': dict(srcs=[src('S', star=True)]),
                           'H': dict(srcs=[src('S', topics=[('_filter', '_filter'), ('b', 'bb')])])}, maxseq=maxseq, **kw)


def required2(maxseq=2, **kw):
    return Topo('Required2', {'S': dict(nout=1, required=['K'], beh=beh('origin', tseq=[['main']])),
                              'K': dict(srcs=[src('S')])}, maxseq=maxseq, **kw)


ALL = dict(chain2=chain2, chain3=chain3, tee=tee, tee_rejoin2=tee_rejoin2, join2=join2, eph_side=eph_side,
           balance2=balance2, hidden=hidden, required2=required2)

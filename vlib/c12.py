"""C12 - the CLI wires filters into a well-formed pipeline.

Specification: spec/func/CliWiring.tla - a reference `ParseFilters` written phase by phase like
openfilter/cli/common.py:parse_filters (id assignment, auto-chaining, id -> address resolution, port allocation), the
four laws of C12 (UniqueIds, EverySourceBound, PortsDisjoint, PassThrough) and the known deviations of the code as the
constant `Defects`.  The state space is a set of cases: TLC builds every command line of the configured alphabet
("facets": ids, chain, refs, ports, lists; exhaustive for 1-3 filters in the quick tier and 1-4 in the thorough tier) and
samples command lines of 5-6 filters over the full alphabet with -simulate, checks the laws on the reference wiring of
each, and writes one vector per case.  This harness renders every vector to a real argv, calls the real
`parse_filters` (directly the way cmd_run does, and for a share of the cases through `cmd_run` itself), compares the
result with the reference wiring (a difference alone is drift) and evaluates the four laws on the *real* result
(a false law is a violation).  A source that names another filter is written with the id the code under test gives that
filter (if the automatic names differ from the reference that is drift, and the command line is rendered again with the
code's names), so a change of the naming convention alone never raises an alarm.

Verdict kinds (signature {law, kind}): UniqueIds/dup_id|no_id; EverySourceBound/unbound|multi_bound|wrong_target|suffix|
not_rewritten|source_lost|ipc_name_clash|chain_*; PortsDisjoint/overlap_user|overlap_auto; PassThrough/id|outputs|
sources|option|filter_count; Wired/exception (the code rejects a command line of the valid domain).
"""
import concurrent.futures as cf
import hashlib
import json
import multiprocessing as mp
import os
import re
import tempfile
from collections import Counter

from . import common
from .common import Report, run_tlc, tlc_must_pass, MachineryError, SPEC, NCPU

SPEC_DIR = os.path.join(SPEC, 'func')
MODULE = 'CliWiring'

# ---------------------------------------------------------------------------------------------------------------------
# concretisation of the abstract vocabulary

# abstract class name -> built-in filters with the same behaviour under filter_can_do_filter_outputs() (the mapping is
# injective within one command line so that automatic numbering is the same as in the reference)
CONCRETE = {
    'VideoIn': ['VideoIn', 'ImageIn', 'REST'],
    'Util': ['Util', 'Filter', 'openfilter.filter_runtime.filters.util.Util'],
    'Webvis': ['Webvis', 'MQTTOut'],
    'VideoOut': ['VideoOut', 'Recorder', 'openfilter.filter_runtime.filters.image_out.ImageOut'],
}
CAN_OUT = {'VideoIn': True, 'Util': True, 'Webvis': False, 'VideoOut': False}
URI_SRC = {'VideoIn': 'file://video.mp4', 'ImageIn': 'file:///tmp/images', 'REST': 'http://0.0.0.0:8000'}
URI_OUT = {'VideoOut': 'file://out.mp4', 'Recorder': 'file://rec.txt', 'ImageOut': 'file:///tmp/out_%d.jpg',
           'MQTTOut': 'mqtt://localhost:1883/topic'}
SUFFIX = {'': '', '?': '?', '??': '??', ';t': ';main', ';a>b': ';main>other', '!o': '!x=1', '??;t!o': '??;main!x=1',
          ';t;a>b': ';main;cam>other', '?!o': '?!x=1', '??!o': '??!x=1'}
EXTRA = {'': ([], None), 'log': (['--log', 'pretty'], ('log', 'pretty')),
         'misc': (['--misc1', 'file://testdir/testfile'], ('misc1', 'file://testdir/testfile')),
         'neg': (['--no-outputs_jpg'], ('outputs_jpg', False))}

F_NAME, F_GN, F_GI, F_SF, F_SRC, F_OF, F_OUT, F_X = range(8)       # filter tuple of the vector
I_T, I_POS, I_N, I_I, I_H, I_P, I_S = range(7)                     # item tuple of the vector


def decode(line):
    """One vector line (TLC print syntax of nested tuples) -> python lists."""
    v = json.loads(line.replace('<<', '[').replace('>>', ']').replace('TRUE', 'true').replace('FALSE', 'false'))
    if len(v) != 5:
        raise ValueError('vector shape')
    return {'ipc': v[0], 'cl': v[1], 'ids': v[2], 'res': v[3], 'des': v[4]}


class Renderer:
    """Renders one abstract case to concrete text; `variant` selects among equivalent spellings."""

    def __init__(self, case, variant, real_ids=None):
        self.case, self.v = case, variant
        self.real_ids = real_ids      # what the code under test calls the filters, when that differs from the reference
        self.cls = {}
        for name, alts in CONCRETE.items():
            self.cls[name] = alts[variant % len(alts)]
        self.disp = {k: v.rsplit('.', 1)[-1] for k, v in self.cls.items()}

    def id_text(self, n, i):
        return self.disp.get(n, n) + (str(i) if i else '')

    def item(self, it, k, role):
        t, suf = it[I_T], SUFFIX[it[I_S]]
        if t == 'tcp':
            return f'tcp://{it[I_H]}' + (f':{it[I_P]}' if it[I_P] else '') + suf
        if t == 'ipc':
            return 'ipc://' + self.id_text(it[I_N], it[I_I]) + it[I_H] + suf
        if t == 'ref':
            if self.real_ids:
                return self.real_ids[it[I_POS] - 1] + suf
            n, i = self.case['ids'][it[I_POS] - 1]
            return self.id_text(n, i) + suf
        if t == 'id':
            return self.id_text(it[I_N], it[I_I]) + suf
        if t == 'uri':
            d = self.disp[self.case['cl'][k][F_NAME]]
            return (URI_SRC.get(d, 'file://in.dat') if role == 'src' else URI_OUT.get(d, 'file://out.dat')) + suf
        raise MachineryError(f'unknown item kind {t!r}')

    def argv(self):
        """-> (argv starting at the first '-', per-filter dicts of what the user wrote)"""
        words, wrote = [], []
        for k, f in enumerate(self.case['cl']):
            v = self.v + k
            groups = []
            w = {'id': None, 'src': None, 'out': None, 'extra': EXTRA[f[F_X]][1]}
            if f[F_GN]:
                w['id'] = self.id_text(f[F_GN], f[F_GI])
                groups.append(['--id', w['id']] if v % 2 else [f'--id={w["id"]}'])
            for key, form, items, role in (('sources', f[F_SF], f[F_SRC], 'src'), ('outputs', f[F_OF], f[F_OUT], 'out')):
                if form == 'assign_empty':
                    groups.append([f'--{key}='])
                elif form == 'bare':
                    groups.append([f'--{key}'])
                elif form == 'list':
                    texts = [self.item(it, k, role) for it in items]
                    w[role] = texts
                    joined = (', ' if (v // 2) % 3 == 1 else ',').join(texts)
                    groups.append([f'--{key}', joined] if (v // 3) % 2 else [f'--{key}={joined}'])
            if EXTRA[f[F_X]][0]:
                groups.append(list(EXTRA[f[F_X]][0]))
            rot = v % max(1, len(groups))
            groups = groups[rot:] + groups[:rot]
            words += ['-', self.cls[f[F_NAME]]] + [x for g in groups for x in g]
            wrote.append(w)
        return words, wrote

    def wiring(self, w):
        """reference wiring (err, filters) -> list of (id, [sources], [outputs]) as text"""
        return [(self.id_text(f[0], f[1]), [self.item(it, k, 'src') for it in f[2]],
                 [self.item(it, k, 'out') for it in f[3]]) for k, f in enumerate(w[1])]


# ---------------------------------------------------------------------------------------------------------------------
# the real code

class _Captured(BaseException):
    pass


_real = {}


def load_real():
    if _real:
        return _real
    common.use_repo()
    from openfilter.cli import common as cli_common
    from openfilter.cli import cmd_run as cli_cmd_run
    _real.update(parse_filters=cli_common.parse_filters, cmd_run=cli_cmd_run)
    return _real


def call_real(words, ipc, through_cmd_run):
    """-> ('ok', [(class name, config dict)]) | ('exc', 'Type: message')"""
    real = load_real()
    try:
        if through_cmd_run:
            # cmd_run parses its own options, slices and reverses the argument list and calls parse_filters; capture the
            # result at that call and stop before anything is run
            box, mod = {}, real['cmd_run']
            inner = mod.parse_filters

            def capture(args, ipc_=False):
                box['res'] = inner(args, ipc_)
                raise _Captured()
            mod.parse_filters = capture
            try:
                mod.cmd_run((['--ipc'] if ipc else []) + list(words))
                return 'exc', 'cmd_run returned without calling parse_filters'
            except _Captured:
                res = box['res']
            finally:
                mod.parse_filters = inner
        else:
            res = real['parse_filters'](list(words)[:0:-1], ipc)      # cmd_run.py l.91 with idx = 0
    except Exception as e:  # noqa: the code under test rejecting the command line is an observation
        return 'exc', f'{type(e).__name__}: {e}'
    return 'ok', [(cls.__name__, dict(cfg)) for cls, cfg, _ in res]


def split_list(v):
    if v is None or v is False:
        return []
    if isinstance(v, str):
        return [s.strip() for s in v.split(',')] if v.strip() else []
    if isinstance(v, (list, tuple)):
        return [str(s).strip() for s in v]
    return [str(v)]


_RE_ADDR = re.compile(r'^(tcp|ipc)://([^?;!]*)(.*)$', re.S)


def parse_addr(s):
    """'tcp://host:port??;main' -> dict(t, host, port, suf) ; None when not a tcp:// or ipc:// address"""
    m = _RE_ADDR.match(s) if isinstance(s, str) else None
    if not m:
        return None
    t, body, suf = m.groups()
    if t == 'ipc':
        return {'t': 'ipc', 'host': body, 'port': None, 'suf': suf}
    host, port = body.rsplit(':', 1) if ':' in body else (body, '')
    try:
        port = int(port) if port else 5550
    except ValueError:
        return None
    return {'t': 'tcp', 'host': host, 'port': port, 'suf': suf}


def binds(o, a):
    """Spec `Binds`: the output address o of a filter is what a source connecting to a reaches."""
    if o is None or a is None or o['t'] != a['t']:
        return False
    if o['t'] == 'ipc':
        return o['host'] == a['host']
    loop = ('localhost', '127.0.0.1')
    return o['port'] == a['port'] and (o['host'] == a['host'] or (o['host'] in loop and a['host'] in loop) or
                                       (o['host'][:1] in '*0' and a['host'] in loop))


# ---------------------------------------------------------------------------------------------------------------------
# the four laws, evaluated on the real result

def eval_laws(case, wrote, real, stats=None):
    """real = [(id, [sources], [outputs], config)] ; -> list of (law, kind, text).  Mirrors the formulas of CliWiring.tla."""
    out = []
    cl = case['cl']
    n = len(real)
    st = stats if stats is not None else Counter()
    outs = [[parse_addr(o) for o in f[2]] for f in real]

    def binders(a):
        return {j for j in range(n) if any(binds(o, a) for o in outs[j])}

    def classify_multi(a, bs):
        if a['t'] == 'ipc' and any(wrote[j]['out'] is None for j in bs if j < len(wrote)) \
                and any(wrote[j]['out'] is not None for j in bs if j < len(wrote)):
            return 'ipc_name_clash'
        return 'multi_bound'

    # UniqueIds
    ids = [f[0] for f in real]
    st['law_unique_ids'] += 1
    if any(not isinstance(i, str) or not i for i in ids):
        out.append(('UniqueIds', 'no_id', f'a filter has no id: {ids!r}'))
    elif len(set(ids)) != len(ids):
        out.append(('UniqueIds', 'dup_id', f'ids are not unique: {ids!r}'))
    if n != len(cl):
        out.append(('PassThrough', 'filter_count', f'{len(cl)} filters given, {n} returned'))
        return out
    # EverySourceBound
    for k, f in enumerate(cl):
        srcs = real[k][1]
        if f[F_SF] == 'list':
            for m, it in enumerate(f[F_SRC]):
                if it[I_T] != 'ref' or it[I_POS] - 1 == k:
                    continue
                st['law_bound_explicit'] += 1
                want = wrote[k]['src'][m]
                if m >= len(srcs):
                    out.append(('EverySourceBound', 'source_lost', f'filter {k}: source {want!r} is gone: {srcs!r}'))
                    continue
                a = parse_addr(srcs[m])
                if a is None:
                    out.append(('EverySourceBound', 'not_rewritten',
                                f'filter {k}: source {want!r} was not rewritten to an address: {srcs[m]!r}'))
                    continue
                if a['suf'] != SUFFIX[it[I_S]]:
                    out.append(('EverySourceBound', 'suffix', f'filter {k}: source {want!r} became {srcs[m]!r}: '
                                                              f'suffix {SUFFIX[it[I_S]]!r} not preserved'))
                bs = binders(a)
                if bs != {it[I_POS] - 1}:
                    kind = ('unbound' if not bs else classify_multi(a, bs) if len(bs) > 1 else 'wrong_target')
                    out.append(('EverySourceBound', kind, f'filter {k}: source {want!r} became {srcs[m]!r}, bound by '
                                                          f'filters {sorted(bs)} (named: filter {it[I_POS] - 1})'))
        else:
            for s in srcs:        # the user wrote no source: whatever is there comes from auto-chaining
                st['law_bound_chained'] += 1
                a = parse_addr(s)
                if a is None:
                    out.append(('EverySourceBound', 'chain_not_address', f'filter {k}: auto-chained source {s!r} is not '
                                                                         f'an address'))
                    continue
                if a['suf']:
                    out.append(('EverySourceBound', 'chain_suffix', f'filter {k}: auto-chained source {s!r} has a suffix'))
                bs = binders(a)
                if len(bs) != 1 or min(bs) >= k:
                    kind = ('chain_unbound' if not bs else classify_multi(a, bs) if len(bs) > 1 else 'chain_not_previous')
                    out.append(('EverySourceBound', kind, f'filter {k}: auto-chained source {s!r} is bound by filters '
                                                          f'{sorted(bs)}'))
    # PortsDisjoint
    user = [(k, a['port']) for k, w in enumerate(wrote) for a in map(parse_addr, w['out'] or []) if a and a['t'] == 'tcp']
    auto = [(k, m, a['port']) for k in range(n) if cl[k][F_OF] != 'list'
            for m, a in enumerate(outs[k]) if a and a['t'] == 'tcp']
    for x, (k, m, p) in enumerate(auto):
        for (k2, q) in user:
            st['law_ports_pairs'] += 1
            if {p, p + 1} & {q, q + 1}:
                out.append(('PortsDisjoint', 'overlap_user', f'automatic output port {p} of filter {k} overlaps the '
                                                             f'user-given port {q} of filter {k2}'))
        for (k2, m2, q) in auto[x + 1:]:
            st['law_ports_pairs'] += 1
            if {p, p + 1} & {q, q + 1}:
                out.append(('PortsDisjoint', 'overlap_auto', f'automatic output port {p} of filter {k} overlaps the '
                                                             f'automatic port {q} of filter {k2}'))
    # PassThrough
    for k, w in enumerate(wrote):
        rid, srcs, outs_k, cfg = real[k]
        if w['id'] is not None:
            st['law_pass_items'] += 1
            if rid != w['id']:
                out.append(('PassThrough', 'id', f'filter {k}: --id {w["id"]!r} became {rid!r}'))
        if w['out'] is not None:
            st['law_pass_items'] += 1
            if outs_k != w['out']:
                out.append(('PassThrough', 'outputs', f'filter {k}: --outputs {w["out"]!r} became {outs_k!r}'))
        if w['src'] is not None:
            if len(srcs) != len(w['src']):
                out.append(('PassThrough', 'sources', f'filter {k}: --sources {w["src"]!r} became {srcs!r}'))
            else:
                for m, it in enumerate(cl[k][F_SRC]):
                    if it[I_T] != 'ref':
                        st['law_pass_items'] += 1
                        if srcs[m] != w['src'][m]:
                            out.append(('PassThrough', 'sources', f'filter {k}: source {w["src"][m]!r} became {srcs[m]!r}'))
        if w['extra'] is not None:
            st['law_pass_items'] += 1
            key, val = w['extra']
            if key not in cfg or cfg[key] != val or type(cfg[key]) is not type(val):
                out.append(('PassThrough', 'option', f'filter {k}: option {key}={val!r} became {cfg.get(key)!r}'))
    return out


# ---------------------------------------------------------------------------------------------------------------------
# one case

def branch_stats(case, st):
    """Which branches of the reference this case exercises (vacuity accounting)."""
    cl, res = case['cl'], case['res']
    if res[0]:
        st['ref_err_' + res[0]] += 1
        return
    names = Counter(f[F_NAME] for f in cl if not f[F_GN])
    for k, f in enumerate(cl):
        st['id_given' if f[F_GN] else 'id_auto_numbered' if names[f[F_NAME]] > 1 else 'id_auto_single'] += 1
        exp_src, exp_out = res[1][k][2], res[1][k][3]
        if f[F_SF] != 'list':
            st[f'src_{f[F_SF]}'] += 1
            st['chained' if exp_src else 'not_chained'] += 1
        else:
            for m, it in enumerate(f[F_SRC]):
                if it[I_T] == 'ref':
                    tgt = cl[it[I_POS] - 1]
                    st['ref'] += 1
                    st['ref_suffix' if it[I_S] else 'ref_plain'] += 1
                    st['ref_forward' if it[I_POS] - 1 > k else 'ref_backward'] += 1
                    st['ref_to_user_output' if tgt[F_OF] == 'list' else
                       f'ref_alloc_{exp_src[m][I_T]}'] += 1
                    if tgt[F_OF] == 'list' and len(tgt[F_OUT]) > 1:
                        st['ref_first_of_two_outputs'] += 1
                    if not CAN_OUT[tgt[F_NAME]]:
                        st['ref_to_output_type_filter'] += 1
                    if len(f[F_SRC]) > 1:
                        st['ref_in_list'] += 1
                else:
                    st[f'src_{it[I_T]}_passthrough'] += 1
        if f[F_OF] != 'list':
            st[f'out_{f[F_OF]}'] += 1
            if exp_out:
                st[f'out_allocated_{exp_out[0][I_T]}'] += 1
        else:
            st['out_user_' + '+'.join(it[I_T] for it in f[F_OUT])] += 1
    auto = sum(1 for k, f in enumerate(cl) if f[F_OF] != 'list' and res[1][k][3] and res[1][k][3][0][I_T] == 'tcp')
    user = sum(1 for f in cl if f[F_OF] == 'list' for it in f[F_OUT] if it[I_T] == 'tcp')
    if auto and user:
        st['auto_port_next_to_user_port'] += 1
    if auto > 1:
        st['several_auto_ports'] += 1
    if case['des'][0] != 'same':
        st['design_differs_from_code'] += 1


def nontrivial(case):
    """A case is non-trivial when it contains a wiring obligation or is rejected by the reference."""
    if case['res'][0]:
        return True
    return any(f[2] for f in case['res'][1])      # some filter ends up with a source


def run_case(case, variant, through_cmd_run, st=None, tamper=None):
    """Execute one vector.  -> dict(argv, ipc, status, real, expected, laws=[(law, kind, text)], drift=[text])"""
    rd = Renderer(case, variant)
    words, wrote = rd.argv()
    status, got = call_real(words, case['ipc'], through_cmd_run)
    pre_drift = []
    if status == 'ok' and len(got) == len(case['cl']) and any(it[I_T] == 'ref' for f in case['cl'] for it in f[F_SRC]):
        # The user names a filter by the id the CLI gives it.  If the code under test names the filters differently from
        # the reference (a change of the naming convention is drift, not a violation), write the ids it uses.
        ids = [cfg.get('id') for _, cfg in got]
        ref_ids = [rd.id_text(n, i) for n, i in case['ids']]
        if ids != ref_ids and all(isinstance(i, str) and i for i in ids) and len(set(ids)) == len(ids):
            pre_drift.append(f'ids: reference {ref_ids!r}, code {ids!r}; sources re-rendered with the ids of the code')
            rd = Renderer(case, variant, real_ids=ids)
            words, wrote = rd.argv()
            status, got = call_real(words, case['ipc'], through_cmd_run)
    rec = {'argv': (['--ipc'] if case['ipc'] else []) + words, 'ipc': case['ipc'], 'through_cmd_run': through_cmd_run,
           'laws': [], 'drift': pre_drift}
    res = case['res']
    exp = rd.wiring(res) if not res[0] else None
    rec['expected'] = {'error': res[0]} if res[0] else [{'id': e[0], 'sources': e[1], 'outputs': e[2]} for e in exp]
    if status == 'exc':
        rec['real'] = {'raised': got}
        if not res[0]:
            rec['laws'].append(('Wired', 'exception', f'the command line is rejected ({got}); the reference wires it'))
        return rec
    real = [(cfg.get('id'), split_list(cfg.get('sources')), split_list(cfg.get('outputs')), cfg) for _, cfg in got]
    if tamper:
        real = tamper(real)
    rec['real'] = [{'class': got[k][0] if k < len(got) else None, 'id': r[0], 'sources': r[1], 'outputs': r[2]}
                   for k, r in enumerate(real)]
    rec['laws'] = eval_laws(case, wrote, real, st)
    if res[0]:
        rec['drift'].append(f'accepted although the reference rejects it ({res[0]})')
    else:
        for k, (e, r) in enumerate(zip(exp, real)):
            for what, a, b in (('id', e[0], r[0]), ('sources', e[1], r[1]), ('outputs', e[2], r[2])):
                if a != b:
                    rec['drift'].append(f'filter {k} {what}: reference {a!r}, code {b!r}')
        for k, f in enumerate(case['cl']):
            if k < len(got) and got[k][0] != rd.disp[f[F_NAME]]:
                rec['drift'].append(f'filter {k} class: asked {rd.disp[f[F_NAME]]}, got {got[k][0]}')
    # the intended design where it differs from the code (not part of C12's formula)
    if case['des'][0] == '' and not res[0]:
        des = rd.wiring(case['des'])
        rec['design'] = [{'id': e[0], 'sources': e[1], 'outputs': e[2]} for e in des]
        rec['as_design'] = all(e[0] == r[0] and e[1] == r[1] and e[2] == r[2] for e, r in zip(des, real))
    return rec


def case_variant(line):
    return int.from_bytes(hashlib.blake2b(line.encode(), digest_size=8).digest(), 'big')


def process_lines(lines, keep=3):
    """Worker: execute a block of vector lines -> summary dict (small, picklable)."""
    st = Counter()
    viol = {}            # (law, kind) -> up to `keep` smallest (argv text, line, rec)
    drift, empties, samples, keys = [], [], [], []
    nviol = Counter()
    ndrift = ndesign = 0
    for line in lines:
        line = line.strip()
        if not line:
            continue
        try:
            case = decode(line)
        except Exception as e:
            raise MachineryError(f'unreadable vector line {line[:200]!r}: {e}')
        h = case_variant(line)
        keys.append((h, nontrivial(case)))
        branch_stats(case, st)
        rec = run_case(case, h % 997, h % 5 == 0, st)
        st['executed'] += 1
        st['through_cmd_run' if rec['through_cmd_run'] else 'direct'] += 1
        st['real_raised' if 'raised' in rec['real'] else 'real_returned'] += 1
        text = ' '.join(rec['argv'])
        for law, kind, _ in rec['laws']:
            nviol[(law, kind)] += 1
            lst = viol.setdefault((law, kind), [])
            if not any(x[1] == line for x in lst):
                lst.append((text, line, rec))
                lst.sort(key=lambda x: (len(x[0]), x[0]))
                del lst[keep:]
        if rec['drift']:
            ndrift += 1
            drift.append((text, rec['drift'][0]))
            drift.sort(key=lambda x: (len(x[0]), x[0]))
            del drift[10:]
        if rec.get('design') is not None and not rec.get('as_design'):
            ndesign += 1
            empties.append({'argv': rec['argv'], 'code': rec['real'], 'intended_design': rec['design']})
            empties.sort(key=lambda e: (len(e['argv']), ' '.join(e['argv'])))
            del empties[1:]
        if not rec['laws'] and nontrivial(case) and len(case['cl']) > 1 and 'raised' not in rec['real']:
            samples.append({k: rec[k] for k in ('argv', 'expected', 'real')})
            samples.sort(key=lambda e: (-len(e['argv']), ' '.join(e['argv'])))
            del samples[1:]
    return {'st': st, 'viol': viol, 'nviol': nviol, 'drift': drift, 'ndrift': ndrift, 'ndesign': ndesign,
            'empties': empties, 'samples': samples, 'keys': keys}


def _warm(i):
    return os.getpid()


# ---------------------------------------------------------------------------------------------------------------------
# self-test of the harness (vacuity): corrupted expectations and corrupted results must be noticed

SELFTEST_LINE = ('<<FALSE, <<<<"VideoIn", "", 0, "list", <<<<"uri", 0, "", 0, "", 0, "">>>>, "list", '
                 '<<<<"tcp", 0, "", 0, "*", 5552, "">>>>, "log">>, '
                 '<<"Util", "a", 0, "absent", <<>>, "absent", <<>>, "">>, '
                 '<<"Webvis", "", 0, "list", <<<<"ref", 2, "", 0, "", 0, "??;t!o">>>>, "absent", <<>>, "">>>>, '
                 '<<<<"VideoIn", 0>>, <<"a", 0>>, <<"Webvis", 0>>>>, '
                 '<<"", <<<<"VideoIn", 0, <<<<"uri", 0, "", 0, "", 0, "">>>>, <<<<"tcp", 0, "", 0, "*", 5552, "">>>>, "log">>, '
                 '<<"a", 0, <<<<"tcp", 0, "", 0, "localhost", 5552, "">>>>, <<<<"tcp", 0, "", 0, "*", 5554, "">>>>, "">>, '
                 '<<"Webvis", 0, <<<<"tcp", 0, "", 0, "localhost", 5554, "??;t!o">>>>, <<>>, "">>>>>>, <<"same", <<>>>>>>')


def selftest():
    """- VideoIn --sources file://.. --outputs tcp://*:5552 --log pretty - Util --id a - Webvis --sources a??;main!x=1"""
    case = decode(SELFTEST_LINE)
    rec = run_case(case, 0, False)
    if rec['laws'] or rec['drift']:
        return None    # the tree under test does not even pass the plain case; the run itself will report that
    problems = []
    # 1. a corrupted expectation must show up as drift
    bad = decode(SELFTEST_LINE)
    bad['res'][1][1][3][0][I_P] = 5556
    if not run_case(bad, 0, False)['drift']:
        problems.append('a flipped expected port was not noticed')
    bad = decode(SELFTEST_LINE)
    bad['res'][1][2][2][0][I_S] = ''
    if not run_case(bad, 0, False)['drift']:
        problems.append('a dropped expected suffix was not noticed')

    # 2. corrupted results must falsify the corresponding law
    def t_dup(r):
        r[1] = (r[0][0],) + r[1][1:]
        return r

    def t_suffix(r):
        r[2] = (r[2][0], [r[2][1][0].split('?')[0]], r[2][2], r[2][3])
        return r

    def t_unbound(r):
        r[2] = (r[2][0], [r[2][1][0].replace('5554', '5558')], r[2][2], r[2][3])
        return r

    def t_wrong(r):
        r[2] = (r[2][0], [r[2][1][0].replace('5554', '5552')], r[2][2], r[2][3])
        return r

    def t_overlap(r):
        r[1] = (r[1][0], r[1][1], ['tcp://*:5553'], r[1][3])
        r[2] = (r[2][0], [r[2][1][0].replace('5554', '5553')], r[2][2], r[2][3])
        return r

    def t_pass_out(r):
        r[0] = (r[0][0], r[0][1], ['tcp://*:5560'], r[0][3])
        return r

    def t_pass_opt(r):
        r[0] = (r[0][0], r[0][1], r[0][2], {k: v for k, v in r[0][3].items() if k != 'log'})
        return r

    def t_pass_id(r):
        r[1] = ('Util',) + r[1][1:]
        return r

    def t_chain(r):
        r[1] = (r[1][0], ['tcp://localhost:6000'], r[1][2], r[1][3])
        return r
    for tamper, law, kind in ((t_dup, 'UniqueIds', 'dup_id'), (t_suffix, 'EverySourceBound', 'suffix'),
                              (t_unbound, 'EverySourceBound', 'unbound'), (t_wrong, 'EverySourceBound', 'wrong_target'),
                              (t_overlap, 'PortsDisjoint', 'overlap_user'), (t_pass_out, 'PassThrough', 'outputs'),
                              (t_pass_opt, 'PassThrough', 'option'), (t_pass_id, 'PassThrough', 'id'),
                              (t_chain, 'EverySourceBound', 'chain_unbound')):
        got = run_case(decode(SELFTEST_LINE), 0, False, tamper=lambda r, f=tamper: f(list(r)))['laws']
        if (law, kind) not in [(l, k) for l, k, _ in got]:
            problems.append(f'corrupted result ({tamper.__name__}) did not falsify {law}/{kind}: {got}')
    if problems:
        raise MachineryError('C12 harness self-test failed: ' + '; '.join(problems))
    return len(problems) == 0


# ---------------------------------------------------------------------------------------------------------------------
# TLC runs

def plan(ctx):
    """-> list of dict(cfg, kind ('exhaustive'|'sampled'|'expect'), purpose, simulate, seed, expect)"""
    tier = 'quick' if ctx.quick else 'thorough'
    laws = 'UniqueIds, EverySourceBound, PortsDisjoint, PassThrough on the design and on the code as it stands'
    runs = []
    facets = ['', '_ids', '_refs', '_ports', '_lists'] + ([] if ctx.quick else ['_ports16'])
    for f in facets:
        runs.append({'cfg': f'{MODULE}_{tier}{f}', 'kind': 'exhaustive',
                     'purpose': f'facet {f[1:] or "chain"}: {laws}; one vector per command line'})
    runs.append({'cfg': f'{MODULE}_ipcclash', 'kind': 'exhaustive',
                 'purpose': 'user-given ipc:// output named like another filter id under --ipc: the design has the '
                            'property; vectors carry the deviation ipc_name_clash'})
    runs.append({'cfg': f'{MODULE}_design', 'kind': 'design',
                 'purpose': 'Defects = {}: the intended design satisfies the four laws and EmptyRespected'})
    runs.append({'cfg': f'{MODULE}_defect_ipc', 'kind': 'expect', 'expect': 'AsIsEverySourceBound',
                 'purpose': 'the deviation ipc_name_clash must produce the counterexample to EverySourceBound'})
    runs.append({'cfg': f'{MODULE}_defect_empty', 'kind': 'expect', 'expect': 'AsIsEmptyRespected',
                 'purpose': 'the deviation assign_empty_ignored must produce the counterexample to EmptyRespected'})
    nsim, num = (6, 500) if ctx.quick else (16, 4000)
    nsml, numl = (3, 500) if ctx.quick else (8, 4000)
    for i in range(nsim):
        runs.append({'cfg': f'{MODULE}_sim', 'kind': 'sampled', 'simulate': f'num={num}', 'seed': ctx.seed * 1000 + i + 1,
                     'purpose': f'sampled command lines of 5-6 filters over the full alphabet (seed {ctx.seed * 1000 + i + 1})'})
    for i in range(nsml):
        runs.append({'cfg': f'{MODULE}_sim_small', 'kind': 'sampled', 'simulate': f'num={numl}',
                     'seed': ctx.seed * 1000 + 500 + i + 1,
                     'purpose': f'sampled command lines of 2-4 filters over the full alphabet (seed {ctx.seed * 1000 + 500 + i + 1})'})
    return runs


def tlc_run(run, tmp, idx, workers):
    out = os.path.join(tmp, f'vec_{idx}.txt')
    kw = {}
    if run['kind'] == 'sampled':
        kw = dict(simulate=run['simulate'], depth=12, seed=run['seed'], workers=1)
    else:
        kw = dict(workers=1 if run['kind'] == 'expect' else workers)   # one worker: the same counterexample every run
    env = {} if run['kind'] in ('expect', 'design') else {'VERIF_OUT': out}
    res = run_tlc(SPEC_DIR, run['cfg'], MODULE, env=env, timeout=3000, **kw)
    return run, res, out


def run(ctx):
    load_real()
    rep = Report(ctx)
    rep.rule = ('case = one abstract command line (1-6 filters; per filter: class, --id, --sources, --outputs, extra '
                'option; --ipc) rendered to a real argv; exhaustive cases are all command lines over a facet alphabet, '
                'sampled cases come from TLC -simulate over the full alphabet; distinct = distinct vector lines (hash of '
                'the abstract case); non-trivial = the reference wiring contains at least one source (a wiring '
                'obligation) or the reference rejects the command line')
    rep.assumptions = [
        'the quantifier keeps user-given endpoints pairwise disjoint (two filters given the same port / ipc name is '
        'the user\'s conflict); --outputs_metrics and other options that bind ports are outside the quantifier',
        'filters with a list of outputs mixing tcp:// and non-mq addresses are not generated (no built-in accepts one)',
        'ids are plain words (an id that is valid JSON such as 5 or true is decoded by the CLI and is outside the domain)',
        'a user-given tcp port in a *source* address is not a bound port (PortsDisjoint speaks about outputs)',
    ]
    self_ok = selftest()
    rep.extra['selftest'] = 'passed' if self_ok else 'skipped: the plain case already fails on this tree'
    runs = plan(ctx)
    tmp = tempfile.mkdtemp(prefix='c12_')
    st = Counter()
    nviol = Counter()
    viol, drift, empties = {}, [], []
    ndrift = ndesign = 0
    per_run = []
    sample_of = {}
    nproc = max(2, NCPU - 4)

    def merge(s, run_samples):
        nonlocal ndrift, ndesign
        st.update(s['st'])
        nviol.update(s['nviol'])
        for k, lst in s['viol'].items():
            cur = viol.setdefault(k, [])
            cur += [x for x in lst if not any(y[1] == x[1] for y in cur)]
            cur.sort(key=lambda x: (len(x[0]), x[0]))
            del cur[3:]
        drift.extend(s['drift'])
        ndrift += s['ndrift']
        ndesign += s['ndesign']
        empties.extend(s['empties'])
        run_samples.extend(s['samples'])
        for h, nt in s['keys']:
            rep.case(h, nt)
        rep.traces += len(s['keys'])
        return len(s['keys'])

    try:
        ctxmp = mp.get_context('fork')
        with cf.ProcessPoolExecutor(nproc, mp_context=ctxmp) as ppool:
            list(ppool.map(_warm, range(nproc * 2)))          # fork every worker before any thread exists
            with cf.ThreadPoolExecutor(4 if ctx.quick else 3) as tpool:
                futs = [tpool.submit(tlc_run, r, tmp, i, max(2, NCPU // 2)) for i, r in enumerate(runs)]
                for fut in futs:
                    r, res, out = fut.result()
                    rep.add_tlc(r['cfg'] + (f' -simulate {r["simulate"]} -seed {r["seed"]}' if r['kind'] == 'sampled' else ''),
                                res, r['purpose'])
                    if r['kind'] == 'expect':
                        if res.violated != r['expect']:
                            raise MachineryError(f'{r["cfg"]}: the specification with the known deviation in force should '
                                                 f'violate {r["expect"]}, TLC says '
                                                 f'{res.violated or res.error or "no violation"}')
                        continue
                    tlc_must_pass(res, r['cfg'])
                    if r['kind'] == 'design':
                        continue
                    if not os.path.exists(out):
                        raise MachineryError(f'{r["cfg"]}: TLC wrote no vectors\n{res.out[-2000:]}')
                    ncase, pend, run_samples = 0, [], []
                    with open(out) as fh:
                        block = []
                        for line in fh:
                            block.append(line)
                            if len(block) >= 3000:
                                pend.append(ppool.submit(process_lines, block))
                                block = []
                                if len(pend) >= nproc * 3:
                                    ncase += merge(pend.pop(0).result(), run_samples)
                        if block:
                            pend.append(ppool.submit(process_lines, block))
                    os.unlink(out)
                    for p in pend:
                        ncase += merge(p.result(), run_samples)
                    per_run.append({'config': r['cfg'], 'seed': r.get('seed'), 'cases': ncase})
                    if r['kind'] == 'exhaustive' and ncase == 0:
                        raise MachineryError(f'{r["cfg"]}: no cases')
                    if run_samples:
                        best = sorted(run_samples, key=lambda e: (-len(e['argv']), ' '.join(e['argv'])))[0]
                        sample_of.setdefault(r['cfg'], {'config': r['cfg'], **best})
    finally:
        import shutil
        shutil.rmtree(tmp, ignore_errors=True)
    for cfg in sorted(sample_of, key=lambda c: (not c.endswith('_sim'), not c.endswith('_sim_small'), c))[:6]:
        rep.sample(sample_of[cfg])
    # verdicts
    for (law, kind), lst in sorted(viol.items()):
        for argv, line, rec in lst:
            text = [t for l, k, t in rec['laws'] if (l, k) == (law, kind)][0]
            rep.violation(f'{law} is false ({kind}) for: openfilter run {argv} -- {text}',
                          {'line': line, 'argv': rec['argv'], 'ipc': rec['ipc'], 'expected': rec['expected'],
                           'real': rec['real'], 'laws': rec['laws'], 'through_cmd_run': rec['through_cmd_run']},
                          {'law': law, 'kind': kind})
    for argv, text in sorted(drift, key=lambda x: (len(x[0]), x[0]))[:10]:
        rep.drift_note(f'openfilter run {argv}: {text}')
    if ndrift > 10:
        rep.note(f'{ndrift} cases differ from the reference wiring in total')
    if ndesign:
        ex = sorted(empties, key=lambda e: (len(e['argv']), ' '.join(e['argv'])))[0]
        rep.drift_note(f'design vs code (not part of C12\'s formula): {ndesign} command lines with an empty '
                       f'"--sources=" / "--outputs=" are wired as if the option was absent (common.py l.116-122 drops it, '
                       f'l.255-261 mean it as "none"; spec deviation assign_empty_ignored), e.g. openfilter run '
                       f'{" ".join(ex["argv"])} -> {[(f["id"], f["sources"], f["outputs"]) for f in ex["code"]]}')
    required = ['id_given', 'id_auto_single', 'id_auto_numbered', 'ref_err_duplicate_id', 'ref_err_self_source',
                'ref_err_nonmq_source', 'chained', 'not_chained', 'src_bare', 'src_assign_empty', 'out_bare',
                'out_assign_empty', 'ref_suffix', 'ref_plain', 'ref_forward', 'ref_backward', 'ref_to_user_output',
                'ref_alloc_tcp', 'ref_alloc_ipc', 'ref_first_of_two_outputs', 'ref_to_output_type_filter', 'ref_in_list',
                'src_tcp_passthrough', 'src_ipc_passthrough', 'src_uri_passthrough', 'auto_port_next_to_user_port',
                'several_auto_ports', 'law_bound_explicit', 'law_bound_chained', 'law_ports_pairs', 'law_pass_items',
                'through_cmd_run', 'direct']
    missing = [k for k in required if not st[k]]
    if missing:
        raise MachineryError(f'vacuity: no case exercised {missing}')
    rep.extra['branch_counts'] = dict(sorted(st.items()))
    rep.extra['cases_per_run'] = per_run
    rep.extra['violations_by_kind'] = {f'{l}/{k}': c for (l, k), c in sorted(nviol.items())}
    rep.extra['cases_differing_from_reference'] = ndrift
    rep.extra['cases_where_code_deviates_from_intended_design'] = ndesign
    rep.exhaustive = False
    rep.extra['exhaustive_part'] = (f'every command line of 1-{3 if ctx.quick else 4} filters over each facet alphabet '
                                    f'(spec/func/CliWiring_{"quick" if ctx.quick else "thorough"}*.cfg); 5-6 filters sampled')
    return rep.finish()


def replay(ctx):
    load_real()
    w = json.load(open(ctx.replay))
    wit = w['witness']
    case = decode(wit['line'])
    h = case_variant(wit['line'].strip())
    rec = run_case(case, h % 997, wit.get('through_cmd_run', False))
    print('openfilter run ' + ' '.join(rec['argv']))
    print(json.dumps({'expected': rec['expected'], 'real': rec['real']}, indent=1, default=str))
    for law, kind, text in rec['laws']:
        print(f'VIOLATION property=C12 replay={ctx.replay}\n  {law} is false ({kind}): {text}')
    if not rec['laws']:
        print('the four laws hold on this command line now')
    return 1 if rec['laws'] else 0

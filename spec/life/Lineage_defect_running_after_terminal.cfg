CONSTANTS
  Defects = {"abort_at_every_site", "running_after_terminal"}
  K = 1
  PropSet = {"all"}
  ObeySet = {"all"}
  EASet = {"none"}
  WithInterrupt = FALSE
  EarlyExit = TRUE
  Emit = FALSE
  MaxTicks = 1
INIT LInit
NEXT LNext
INVARIANT C18_NoRunningAfterTerminal

"""C16 - only allow-listed metrics are exported; an empty allow-list exports nothing.

Specification: spec/func/Allowlist.tla (glob reference, Exported(allow, metrics), histogram shape).  TLC checks the laws
for every case of the bounded domain (one state per case) and serialises the vectors; every vector is executed against
the real OTelLineageExporter fed by a real OpenTelemetry MeterProvider (in-memory reader), through the three allow-list
sources (argument, OF_SAFE_METRICS, YAML file), and - for a sample - through OpenTelemetryClient's own wiring in a fresh
interpreter.
"""
import json
import os
import subprocess
import sys
import tempfile

from . import common
from .common import Report, run_tlc, tlc_emit_json, tlc_must_pass, SPEC, REPO

CH = {'a': 'fr', 'b': 'x_', 'c': 'q9', '*': '*'}   # lower case: the OpenTelemetry SDK lower-cases instrument names
KINDS = ('counter', 'histogram', 'gauge', 'updown')


def name_of(seq):
    return ''.join(CH[c] for c in seq)


def collect(names_kinds, values):
    """Real OTel pipeline -> MetricsData with one metric per (name, kind)."""
    from opentelemetry.sdk.metrics import MeterProvider
    from opentelemetry.sdk.metrics.export import InMemoryMetricReader
    from opentelemetry.metrics import Observation
    reader = InMemoryMetricReader()
    prov = MeterProvider(metric_readers=[reader])
    meter = prov.get_meter('verif')
    for (name, kind) in names_kinds:
        vs = values[name]
        if kind == 'counter':
            c = meter.create_counter(name)
            for v in vs:
                c.add(abs(v))
        elif kind == 'updown':
            c = meter.create_up_down_counter(name)
            for v in vs:
                c.add(v)
        elif kind == 'histogram':
            h = meter.create_histogram(name)
            for v in vs:
                h.record(abs(v))
        else:
            last = vs[-1]
            meter.create_observable_gauge(name, callbacks=[lambda opts, last=last: [Observation(last)]])
    data = reader.get_metrics_data()
    prov.shutdown()
    return data


_YAML_PATH = None


class Capture:
    def __init__(self):
        self.facets = []

    def update_heartbeat_lineage(self, *, facets=None, job=None, producer=None):
        if facets is not None:
            self.facets.append(dict(facets))


def exported_names(facet, kinds):
    """Map facet keys back to metric names (histograms are exported as <name>_histogram)."""
    out = set()
    for k in facet:
        if k == 'raw_subject_data':
            continue
        if k.endswith('_histogram') and kinds.get(k[:-len('_histogram')]) == 'histogram':
            out.add(k[:-len('_histogram')])
        else:
            out.add(k)
    return out


def hist_shape_ok(h):
    return (isinstance(h, dict) and len(h.get('counts', ())) == len(h.get('buckets', ())) + 1
            and all(isinstance(c, int) and not isinstance(c, bool) for c in h['counts'])
            and all(isinstance(b, float) for b in h['buckets'])
            and isinstance(h.get('count'), int) and isinstance(h.get('sum'), float))


def make_exporter(source, allow, cap):
    """Build the exporter the way the code base does for the given allow-list source."""
    from openfilter.observability.bridge import OTelLineageExporter
    from openfilter.observability import config as ofcfg
    env_keys = ('OF_SAFE_METRICS', 'OF_SAFE_METRICS_FILE')
    saved = {k: os.environ.pop(k, None) for k in env_keys}
    tmp = None
    try:
        if source == 'arg':
            return OTelLineageExporter(cap, allowlist=set(allow))
        if source == 'default':      # nothing configured anywhere
            return OTelLineageExporter(cap, allowlist=ofcfg.read_allowlist())
        if source in ('yaml_nosection', 'yaml_null'):
            # a configuration file that says nothing usable about safe metrics (only another section / the key with no entries)
            fd, tmp = tempfile.mkstemp(suffix='.yaml')
            with os.fdopen(fd, 'w') as fh:
                fh.write('openlineage:\n  url: http://localhost:5000\n' if source == 'yaml_nosection'
                         else 'safe_metrics:\n#  - frames_processed\nopenlineage:\n  url: http://localhost:5000\n')
            os.environ['OF_SAFE_METRICS_FILE'] = tmp
            return OTelLineageExporter(cap, allowlist=ofcfg.read_allowlist())
        if source == 'env':
            # (one more entry with a blank inside, next to a star: an entry is what stands between two commas, and no instrument
            # name contains a blank - it can never match anything)
            os.environ['OF_SAFE_METRICS'] = ' , '.join(list(allow) + ['zz_ *']) + ' ,'
            return OTelLineageExporter(cap, allowlist=ofcfg.read_allowlist())
        if source == 'yaml':
            # ONE configuration file for the whole run, rewritten for every case: the allow-list in force is the one the
            # file holds when the exporter is built (a tightened file must take effect)
            global _YAML_PATH
            if _YAML_PATH is None:
                fd, _YAML_PATH = tempfile.mkstemp(suffix='.yaml')
                os.close(fd)
            with open(_YAML_PATH, 'w') as fh:
                fh.write('safe_metrics:\n' + ''.join(f'  - {json.dumps(a)}\n' for a in allow) if allow
                         else 'safe_metrics: []\n')
            os.environ['OF_SAFE_METRICS_FILE'] = _YAML_PATH
            return OTelLineageExporter(cap, allowlist=ofcfg.read_allowlist())
        raise ValueError(source)
    finally:
        for k, v in saved.items():
            os.environ.pop(k, None)
            if v is not None:
                os.environ[k] = v
        if tmp:
            os.unlink(tmp)


CLIENT_PROBE = r'''
import sys, json, os, logging
sys.path.insert(0, sys.argv[1]); logging.disable(logging.CRITICAL)
spec = json.loads(sys.argv[2])
for k in ('OF_SAFE_METRICS', 'OF_SAFE_METRICS_FILE'):
    os.environ.pop(k, None)
if spec['allow'] is not None:
    os.environ['OF_SAFE_METRICS'] = ','.join(spec['allow'])
from openfilter.observability.client import OpenTelemetryClient
class Cap:
    def __init__(self): self.facets = []
    def update_heartbeat_lineage(self, *, facets=None, job=None, producer=None):
        if facets is not None: self.facets.append(dict(facets))
cap = Cap()
cl = OpenTelemetryClient(service_name='svc', enabled=True, lineage_emitter=cap, exporter_type='silent')
meter = cl.business_meter or cl.meter
for n in spec['metrics']:
    meter.create_counter(n).add(3)
cl.update_metrics({'frames': 5, 'fps': 2.0}, 'flt')
cl.provider.force_flush()
cl.provider.shutdown()
keys = set()
for f in cap.facets: keys |= set(f)
print('KEYS ' + json.dumps(sorted(keys)))
'''


def run(ctx):
    common.use_repo()
    rep = Report(ctx)
    rep.rule = ('case = (allow-list, declared metric set, allow-list source, instrument kinds, value sequence); '
                'distinct = distinct (source, allow, metrics) triples; non-trivial = at least one metric declared '
                'and recorded')
    rep.assumptions = ['metric names/patterns are rendered from a 2-3 letter alphabet; fnmatch character classes '
                       "('?', '[..]') are outside the property's domain",
                       'OpenTelemetry SDK aggregation is trusted (real MeterProvider + InMemoryMetricReader)']
    cfg = 'Allowlist_quick' if ctx.quick else 'Allowlist_thorough'
    res, data = tlc_emit_json(os.path.join(SPEC, 'func'), cfg, module='Allowlist', timeout=3000)
    tlc_must_pass(res, cfg)
    rep.add_tlc(cfg, res, 'laws LockDown/OnlyListed/Subset/Union/Monotone on every (A, B, M) case; vectors')
    vectors = data['vectors']
    r = common.rng(ctx)
    if ctx.quick and len(vectors) > 1200:
        # keep every empty-allow-list vector and a seeded sample of the rest
        keep = [v for v in vectors if not v['allow']]
        rest = [v for v in vectors if v['allow']]
        r.shuffle(rest)
        vectors = keep + rest[:1200 - len(keep)]
    sources = ('arg', 'env', 'yaml')
    nviol = 0
    # the configuration file starts wide open and is tightened afterwards: every later case must see the file as it is then
    make_exporter('yaml', ['*'], Capture())
    # ... and an earlier pipeline of this process exported everything: a verdict is the business of one exporter and its own list
    allnames = sorted({name_of(m) for v in vectors for m in v['metrics']})
    make_exporter('arg', ['*'], Capture()).export(collect([(n, KINDS[i % len(KINDS)]) for i, n in enumerate(allnames)],
                                                          {n: [1] for n in allnames}))
    for vi, v in enumerate(vectors):
        allow = [name_of(p) for p in v['allow']]
        names = [name_of(m) for m in v['metrics']]
        expect = {name_of(m) for m in v['exported']}
        kinds = {n: KINDS[(vi + i) % len(KINDS)] for i, n in enumerate(names)}
        values = {n: [r.choice([1, 2, 7, 0.5, 3.25, 100]) for _ in range(r.randint(1, 4))] for n in names}
        md = collect([(n, kinds[n]) for n in names], values)
        srcs = sources if not ctx.quick else (sources[vi % 3],)
        if not allow:
            srcs = tuple(srcs) + ('default', 'yaml_nosection', 'yaml_null')
        for source in srcs:
            cap = Capture()
            exp = make_exporter(source, allow, cap)
            exp.export(md)
            facet = {}
            for f in cap.facets:
                facet.update(f)
            got = exported_names(facet, kinds)
            rep.case((source, tuple(allow), tuple(names)))
            rep.traces += 1
            w = {'source': source, 'allow': allow, 'metrics': kinds, 'expected_exported': sorted(expect),
                 'exported': sorted(got), 'facet_keys': sorted(facet)}
            rep.sample(w, 4)
            leaked = got - expect
            missing = expect - got
            if leaked:
                nviol += 1
                rep.violation(f'metric(s) {sorted(leaked)} exported with allow-list {allow!r} (source {source})', w,
                              {'kind': 'leak', 'empty_allowlist': not allow})
            elif missing:
                # withholding an allow-listed metric is not a violation of "only if"; it is drift from the reference
                rep.drift_note(f'allow-listed metric(s) {sorted(missing)} not exported with {allow!r} ({source})')
            for k, h in facet.items():
                if k.endswith('_histogram') and isinstance(h, dict):
                    if not hist_shape_ok(h):
                        rep.violation(f'histogram {k} has malformed shape {h}', w, {'kind': 'hist_shape'})
    # histogram shape with mismatched count/bound lengths (synthetic data points; the exporter's repair rule)
    from types import SimpleNamespace as NS
    for hv in data['hist']:
        nb, nc = hv['nb'], hv['nc']
        point = NS(bucket_counts=list(range(1, nc + 1)), explicit_bounds=[float(i) for i in range(nb)], count=nc,
                   sum=1.5)
        md = NS(resource_metrics=[NS(scope_metrics=[NS(scope=NS(name='s'), metrics=[
            NS(name='frh', data=NS(data_points=[point]))])])])
        cap = Capture()
        make_exporter('arg', ['*'], cap).export(md)
        facet = cap.facets[0] if cap.facets else {}
        h = facet.get('frh_histogram')
        rep.case(('hist', nb, nc))
        rep.traces += 1
        if h is None or not hist_shape_ok(h) or h['counts'] != hv['counts']:
            rep.violation(f'histogram with {nb} bounds / {nc} counts exported as {h}, reference counts {hv["counts"]}',
                          {'nb': nb, 'nc': nc, 'facet': facet}, {'kind': 'hist_shape'})
    # the client's own wiring (fresh interpreter: the OTel meter provider is a process-wide singleton)
    probes = [{'allow': None, 'metrics': ['frx_', 'x_fr']}, {'allow': ['fr*'], 'metrics': ['frx_', 'x_fr']},
              {'allow': ['x_fr'], 'metrics': ['frx_', 'x_fr']}]
    if not ctx.quick:
        probes += [{'allow': ['*'], 'metrics': ['a1', 'b2']}, {'allow': ['flt_*'], 'metrics': ['a1']},
                   {'allow': [], 'metrics': ['a1']}]
    # a sample of the specification's vectors through the same wiring, rendered over an alphabet in which names and patterns
    # end in "_histogram" (the suffix the exporter gives to histogram keys): an entry is a pattern for instrument names,
    # nothing else
    ch2 = dict(CH, b='_histogram')
    suff = [v for v in data['vectors'] if v['allow'] and v['metrics'] and any(len(p_) > 1 and p_[-1] == 'b' for p_ in v['allow'])]
    rest = [v for v in data['vectors'] if v['allow'] and v['metrics'] and v not in suff[:400]]
    r.shuffle(suff)
    r.shuffle(rest)
    nsamp = 12 if ctx.quick else 120
    # (instrument names must start with a letter: every name gets the prefix "m", and so does every pattern that does not
    # start with "*" - matching is unchanged by that)
    ren = lambda q: 'm' + ''.join(ch2[c] for c in q)
    renp = lambda q: ''.join(ch2[c] for c in q) if q[0] == '*' else ren(q)
    for v in suff[:nsamp] + rest[:nsamp]:
        probes.append({'allow': [renp(p_) for p_ in v['allow']], 'metrics': sorted({ren(m) for m in v['metrics']}),
                       'expect': sorted({ren(m) for m in v['exported']})})
    import fnmatch
    from concurrent.futures import ThreadPoolExecutor

    def probe(p):
        pr = subprocess.run([sys.executable, '-c', CLIENT_PROBE, REPO, json.dumps(p)], capture_output=True, text=True, timeout=600)
        return p, pr.stdout, pr.stderr
    with ThreadPoolExecutor(common.NCPU) as ex:
        results = list(ex.map(probe, probes))
    for p, out, err in results:
        line = [l for l in out.splitlines() if l.startswith('KEYS ')]
        if not line:
            raise common.MachineryError(f'client probe failed: {err[-2000:]}')
        keys = json.loads(line[0][5:])
        allow = p['allow'] or []
        bad = [k for k in keys if k != 'raw_subject_data' and not any(fnmatch.fnmatchcase(k, a) for a in allow)
               and not (k.endswith('_histogram') and any(fnmatch.fnmatchcase(k[:-10], a) for a in allow))]
        rep.case(('client', tuple(allow), tuple(p['metrics'])))
        rep.traces += 1
        w = {'source': 'OpenTelemetryClient wiring', 'allow': p['allow'], 'declared': p['metrics'],
             'facet_keys': keys}
        rep.sample(w, 6)
        if 'expect' in p:     # the specification's Exported(allow, metrics) for the declared metrics
            bad = sorted(set(bad) | ((set(keys) & set(p['metrics'])) - set(p['expect'])))
            w['expected_exported'] = p['expect']
        if bad:
            rep.violation(f'OpenTelemetryClient exported {bad} with allow-list {p["allow"]!r}', w,
                          {'kind': 'leak', 'empty_allowlist': not allow})
    rep.exhaustive = not ctx.quick
    if _YAML_PATH and os.path.exists(_YAML_PATH):
        os.unlink(_YAML_PATH)
    return rep.finish()


def replay(ctx):
    w = json.load(open(ctx.replay))
    print(json.dumps(w, indent=1))
    return run(ctx)

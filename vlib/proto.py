"""Protocol harness (C01-C07): topologies shared by the TLA+ model configurations and the simulated real pipeline,
the simulated pipeline itself (real Filter / MQ / ZMQSender / ZMQReceiver classes from the working tree on simzmq),
projection of the real objects into the specification's vocabulary, replay of TLC behaviours, observers.
"""
from __future__ import annotations

import json
import os
import shutil
import tempfile

from . import common, simzmq

HTOPIC = '_filter'
NOPAY = (-1, -1, -1)


# ---------------------------------------------------------------------------------------------------------------------
# Topology = the constants of OFP.tla

def src(pub, out=1, eph=0, topics=None, star=False):
    """topics None = subscribe all; list of (src, dst) = explicit / remapped; star = '*'"""
    return {'pub': pub, 'out': out, 'eph': eph, 'all': topics is None and not star, 'star': star,
            'tmap': [tuple(t) for t in (topics or [])]}


def beh(kind='relay', tseq=(), skip=(), slow=False, lazy=False, ren=(), hid=False, lowlat=False):
    return {'kind': kind, 'tseq': [list(t) for t in tseq], 'skip': list(skip), 'slow': slow, 'lazy': lazy,
            'ren': [tuple(r) for r in ren], 'hid': hid, 'lowlat': lowlat}


class Topo:
    sub_hwm = 0       # OFP!SubHWM: 0 = no flow control (a class default: old topology dictionaries need not carry it)

    def __init__(self, name, filters, *, maxseq=2, conn_ticks=0, pub_hwm=20, push_hwm=3, handshake=True,
                 topic_order=('main', 'b', 'c', HTOPIC)):
        """filters: ordered dict name -> dict(srcs=[src...], nout=int, outbal=bool, srcbal=bool, required=[...], beh=beh())"""
        self.name = name
        self.filters = filters
        self.names = list(filters)
        self.maxseq, self.conn_ticks, self.pub_hwm, self.push_hwm, self.handshake = maxseq, conn_ticks, pub_hwm, push_hwm, handshake
        self.topic_order = list(topic_order)
        # every topic name that can ever be published (remapped names are republished by relays) needs a place in the order
        extra = []
        for d in filters.values():
            for s_ in d.get('srcs', []):
                extra += [b for _, b in s_['tmap']]
            bh = d.get('beh') or {}
            extra += [b for _, b in bh.get('ren', [])]
            for ts in bh.get('tseq', []):
                extra += list(ts)
        for t in extra:
            if t not in self.topic_order:
                self.topic_order.insert(len(self.topic_order) - 1 if self.topic_order and self.topic_order[-1] == HTOPIC else len(self.topic_order), t)
        self.fidx = {f: i + 1 for i, f in enumerate(self.names)}
        for f, d in filters.items():
            d.setdefault('srcs', [])
            d.setdefault('nout', 0)
            d.setdefault('outbal', False)
            d.setdefault('srcbal', False)
            d.setdefault('required', [])
            d.setdefault('beh', beh('origin' if not d['srcs'] else ('sink' if not d['nout'] else 'relay'),
                                    tseq=[['main']] if not d['srcs'] else ()))

    def to_dict(self):
        return {'name': self.name, 'filters': self.filters, 'maxseq': self.maxseq, 'conn_ticks': self.conn_ticks,
                'pub_hwm': self.pub_hwm, 'push_hwm': self.push_hwm, 'handshake': self.handshake,
                'topic_order': self.topic_order}

    @staticmethod
    def from_dict(d):
        fl = {}
        for f, x in d['filters'].items():
            x = dict(x)
            x['srcs'] = [dict(s, tmap=[tuple(t) for t in s['tmap']]) for s in x['srcs']]
            x['beh'] = dict(x['beh'], ren=[tuple(r) for r in x['beh']['ren']])
            fl[f] = x
        return Topo(d['name'], fl, maxseq=d['maxseq'], conn_ticks=d['conn_ticks'], pub_hwm=d['pub_hwm'],
                    push_hwm=d['push_hwm'], handshake=d['handshake'], topic_order=d['topic_order'])

    def conns(self):
        return [(f, i + 1) for f in self.names for i in range(len(self.filters[f]['srcs']))]

    def src_of(self, c):
        return self.filters[c[0]]['srcs'][c[1] - 1]

    def conns_of(self, g):
        return [c for c in self.conns() if self.src_of(c)['pub'] == g]

    def port(self, f, out):
        return 5550 + 20 * self.fidx[f] + 2 * (out - 1)

    # ---- TLA+ rendering ---------------------------------------------------------------------------------------------
    @staticmethod
    def _s(x):
        return '"' + x + '"'

    def _set(self, xs, f=None):
        return '{' + ', '.join((f or self._s)(x) for x in xs) + '}'

    def _fn(self, render):
        body = ' @@ '.join(f'{self._s(f)} :> {render(f)}' for f in self.names)
        return f'({body})'

    def mc_module(self, modname, extra_defs=''):
        S = self._s
        pair = lambda p: f'<<{S(p[0])}, {S(p[1])}>>'

        def rsrc(s):
            return (f'[pub |-> {S(s["pub"])}, out |-> {s["out"]}, eph |-> {s["eph"]}, all |-> {str(s["all"]).upper()}, '
                    f'star |-> {str(s["star"]).upper()}, tmap |-> {self._set(s["tmap"], pair)}]')

        def rbeh(b):
            tseq = '<<' + ', '.join(self._set(t) for t in b['tseq']) + '>>'
            return (f'[kind |-> {S(b["kind"])}, tseq |-> {tseq}, skip |-> {self._set(b["skip"], str)}, '
                    f'slow |-> {str(b["slow"]).upper()}, lazy |-> {str(b["lazy"]).upper()}, '
                    f'ren |-> {self._set(b["ren"], pair)}, hid |-> {str(b["hid"]).upper()}, '
                    f'lowlat |-> {str(b["lowlat"]).upper()}]')
        F = self.filters
        lines = [f'---- MODULE {modname} ----', '(* generated by vlib/proto.py from the Python topology ' + self.name + ' *)',
                 'EXTENDS OFP',
                 f'cFilters == {self._set(self.names)}',
                 'cSrcs == ' + self._fn(lambda f: '<<' + ', '.join(rsrc(s) for s in F[f]['srcs']) + '>>'),
                 'cNOut == ' + self._fn(lambda f: str(F[f]['nout'])),
                 'cOutBal == ' + self._fn(lambda f: str(F[f]['outbal']).upper()),
                 'cSrcBal == ' + self._fn(lambda f: str(F[f]['srcbal']).upper()),
                 'cRequired == ' + self._fn(lambda f: self._set(F[f]['required'])),
                 'cBeh == ' + self._fn(lambda f: rbeh(F[f]['beh'])),
                 'cFIdx == ' + self._fn(lambda f: str(self.fidx[f])),
                 'NoExit == 0 - 1',
                 'cExitAt == ' + self._fn(lambda f: 'NoExit' if F[f].get('exit_at', -1) < 0 else str(F[f]['exit_at'])),
                 'cExitKind == ' + self._fn(lambda f: S(F[f].get('exit_kind', 'clean'))),
                 'cPropExit == ' + self._fn(lambda f: self._set(F[f].get('prop_exit', []))),
                 'cObeyExit == ' + self._fn(lambda f: self._set(F[f].get('obey_exit', []))),
                 'cTopicOrder == <<' + ', '.join(S(t) for t in self.topic_order) + '>>',
                 'cBlocking == ' + self._set([f for f in self.names if F[f].get('blocking')]),
                 'cSrcTimeout == ' + self._fn(lambda f: str(int(F[f].get('sources_timeout', 0)) // 100)),
                 extra_defs,
                 '====']
        return '\n'.join(lines) + '\n'

    def mc_cfg(self, spec='SpecPrompt', *, defects=(), max_faults=0, fault_kinds=(), victims=(), invariants=(
            'NoViolation', 'NoCrash', 'TypeOK'), constraint='Bound', view=True, properties=(), extra='', check_c03=False):
        S = self._s
        lines = ['CONSTANTS', '  Filters <- cFilters', '  Srcs <- cSrcs', '  NOut <- cNOut', '  OutBal <- cOutBal',
                 '  SrcBal <- cSrcBal', '  Required <- cRequired', '  Beh <- cBeh', '  FIdx <- cFIdx',
                 '  TopicOrder <- cTopicOrder',
                 f'  MaxSeq = {self.maxseq}', f'  ConnTicks = {self.conn_ticks}', f'  PubHWM = {self.pub_hwm}', f'  SubHWM = {self.sub_hwm}',
                 f'  PushHWM = {self.push_hwm}', f'  Handshake = {str(self.handshake).upper()}',
                 f'  Defects = {self._set(defects)}', f'  MaxFaults = {max_faults}',
                 f'  FaultKinds = {self._set(fault_kinds)}', f'  Victims = {self._set(victims)}',
                 f'  CheckC03 = {str(check_c03).upper()}',
                 '  ExitAt <- cExitAt', '  ExitKind <- cExitKind', '  PropExit <- cPropExit', '  ObeyExit <- cObeyExit',
                 '  Blocking <- cBlocking', '  SrcTimeout <- cSrcTimeout',
                 f'SPECIFICATION {spec}']
        if view:
            lines.append('VIEW view')
        if constraint:
            lines.append(f'CONSTRAINT {constraint}')
        lines += [f'INVARIANT {i}' for i in invariants]
        lines += [f'PROPERTY {p}' for p in properties]
        lines.append(extra)
        return '\n'.join(lines) + '\n'


BOUND_DEF = '''Bound == /\\ \\A c \\in Conns : Len(pubq[c]) + Len(subq[c]) <= {pq} /\\ Len(reqq[c]) <= {rq}
         /\\ \\A f \\in Filters : \\A o \\in 1..NOut[f] : Len(pullq[f][o]) <= {lq}
         /\\ TLCGet("level") <= {depth}
'''


class ModelDir:
    """Scratch directory holding OFP.tla and a generated MC module + cfg; removed on close."""

    def __init__(self, topo: Topo, modname=None, pq=8, rq=3, lq=4, depth=100000, extra_defs=''):
        self.topo = topo
        self.dir = tempfile.mkdtemp(prefix='ofp_')
        self.mod = modname or f'MC_{topo.name}'
        shutil.copy(os.path.join(common.SPEC, 'proto', 'OFP.tla'), self.dir)
        with open(os.path.join(self.dir, self.mod + '.tla'), 'w') as fh:
            fh.write(topo.mc_module(self.mod, BOUND_DEF.format(pq=pq, rq=rq, lq=lq, depth=depth) + extra_defs))

    def run(self, cfgname, cfgtext, **kw):
        with open(os.path.join(self.dir, cfgname + '.cfg'), 'w') as fh:
            fh.write(cfgtext)
        return common.run_tlc(self.dir, cfgname, self.mod, **kw)

    def close(self):
        shutil.rmtree(self.dir, ignore_errors=True)

    def __enter__(self):
        return self

    def __exit__(self, *a):
        self.close()


# ---------------------------------------------------------------------------------------------------------------------
# The simulated real pipeline

_Z = None


def load_real():
    """Import the code under test and put it on the simulated network.  The classes are the working tree's, unmodified:
    only the module globals through which zeromq.py reaches the outside world are substituted."""
    global _Z
    common.use_repo()
    if _Z is None:
        from openfilter.filter_runtime import zeromq as Z
        Z.zmq = simzmq
        _Z = Z
    return _Z


class Idle(BaseException):
    pass


class AppExit(Exception):
    """a blocking application (OFP!Blocking) ends itself"""


class SeededFault(RuntimeError):
    """the error a filter raises on purpose when the topology says it ends by an error (ExitKind = "error")"""


class SimPipeline:
    """Runs the topology's filters as real `Filter` subclasses (Filter.run) on a simzmq World."""

    def __init__(self, topo: Topo, *, local_clocks=True, poll_ms=100, record=False, work_ms=250, sub_rcvhwm=0, warn=True):
        Z = load_real()
        from openfilter.filter_runtime import filter as Fm, mq as Mm
        self.Z, self.Fm, self.Mm = Z, Fm, Mm
        self.topo = topo
        self.world = w = simzmq.World(local_clocks=local_clocks)
        w.sub_rcvhwm = sub_rcvhwm          # 1000 = libzmq's default receive high-water mark (realistic total buffering)
        simzmq.Context.world = w
        Z.ZMQContext.context = (None, 0)
        Z.time_ns = w.time_ns
        Z.sleep = w.sleep
        Mm.time = lambda: w.time_ns() / 1e9        # mq.py reads the wall clock (metrics): virtual as well
        Z.ZMQ_POLL_TIMEOUT = poll_ms
        w.tick_ns = poll_ms * 1_000_000
        Mm.POLL_TIMEOUT_MS = poll_ms
        Fm.POLL_TIMEOUT_MS = poll_ms
        Z.ZMQ_CONN_TIMEOUT = (topo.conn_ticks * poll_ms) if topo.conn_ticks else 10 ** 9
        Z.ZMQ_PUB_HWM = topo.pub_hwm
        Z.ZMQ_PUSH_HWM = topo.push_hwm
        Z.ZMQ_CONN_HANDSHAKE = topo.handshake
        Z.ZMQ_EXPLICIT_LINGER = 20
        # the documented switches for the "older / newer message id" warnings change nothing but the log
        Z.ZMQ_WARN_OLDER = Z.ZMQ_WARN_NEWER = bool(warn)
        self.work_ms = work_ms
        self.filters = {}       # name -> live Filter instance
        self.incs = {f: 0 for f in topo.names}
        self.oseq = {f: 0 for f in topo.names}
        self.delivered = {f: [] for f in topo.names}     # per filter: list of dicts (inc, id, bal, frames: topic -> token)
        self.evals = []
        self.stalled = set()
        self.rec = [] if record else None
        self.classes = {f: self._make_class(f) for f in topo.names}
        for f in topo.names:
            self._spawn(f)

    # ---- filters ----------------------------------------------------------------------------------------------------
    def _config(self, f):
        t, d = self.topo, self.topo.filters[f]
        cfg = {'id': d.get('cid', f), 'outputs_metrics': False, 'outputs_filter': bool(d['beh']['hid']), 'outputs_jpg': False,
               'mq_log': False}
        if d['srcs']:
            srcs = []
            for s in d['srcs']:
                a = f'tcp://127.0.0.1:{t.port(s["pub"], s["out"])}' + '?' * s['eph']
                if s['star']:
                    a += ';*'
                elif not s['all']:
                    # the documented short forms: 'a>' = received as 'main', '>b' = 'main' received as b
                    a += ';' + ';'.join(x if x == y else f'{x}>' if y == 'main' else f'>{y}' if x == 'main' else f'{x}>{y}'
                                        for x, y in s['tmap']) if s['tmap'] else ';'
                srcs.append(a)
            cfg['sources'] = srcs
            if d['srcbal']:
                cfg['sources_balance'] = True
            if d['beh']['lowlat']:
                cfg['sources_low_latency'] = True
        if d.get('sources_timeout'):
            cfg['sources_timeout'] = d['sources_timeout']        # ms: process() is called with {} when nothing arrived in time
        if d['nout']:
            cfg['outputs'] = [f'tcp://*:{t.port(f, o)}' for o in range(1, d['nout'] + 1)]
            if d['outbal']:
                cfg['outputs_balance'] = True
            if d['required']:
                cfg['outputs_required'] = list(d['required'])
        return cfg

    def _make_class(self, f):
        from openfilter.filter_runtime.frame import Frame
        run, topo, d = self, self.topo, self.topo.filters[f]
        b = d['beh']
        fidx = topo.fidx[f]
        order = {t: i for i, t in enumerate(topo.topic_order)}

        def tok(fr):
            dd = fr.data if fr is not None else None
            return (dd['o'], dd['q'], dd['p']) if isinstance(dd, dict) and 'o' in dd else None

        def mk(o, q, p):
            return Frame({'o': o, 'q': q, 'p': p})

        class SimF(self.Fm.Filter):
            def setup(self_, config):
                run.filters[f] = self_

            def process(self_, frames):
                w = run.world
                xat = d.get('exit_at', -1)

                def end():
                    w.emit('selfexit', f, d.get('exit_kind', 'clean'), w.step_no)
                    if d.get('exit_kind', 'clean') == 'error':
                        raise SeededFault(f'{f} ends by an error')
                    self_.exit(f'{f} ends itself')
                if b['kind'] == 'origin':
                    if xat >= 0 and run.oseq[f] == xat and run.oseq[f] <= topo.maxseq and run.incs[f] == 0:
                        end()
                    if run.oseq[f] > topo.maxseq:
                        w.cur.park(('idle',))          # exhausted: never runnable again
                        raise Idle()

                    def make():
                        q = run.oseq[f]
                        run.oseq[f] += 1
                        ts = b['tseq'][q % len(b['tseq'])]
                        w.emit('eval', f, q, w.step_no)
                        return {t: mk(fidx, q, 0) for t in sorted(ts, key=order.get)}
                    if b['lazy']:
                        return make
                    fr = make()
                    if b['slow']:
                        w.sleep(d.get('work_ms', run.work_ms) / 1000)     # a slow producer: the frame takes (virtual) time to make
                    return fr
                st = self_.mq.send_state
                if not frames and st is None and d.get('sources_timeout'):
                    return {} if d['nout'] else None          # loop_once gave up waiting (sources_timeout): not a delivery
                seen = {t: tok(fr) for t, fr in frames.items()}
                rec = {'inc': run.incs[f], 'id': None if st is None else st.msg_id,
                       'bal': None if st is None else st.balanced, 'frames': seen, 'step': w.step_no}
                run.delivered[f].append(rec)
                w.emit('deliver', f, rec)
                qs0 = [v[1] for v in seen.values() if v is not None]
                if xat >= 0 and qs0 and min(qs0) >= xat:
                    end()
                if b['slow']:
                    w.sleep(d.get('work_ms', run.work_ms) / 1000)
                if not d['nout']:
                    return None
                qs = [v[1] for v in seen.values() if v is not None]
                if qs and min(qs) in b['skip']:
                    return (lambda: None) if b['lazy'] else None      # a deferred result that turns out to be nothing
                ren = dict(b['ren'])
                out = {}
                for t in sorted((t for t in seen if not t.startswith('_')), key=lambda x: order.get(ren.get(x, x), 99)):
                    v = seen[t]
                    out[ren.get(t, t)] = Frame({}) if v is None else mk(v[0], v[1], v[2] * 8 + fidx)
                return out
        SimF.__name__ = f'SimF_{f}'
        return SimF

    def _spawn(self, f):
        cls, cfg = self.classes[f], self._config(f)

        d = self.topo.filters[f]
        pol = lambda ks: {frozenset(): 'none', frozenset({'clean'}): 'clean', frozenset({'error'}): 'error',
                          frozenset({'clean', 'error'}): 'all'}[frozenset(ks)]

        def fn():
            try:
                cls.run(cfg, sig_stop=False, prop_exit=pol(d.get('prop_exit', ())), obey_exit=pol(d.get('obey_exit', ())))
            except (Idle, SeededFault):
                pass

        def app():
            """an application that drives MQ itself, with the blocking calls (timeout = None): OFP!Blocking"""
            Fm, Mm, run = self.Fm, self.Mm, self
            a = object.__new__(cls)                   # process() of the simulated filter, none of the Filter machinery
            srcs = [Fm.Filter.parse_topics(s) for s in cfg['sources']] if cfg.get('sources') else None
            a.mq = Mm.MQ(srcs, cfg.get('outputs'), f, srcs_balance=bool(cfg.get('sources_balance')),
                         srcs_low_lat=cfg.get('sources_low_latency'), outs_balance=bool(cfg.get('outputs_balance')),
                         outs_required=cfg.get('outputs_required'), outs_jpg=False, outs_metrics=False,
                         outs_filter=cfg['outputs_filter'], mq_log=False)
            run.filters[f] = a
            Frame = Mm.Frame

            def _exit(reason=None, exc=None):
                raise AppExit(reason)
            a.exit = _exit
            try:
                while True:
                    frames = a.mq.recv()
                    out = cls.process(a, frames)
                    if callable(out):
                        out = (lambda o: lambda: None if (x := o()) is None else {'main': x} if isinstance(x, Frame) else x)(out)
                    elif isinstance(out, Frame):
                        out = {'main': out}
                    a.mq.send(out)
            except (Idle, SeededFault, AppExit):
                pass
            finally:
                a.mq.destroy()
        t = self.world.spawn(f, app if d.get('blocking') else fn)
        t.inc = self.incs[f]
        return t

    # ---- driving ----------------------------------------------------------------------------------------------------
    def start(self):
        """Run every new task up to its first park (constructor + Init/internal steps of the model)."""
        for f in self.topo.names:
            t = self.world.tasks.get(f)
            if t is not None and t.state == 'new':
                self.do(('run', t))

    def do(self, act):
        new = isinstance(act[1], simzmq.Task) and act[1].state == 'new'
        lab = None
        if self.rec is not None and not new:
            k, x = act
            lab = ({'run': 'step', 'timeout': 'timeout', 'tick': 'timeout'}[k], x.name, 0) if isinstance(x, simzmq.Task) else (k, x.conn[0], x.conn[1])
        self.world.do(act)
        if lab is not None:
            self.record(lab)

    def record(self, lab):
        """one trace event: label + scalar projection of the real objects after the step (see spec/proto/TraceOFP.tla)"""
        topo, w = self.topo, self.world
        e = {'l': list(lab), 'ms': {}, 'pi': {}, 'nd': {}, 'lq': {}, 'pq': {}, 'sq': {}, 'rq': {}, 'up': {}}
        for f in topo.names:
            flt = self.filters.get(f)
            mq = getattr(flt, 'mq', None) if flt is not None else None
            snd = mq.sender if mq is not None else None
            rcv = mq.receiver if mq is not None else None
            e['ms'][f] = snd.min_send_id if snd else 0
            e['pi'][f] = rcv.prev_id if rcv else -1
            e['nd'][f] = len(self.delivered[f])
            e['lq'][f] = [len(p.inbox) for p in snd.pulls] if snd else [0] * topo.filters[f]['nout']
        for c in topo.conns():
            key = f'{c[0]}.{c[1]}'
            pls, rls = w.conn_links(c, 'pubsub'), w.conn_links(c, 'pushpull')
            e['pq'][key] = sum(len(l.queue) for l in pls)
            e['rq'][key] = sum(len(l.queue) for l in rls)
            e['up'][key] = any(l.established and not l.draining and not l.src.closed for l in pls)
            info = self.links(c)
            e['sq'][key] = len(info[2].sub.inbox) if info is not None else 0
        self.rec.append(e)

    hold_est = False         # while set, PUB->SUB links are not established (a slow SUB connection; requests still flow)

    def enabled(self):
        return [a for a in self.world.enabled()
                if not (isinstance(a[1], simzmq.Task) and a[1].name.split('/')[0] in self.stalled)
                and not (self.hold_est and a[0] == 'est')]

    def task(self, f):
        return self.world.tasks.get(f)

    def links(self, c):
        """(pub->sub link, push->pull link, Sender object) of connection c = (consumer, index) or None."""
        flt = self.filters.get(c[0])
        mq = getattr(flt, 'mq', None) if flt is not None else None
        if mq is None or mq.receiver is None:
            return None
        snd = list(mq.receiver.senders.values())[c[1] - 1]
        pl = [l for l in self.world.links if l.dst is snd.sub and not l.dead]
        rl = [l for l in self.world.links if snd.push is not None and l.src is snd.push and not l.dead]
        return (pl[-1] if pl else None, rl[-1] if rl else None, snd)

    def kill(self, f, keep=True):
        self.world.trace.append(('kill', f, bool(keep)))
        self.world.hard_kill(f, keep_inflight=keep)
        if not self.topo.filters[f]['srcs'] and not any(e[0] == 'pub' and e[1].split('/')[0] == f and simzmq.hdr(e[3])[1].get('mid', -1) >= 0
                                                        for e in self.world.events):
            self.oseq[f] = 0           # an origin killed before it ever published a frame: it has not visibly produced anything (OFP!Kill)
        self.filters.pop(f, None)
        self.stalled.discard(f)
        if self.rec is not None:
            self.record(('kill', f, 1 if keep else 0))

    def stall(self, f):
        self.world.trace.append(('stall', f))
        self.stalled.add(f)
        if self.rec is not None:
            self.record(('stall', f, 0))

    def resume(self, f):
        self.world.trace.append(('resume', f))
        self.stalled.discard(f)
        if self.rec is not None:
            self.record(('resume', f, 0))

    def restart(self, f):
        self.world.trace.append(('restart', f))
        self.incs[f] += 1
        t = self._spawn(f)
        self.do(('run', t))
        if self.rec is not None:
            self.record(('restart', f, 0))

    def close(self):
        self.world.record_events = False
        self.world.kill_all()

    def errors(self):
        return {n: t.exc for n, t in self.world.tasks.items() if t.exc is not None}

    # ---- projection into the specification's vocabulary ----------------------------------------------------------------
    @staticmethod
    def _tok_of_parts(parts, first):
        """token carried by a wire message: JSON data part is the last part when there is no image"""
        if len(parts) > first:
            try:
                d = json.loads(bytes(parts[-1]).decode())
                if isinstance(d, dict) and 'o' in d:
                    return (d['o'], d['q'], d['p'])
            except Exception:
                pass
        return None

    def pub_hdr(self, parts):
        topic, env = simzmq.hdr(parts)
        mid = env['mid']
        kind = {-2: 'oob', -3: 'close', -4: 'hello'}.get(mid, 'topics' if topic == '//' else 'data')
        t = topic[:-1]
        t = t[1:] if t.startswith('/') else t
        return (kind, mid, t if kind == 'data' else (str(env.get('xtra') or '') if kind == 'oob' else ''))

    def project(self):
        topo = self.topo
        st = {'minSend': {}, 'prevId': {}, 'ndeliv': {}, 'clients': {}, 'pullq': {}, 'linkUp': {}, 'pubq': {},
              'subq': {}, 'reqq': {}, 'rsrc': {}}
        for f in topo.names:
            flt = self.filters.get(f)
            mq = getattr(flt, 'mq', None) if flt is not None else None
            snd = mq.sender if mq is not None else None
            rcv = mq.receiver if mq is not None else None
            st['minSend'][f] = snd.min_send_id if snd else 0
            st['prevId'][f] = rcv.prev_id if rcv else -1
            st['ndeliv'][f] = len(self.delivered[f])
            if snd:
                st['clients'][f] = [(c.client_id, bool(c.requested), int(c.ephemeral), c.prev_id) for c in snd.clients.values()]
                st['pullq'][f] = [[(simzmq.req_hdr(p)['cid'], simzmq.req_hdr(p)['mid']) for p in pull.inbox] for pull in snd.pulls]
            else:
                st['clients'][f] = []
                st['pullq'][f] = [[] for _ in range(topo.filters[f]['nout'])]
        w = self.world
        for c in topo.conns():
            pls, rls = w.conn_links(c, 'pubsub'), w.conn_links(c, 'pushpull')
            st['linkUp'][c] = any(l.established and not l.draining and not l.src.closed for l in pls)
            st['pubq'][c] = [self.pub_hdr(p) for l in pls for p in l.queue]
            st['reqq'][c] = [(h['mid'], bool(h.get('new', False)), int(h.get('eph', 0)))
                             for h in (simzmq.req_hdr(p) for l in rls for p in l.queue)]
            info = self.links(c)
            if info is None:
                st['subq'][c] = []
                st['rsrc'][c] = None
                continue
            pl, rl, s = info
            st['subq'][c] = [self.pub_hdr(p) for p in s.sub.inbox]
            rec = s.recvd
            flt = self.filters[c[0]]
            st['rsrc'][c] = (bool(s.conn), s.sub in flt.mq.receiver.poller,
                             None if rec is None else {k: (None if v is None else (self._tok_of_parts(v, 1) or NOPAY))
                                                       for k, v in rec.items()})
        return st


def model_project(topo: Topo, s):
    """The same projection computed from a TLC state (parsed by common.parse_state)."""
    st = {'minSend': {}, 'prevId': {}, 'ndeliv': {}, 'clients': {}, 'pullq': {}, 'linkUp': {}, 'pubq': {}, 'subq': {},
          'reqq': {}, 'rsrc': {}}
    seq = lambda x: list(x) if isinstance(x, (tuple, list)) else []
    for f in topo.names:
        dead = s['pc'][f] == 'dead'
        st['minSend'][f] = s['minSend'][f]
        st['prevId'][f] = s['prevId'][f]
        st['ndeliv'][f] = s['ndeliv'][f]
        st['clients'][f] = [(r['c'][0], r['req'], r['eph'], r['prev']) for r in seq(s['clients'][f])]
        pq = s['pullq'][f]
        st['pullq'][f] = [[(m['c'][0], m['mid']) for m in seq(q)] for q in seq(pq)]
    for c in topo.conns():
        hdr = lambda m: (m['k'], m['mid'], m['topic'])
        dead = s['pc'][c[0]] == 'dead'
        st['linkUp'][c] = s['linkUp'][c]
        st['pubq'][c] = [hdr(m) for m in seq(s['pubq'][c])]
        st['subq'][c] = [hdr(m) for m in seq(s['subq'][c])]
        st['reqq'][c] = [(m['mid'], m['new'], m['eph']) for m in seq(s['reqq'][c])]
        if dead or s['pc'][c[0]] in ('x_close2', 'done'):
            st['rsrc'][c] = None
            continue
        r = seq(s['rsrc'][c[0]])[c[1] - 1]
        e = r['e'] if isinstance(r['e'], dict) else {}
        st['rsrc'][c] = (r['conn'], r['reg'],
                         None if not r['some'] else {k: (None if v[0] == -9 else tuple(v[1])) for k, v in e.items()})
    return st


INTERNAL_PC = {'r_enter', 'proc', 's_enter', 'gen'}


def model_internal(topo, s, maxseq):
    for f in topo.names:
        p = s['pc'][f]
        if p in INTERNAL_PC and f not in s.get('stalled', ()) and not (p == 'gen' and s['oseq'][f] > maxseq):
            return True
    return False


def replay(topo: Topo, behaviour, pipe: SimPipeline = None, compare=True):
    """Replay a TLC behaviour (list of parsed states carrying `lbl`) step by step into the real code.
    Returns dict(ok, step, label, diff, pipe, skipped)."""
    pipe = pipe or SimPipeline(topo, local_clocks=True)
    w = pipe.world
    pipe.start()
    skipped = []
    n = 0
    for k in range(1, len(behaviour)):
        b = behaviour[k]
        kind, f, x = b['lbl']
        done = True
        if kind == 'int' or kind == 'init':
            pass
        elif kind in ('est', 'dpub', 'dreq', 'drop'):
            ls = w.conn_links((f, x), 'pushpull' if kind == 'dreq' else 'pubsub')
            if kind == 'est':
                ls = [l for l in ls if not l.established and not l.draining]
            else:
                ls = [l for l in ls if l.queue]
            l = ls[0] if ls else None
            act = (kind, l)
            if l is None or (kind == 'est' and (l.established or not l.can_establish())) or \
                    (kind != 'est' and not (l.queue and (kind in ('drop', 'dreq') or l.established))) or \
                    (kind in ('dreq', 'dpub') and l.dst.closed):
                done = False
            else:
                pipe.do(act)
        elif kind in ('step', 'timeout'):
            t = pipe.task(f)
            want = 'run' if kind == 'step' else 'timeout'
            if kind == 'timeout' and t is not None and t.enabled_action() is None and t.wait is not None \
                    and t.wait[0] == 'poll' and topo.filters[f].get('blocking'):
                pipe.do(('tick', t))          # OFP!SBlockTick: time passes for a sender blocked in poll(None)
            elif t is None or t.enabled_action() != want:
                done = False
            else:
                pipe.do((want, t))
        elif kind == 'kill':
            pipe.kill(f, keep=bool(x))
        elif kind == 'restart':
            pipe.restart(f)
        elif kind == 'stall':
            pipe.stall(f)
        elif kind == 'resume':
            pipe.resume(f)
        else:
            raise common.MachineryError(f'unknown label {b["lbl"]}')
        n += 1
        if not done:
            skipped.append((k, b['lbl']))
            if compare:
                return {'ok': False, 'step': k, 'label': b['lbl'], 'diff': {'enabled': 'label not enabled in the real world'},
                        'pipe': pipe, 'skipped': skipped}
            continue
        if compare and not model_internal(topo, b, topo.maxseq):
            real, mod = pipe.project(), model_project(topo, b)
            for c in topo.conns():       # a filter that is shutting down: its receive buffers are no longer meaningful
                if b['pc'][c[0]] in ('x_close1', 'x_close2', 'done'):
                    real['rsrc'][c] = mod['rsrc'][c] = None
            if real != mod:
                diff = {key: {str(k2): (real[key].get(k2), mod[key].get(k2)) for k2 in real[key]
                              if real[key].get(k2) != mod[key].get(k2)} for key in real if real[key] != mod[key]}
                return {'ok': False, 'step': k, 'label': b['lbl'], 'diff': diff, 'pipe': pipe, 'skipped': skipped}
    return {'ok': True, 'step': n, 'label': None, 'diff': None, 'pipe': pipe, 'skipped': skipped}

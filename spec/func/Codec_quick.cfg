CONSTANTS
  MaxFree = 2
  MaxTopics = 4
  Defects = {}
INIT Init
NEXT Next
INVARIANT InvTopics
INVARIANT InvNoError
INVARIANT InvData
INVARIANT InvPresence
INVARIANT InvDeclared
INVARIANT InvRaw
INVARIANT InvJpgKept
INVARIANT InvJpgLossy
INVARIANT InvShape
INVARIANT InvSenderKeeps
INVARIANT InvEnvelope
INVARIANT InvMode

CONSTANTS
  Defects = {"init_fail_skips_fini", "mq_ctor_partial_leak"}
  K = 1
  PropSet = {"all"}
  ObeySet = {"all"}
  EASet = {"none"}
  WithInterrupt = FALSE
  EarlyExit = TRUE
  Emit = FALSE
INIT Init
NEXT Next
INVARIANT C08_CommClosed

r"""C06 - pipelines keep moving and heal themselves after restarts and stalls.

Specification: spec/proto/OFP.tla: Kill / Restart / Stall / Resume fault actions, client expiry through `age`
(ConnTicks), periodic re-request (RTimeout), HELLO handshake after a restart, fast-forward of a restarted publisher;
liveness C06_Heals == <>[] (every origin has handed off all frames /\ everything alive) under FairFault (strong fairness
per filter, a killed filter is eventually restarted).
On the real code: fault enumeration under the global virtual clock - a deterministic reference run, then for every
(kill step, victim, restart delay class) the run is repeated with the fault; after the restart every live synchronized
sink must be handed a NEW frame within a bounded virtual time, and the ordering guarantee (C02_Order) must hold over the
whole run.  Also: death / long stall of a consumer that is not a required output, and a missing required output.
"""
from . import common, topos, observers
from .common import Report
from .proto import SimPipeline
from .protocheck import Engine, replay_witness, run_schedule, judge

PROPS = ('C06_Heals', 'C06_NoDeadlock', 'C06_RequiredWaits', 'C02_Order')
POLL_NS = 100_000_000


def step_until(pipe, pred, max_steps):
    """deterministic prompt scheduler (first enabled non-timeout action, else earliest-deadline timeout) until pred(pipe)"""
    n = 0
    while n < max_steps and not pred(pipe):
        acts = pipe.enabled()
        if not acts:
            break
        nt = [a for a in acts if a[0] != 'timeout']
        a = nt[0] if nt else min((a for a in acts), key=lambda x: x[1].deadline())
        pipe.do(a)
        n += 1
    return n


def sinks_of(topo):
    return [f for f in topo.names if topo.filters[f]['srcs'] and all(s['eph'] == 0 for s in topo.filters[f]['srcs'])]


def fault_run(topo, k, victim, delay_ticks, keep, restart=True, stall=False, max_steps=6000):
    """returns (pipe, info): info = per live sink virtual time from restart/fault to its first new delivery (None = never)"""
    pipe = SimPipeline(topo, local_clocks=False)
    w = pipe.world
    pipe.start()
    step_until(pipe, lambda p: False, k)
    before = {f: len(pipe.delivered[f]) for f in topo.names}
    t_fault = w.now_ns
    if stall:
        pipe.stall(victim)
    else:
        pipe.kill(victim, keep)
    t_back = t_fault + delay_ticks * POLL_NS
    step_until(pipe, lambda p: w.now_ns >= t_back, max_steps)
    if restart:
        if stall:
            pipe.resume(victim)
        else:
            pipe.restart(victim)
    t0 = w.now_ns
    marks = {f: len(pipe.delivered[f]) for f in topo.names}
    horizon = t0 + (topo.conn_ticks + 12) * POLL_NS
    first = {}

    def seen(p):
        for f in sinks_of(topo):
            if f not in first and len(p.delivered[f]) > marks[f]:
                first[f] = w.now_ns - t0
        return w.now_ns > horizon
    step_until(pipe, seen, max_steps)
    return pipe, {'t_fault': t_fault, 't0': t0, 'first_new': first, 'before': before, 'marks': marks,
                  'exhausted': all(pipe.oseq[g] > topo.maxseq for g in topo.names if not topo.filters[g]['srcs'])}


def enumerate_faults(eng, rep, topo, victims, ks, delays, stall=False):
    bound = (topo.conn_ticks + 5) * POLL_NS
    worst = 0
    for k in ks:
        for victim in victims:
            for d in delays:
                for keep in ((True, False) if not stall else (True,)):
                    pipe, info = fault_run(topo, k, victim, d, keep, stall=stall)
                    try:
                        rep.case((topo.name, 'fault', k, victim, d, keep, stall))
                        rep.traces += 1
                        how = {'kind': 'fault', 'topo': topo.name, 'topo_def': topo.to_dict(), 'k': k, 'victim': victim,
                               'delay_ticks': d, 'keep': keep, 'stall': stall, 'seed': eng.ctx.seed,
                               'origin': f'{"stall" if stall else "kill"} {victim} at step {k}, back after {d} poll intervals'}
                        if not info['exhausted']:
                            for f in sinks_of(topo):
                                dt = info['first_new'].get(f)
                                if dt is None or dt > bound:
                                    rep.violation(f'C06_Heals: after {how["origin"]} sink {f} got no new frame within '
                                                  f'{bound // 1_000_000} ms of virtual time (first new after: '
                                                  f'{None if dt is None else dt // 1_000_000} ms)  [{topo.name}]',
                                                  {'how': how, 'info': {k2: str(v) for k2, v in info.items()}},
                                                  {'formula': 'C06_Heals', 'topology': topo.name})
                                else:
                                    worst = max(worst, dt)
                        v, errs, _ = judge(topo, pipe, {'C02_Order'})
                        for name, text, wit in v[:1]:
                            rep.violation(f'{name}: {text}  [{how["origin"]}, {topo.name}]', {'how': how, 'detail': wit},
                                          {'formula': name, 'topology': topo.name})
                    finally:
                        pipe.close()
    return worst


def nonrequired_death(eng, rep, topo, victim, other, ks, graceful=False):
    """a consumer that is not a required output dies (or falls silent) for good: the other consumer keeps receiving"""
    bound = (topo.conn_ticks + 5) * POLL_NS
    for k in ks:
        for stall in (False, True):
            pipe, info = fault_run(topo, k, victim, 0, True, restart=False, stall=stall)
            try:
                rep.case((topo.name, 'death', k, victim, stall))
                rep.traces += 1
                dt = info['first_new'].get(other)
                how = {'kind': 'fault', 'topo': topo.name, 'topo_def': topo.to_dict(), 'k': k, 'victim': victim, 'stall': stall,
                       'restart': False, 'seed': eng.ctx.seed,
                       'origin': f'{"silence" if stall else "death"} of non-required consumer {victim} at step {k}'}
                if not info['exhausted'] and (dt is None or dt > bound):
                    rep.violation(f'C06_NoDeadlock: after {how["origin"]} consumer {other} got no new frame within '
                                  f'{bound // 1_000_000} ms  [{topo.name}]', {'how': how, 'info': {k2: str(v) for k2, v in info.items()}},
                                  {'formula': 'C06_NoDeadlock', 'topology': topo.name})
            finally:
                pipe.close()


def required_missing(eng, rep, topo, pub, req, ks):
    """a publisher whose required output is missing waits for it and resumes when it is back"""
    for k in ks:
        pipe = SimPipeline(topo, local_clocks=False)
        w = pipe.world
        try:
            pipe.start()
            step_until(pipe, lambda p: False, k)
            pipe.kill(req, True)
            t_kill = w.now_ns
            t_end = t_kill + (topo.conn_ticks + 10) * POLL_NS
            # the dead consumer's client entry may still hold one request (one more publish, possibly one already under way);
            # beyond that nothing may be published until the required output is back - neither before nor after its client
            # entry times out, however eagerly the other consumers request
            plog = observers.PubLog(topo)
            plog.feed(w.events)
            nbefore = len(plog.recs)
            step_until(pipe, lambda p: w.now_ns >= t_end, 5000)
            step_until(pipe, lambda p: w.now_ns >= t_end + 10 * POLL_NS, 5000)
            plog.feed(w.events)
            nmid = len(plog.recs)
            pipe.restart(req)
            mark = len(pipe.delivered[req])
            step_until(pipe, lambda p: len(p.delivered[req]) > mark or w.now_ns > t_end + 40 * POLL_NS, 8000)
            rep.case((topo.name, 'required', k))
            rep.traces += 1
            how = {'kind': 'fault', 'topo': topo.name, 'k': k, 'victim': req, 'seed': eng.ctx.seed,
                   'origin': f'required output {req} of {pub} killed at step {k}, restarted later'}
            exhausted = pipe.oseq[pub] > topo.maxseq
            if nmid > nbefore + 2:
                rep.violation(f'C06_RequiredWaits: {pub} published {nmid - nbefore} frame(s) while its required output {req} was '
                              f'missing  [{topo.name}, step {k}]', {'how': how},
                              {'formula': 'C06_RequiredWaits', 'topology': topo.name})
            if not exhausted and len(pipe.delivered[req]) <= mark:
                rep.violation(f'C06_Heals: {pub} did not resume after its required output {req} came back  [{topo.name}, step {k}]',
                              {'how': how}, {'formula': 'C06_Heals', 'topology': topo.name})
        finally:
            pipe.close()


def scenarios(quick):
    T = topos
    kill1 = dict(max_faults=1, fault_kinds=['kill'])
    return dict(
        live=[(T.chain2(maxseq=1, conn_ticks=2), dict(kill1, victims=['S', 'K'])),
              (T.chain2(maxseq=1, conn_ticks=2), dict(max_faults=1, fault_kinds=['stall'], victims=['K']))] +
             # (a three-filter configuration - Tee with a kill of B - does not finish within 50 minutes since the fair
             #  specifications carry the time-fairness conjuncts; the tee is covered by the safety run, the replay and the enumeration)
             ([] if quick else [(T.chain2(maxseq=2, conn_ticks=2), dict(kill1, victims=['S', 'K'])),
                                (T.chain2(maxseq=2, conn_ticks=2), dict(max_faults=1, fault_kinds=['stall'], victims=['K']))]),
        safe=[(T.chain3(maxseq=1, conn_ticks=2), 'SpecPrompt', {}, dict(kill1, victims=['A']))] +
             ([] if quick else [(T.chain3(maxseq=2, conn_ticks=2), 'SpecPrompt', {}, dict(kill1, victims=['S', 'A', 'K']))]),
        conf=[(T.chain3(maxseq=3, conn_ticks=3), 'SpecPrompt', 10 if quick else 150, 300, dict(max_faults=2, fault_kinds=['kill', 'stall'], victims=['S', 'A', 'K'])),
              (T.tee(maxseq=3, conn_ticks=3), 'SpecPrompt', 6 if quick else 80, 300, dict(max_faults=2, fault_kinds=['kill', 'stall'], victims=['A', 'B']))],
    )


def run(ctx):
    rep = Report(ctx, level='fault_enumeration' if False else 'model_checking')
    rep.rule = ('case = one execution of the real pipeline under the global virtual clock with one fault: (kill step k of a '
                'deterministic reference run) x (victim filter) x (restart delay: 0 / shorter / longer than the connection timeout) x '
                '(in-flight messages kept or cut); also stall/resume, permanent death of a non-required consumer, missing required '
                'output; non-trivial = the fault hit a running pipeline (always)')
    rep.assumptions = ['simulated ZeroMQ; hard kill = sockets vanish without CLOSE, restart = new objects on the same addresses',
                       'ZMQ_CONN_TIMEOUT scaled to 5 poll intervals (500 ms virtual); healing bound = connection timeout + 5 poll intervals',
                       'one fault per run']
    eng = Engine(ctx, rep, PROPS)
    sc = scenarios(ctx.quick)
    for topo, kw in sc['live']:
        eng.model_check(topo, 'FairFault', invariants=(), properties=('C06_Heals',), view=False,
                        name=f'{topo.name}/FairFault/{"+".join(kw["fault_kinds"])}', timeout=900 if ctx.quick else 3000, **kw)
    # non-vacuity of the liveness formula: a sender that never expires the clients of dead incarnations does not heal
    topo, kw = sc['live'][0]
    r = eng.model_check(topo, 'FairFault', invariants=(), properties=('C06_Heals',), view=False, expect_ok=False, defects=['no_expire'],
                        name=f'{topo.name}/FairFault/kill/no_expire', timeout=900, **kw)
    if not r.timed_out and not r.violated:
        raise common.MachineryError('the design mutation no_expire satisfies C06_Heals: the liveness formula is vacuous')
    for topo, spec, bounds, kw in sc['safe']:
        eng.model_check(topo, spec, invariants=('C02', 'NoCrash'), bounds=bounds, timeout=900 if ctx.quick else 3000, **kw)
    for topo, spec, num, depth, kw in sc['conf']:
        eng.conformance(topo, spec, num, depth, **kw)
    q = ctx.quick
    c3 = topos.chain3(maxseq=60, conn_ticks=5)
    ks = list(range(12, 140, 16 if q else 3))
    worst = enumerate_faults(eng, rep, c3, ['S', 'A', 'K'], ks, (0, 2, 8))
    worst = max(worst, enumerate_faults(eng, rep, c3, ['A', 'K'], ks[::2], (2, 9), stall=True))
    tr = topos.tee_rejoin2(maxseq=60, conn_ticks=5, skip=())
    worst = max(worst, enumerate_faults(eng, rep, tr, ['A', 'B', 'K'] if not q else ['B'], ks[::3] if q else ks[::2], (0, 8)))
    # a balanced splitter: a killed and restarted worker must be registered again (HELLO on every endpoint) and get frames
    # (the splitter is the bottleneck: every send() finds the workers' requests pending)
    bl = topos.balance2(maxseq=80, conn_ticks=5, slow_origin=True)
    worst = max(worst, enumerate_faults(eng, rep, bl, ['W1', 'W2'] if not q else ['W1'], ks[::3] if q else ks[::2], (0, 8)))
    te = topos.tee(maxseq=60, conn_ticks=5)
    nonrequired_death(eng, rep, te, 'B', 'A', ks[::2] if q else ks)
    # the same behind a publisher that is an application blocked in ONE send() call (timeout = None) all the while
    nonrequired_death(eng, rep, topos.blocking(topos.tee(maxseq=60, conn_ticks=5), ['S']), 'B', 'A', ks[::3] if q else ks[::2])
    rq = topos.required2(maxseq=60, conn_ticks=5)
    required_missing(eng, rep, rq, 'S', 'K', ks[::3] if q else ks)
    # the same with another (non-required) consumer that keeps requesting while the required one is gone
    rt = topos.required_tee(maxseq=60, conn_ticks=5)
    required_missing(eng, rep, rt, 'S', 'B', ks[::3] if q else ks)
    # a relay that listens with '?' numbers its own output: restarted late in the stream it must catch up with the ids its
    # consumer already holds at once (fast-forward through MQ.send -> recv_state), not one id per frame of a slow producer
    er = topos.eph_relay(maxseq=80, conn_ticks=5)
    worst = max(worst, enumerate_faults(eng, rep, er, ['D'], [200, 260, 330] if q else list(range(120, 400, 20)), (0, 8)))
    rep.extra['worst_heal_time_ms'] = worst // 1_000_000
    rep.note(f'longest observed time from restart to the first new frame at a live sink: {worst // 1_000_000} ms virtual')
    return rep.finish()


def replay(ctx):
    import json
    from .proto import Topo
    w = json.load(open(ctx.replay))
    how = w['witness']['how']
    if how.get('kind') != 'fault' or 'topo_def' not in how:
        return replay_witness(ctx, PROPS)
    topo = Topo.from_dict(how['topo_def'])
    pipe, info = fault_run(topo, how['k'], how['victim'], how.get('delay_ticks', 0), how.get('keep', True),
                           restart=how.get('restart', True), stall=how.get('stall', False))
    try:
        print(how['origin'], {k: str(v) for k, v in info.items()})
        bound = (topo.conn_ticks + 5) * POLL_NS
        bad = [f for f in sinks_of(topo) if f != how['victim'] or how.get('restart', True)
               if not info['exhausted'] and (info['first_new'].get(f) is None or info['first_new'][f] > bound)]
        if how.get('restart', True) is False:
            bad = [f for f in bad if f != how['victim']]
        v, _, _ = judge(topo, pipe, {'C02_Order'})
        if bad or v:
            print(f'VIOLATION property=C06 replay={ctx.replay}')
            return 1
        return 0
    finally:
        pipe.close()

SPECIFICATION SpecH
CONSTANTS
  Readers = {"r1"}
  AutoRef = {}
  Sizes = {1, 2, 3, 4}
  FileSizes = {1}
  TotalSizes = {1}
  MaxWrites = 40
  MaxTs = 10
  MaxDeletes = 1000
  MaxReopens = 1000
  MaxPosOps = 100000
  Active = {"r1"}
  Bin = FALSE
  Acts = {"write", "read", "readblock", "delete", "delete_up", "refresh"}
  Defects = {}
  MaxCrashes = 1000
  MaxSaves = 1000
CHECK_DEADLOCK TRUE
INVARIANT C14_HeadNeverCorrupt
INVARIANT C14_SavedNotAhead
PROPERTY C14_RestartsFromSavedPos
PROPERTY C14_NoSkip
PROPERTY C14_BoundedReplay

CONSTANTS
  Defects = {"C11_opt_ws_before_eq"}
  Mode = "options"
  MaxMaps = 1
  MaxOpts = 1
  MaxEntries = 2
  WsLevel = 1
INIT Init
NEXT Next
INVARIANT InvRT_Options

\* facet "ipcclash": a user-given ipc:// output named like another filter's id, under --ipc.  The intended design (fresh endpoint name) has the property; res carries the code's deviation "ipc_name_clash" (vectors for the harness)
CONSTANTS
  Sizes = {1, 2, 3}
  IpcModes = {TRUE}
  Names = {"VideoIn", "Util"}
  GivenIds = {}
  NumIds = {}
  SrcForms = {"absent", "ref"}
  RefSuffixes = {""}
  AddrSuffixes = {""}
  UriSuffixes = {""}
  SrcHosts = {"localhost"}
  SrcPorts = {5552}
  OutForms = {"absent", "ipc"}
  OutHosts = {"127.0.0.1"}
  Ports = {5552}
  IpcNames = {"Util"}
  Extras = {""}
  Defects = {"assign_empty_ignored"}
INIT Init
NEXT Next
INVARIANT TypeOK
INVARIANT ErrorsJustified
INVARIANT DesignUniqueIds
INVARIANT DesignEverySourceBound
INVARIANT DesignPortsDisjoint
INVARIANT DesignPassThrough
INVARIANT DesignEmptyRespected
INVARIANT AsIsUniqueIds
INVARIANT AsIsPortsDisjoint
INVARIANT AsIsPassThrough

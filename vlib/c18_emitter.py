"""C18 at the level of the emitter object: spec/life/Emitter.tla (main thread calls, heartbeat iterations, telemetry bridge
export / flush - also after the run has ended - and a backend whose emit() raises), checked by TLC and replayed call by call on
the real OpenFilterLineage driven through the real OTelLineageExporter with a capturing client.

Verdicts come from the property's formulas evaluated on the events the real emitter hands to client.emit() (START first, one
terminal event per run, nothing after it); a difference between the model's and the real object's state is drift only.
"""
import glob
import os
import shutil
import tempfile
import types

from . import common
from .common import run_tlc, tlc_must_pass, MachineryError, SPEC

SPEC_DIR = os.path.join(SPEC, 'life')
MUTATIONS = ('latch_after_success', 'export_emits', 'tick_ignores_term', 'start_keeps_term', 'terminal_without_start')
TERMINAL = ('COMPLETE', 'ABORT', 'FAIL')


class _Reg:
    def __init__(self):
        self.hb_on = False
        self.target = None


class _Event:
    """threading.Event stand-in: `budget` lets is_set() answer False once more, so that one call of the real _heartbeat_loop
    performs exactly one iteration of the real loop"""

    def __init__(self):
        self.flag, self.budget, self.artificial = False, 0, False

    def set(self):
        self.flag = True

    def clear(self):
        self.flag = False

    def is_set(self):
        if self.flag:
            return True
        if self.budget > 0:
            self.budget -= 1
            return False
        self.artificial = True
        return True

    def wait(self, timeout=None):
        return self.flag


class Rig:
    """one real emitter + real bridge exporter + capturing client"""

    def __init__(self):
        from . import life_harness as H
        m = H.modules()
        self.Lm = Lm = m['Lm']
        self.saved = Lm.threading
        reg = self.reg = _Reg()
        import threading as _th

        class Thread:
            def __init__(self_, target=None, daemon=None, **k):
                reg.target = target

            def start(self_):
                reg.hb_on = True

            def is_alive(self_):
                return reg.hb_on

            def join(self_, timeout=None):
                pass
        Lm.threading = types.SimpleNamespace(Thread=Thread, Event=_Event, Lock=_th.Lock, RLock=_th.RLock)
        rig = self
        self.events = []          # (kind, handed over successfully, run id)
        self.fail_next = False

        class Client:
            def emit(self_, event):
                kind = getattr(event.eventType, 'name', None) or str(event.eventType)
                ok = not rig.fail_next
                rig.events.append((kind, ok, getattr(event.run, 'runId', None)))
                if not ok:
                    rig.fail_next = False
                    raise ConnectionError('backend unavailable (injected)')
        self.em = Lm.OpenFilterLineage(client=Client(), interval=1)
        from openfilter.observability.bridge import OTelLineageExporter
        self.exporter = OTelLineageExporter(self.em, allowlist={'*'})
        self.md = _metrics_data()

    def close(self):
        self.Lm.threading = self.saved

    def do(self, who, what):
        em = self.em
        if who == 'main':
            if what == 'emit_start':
                em.emit_start(facets={'a': 1})
            elif what == 'hb_start':
                em.start_lineage_heart_beat()
            elif what == 'hb_stop':
                em.stop_lineage_heart_beat()
            elif what == 'emit_stop':
                em.emit_stop()
            elif what == 'emit_complete':
                em.emit_complete()
            elif what == 'run_over':
                pass
            elif what == 'early_complete':
                em.emit_complete()
            else:
                raise MachineryError(f'unknown main call {what}')
        elif who == 'hb':
            if self.reg.hb_on:
                ev = em._stop_event
                ev.budget, ev.artificial = 1, False
                self.reg.target()                     # the real _heartbeat_loop, one iteration
                if not ev.artificial:
                    self.reg.hb_on = False            # the loop left by itself: the thread has ended
                ev.budget, ev.artificial = 0, False
        elif who == 'bridge':
            if what == 'export':
                self.exporter.export(self.md)
            else:
                self.exporter.force_flush()
        elif who == 'backend':
            self.fail_next = True
        else:
            raise MachineryError(f'unknown label {who} {what}')

    def project(self):
        return {'hist': [(k, ok) for k, ok, _ in self.events], 'hb': 'on' if self.reg.hb_on else 'off',
                'stopFlag': bool(self.em._stop_event.flag), 'term': getattr(self.em, '_terminal_sent', None),
                'failNext': self.fail_next}


_MD = None


def _metrics_data():
    global _MD
    if _MD is None:
        from .c16 import collect
        _MD = collect([('fr', 'counter'), ('x_', 'gauge')], {'fr': [1, 2], 'x_': [3]})
    return _MD


def judge(events):
    """C18_Emitter on the events handed to client.emit(): returns (kind, text) or None"""
    kinds = [e[0] for e in events]
    if kinds and kinds[0] != 'START':
        return 'start', f'the first event is {kinds[0]}, not START: {kinds}'
    segs, cur = [], []
    for k in kinds:
        if k == 'START' and cur:
            segs.append(cur)
            cur = []
        cur.append(k)
    if cur:
        segs.append(cur)
    for seg in segs:
        terms = [i for i, k in enumerate(seg) if k in TERMINAL]
        if len(terms) > 1:
            return 'terminal_multiplicity', f'{len(terms)} terminal events in one run: {seg} (all: {kinds})'
        if terms and terms[0] != len(seg) - 1:
            return 'after_terminal', f'event(s) after the terminal event of a run: {seg} (all: {kinds})'
    return None


def labels_of(beh):
    return [tuple(s['lbl']) for _, s in beh[1:]]


def replay(labels, states=None):
    """returns (violation or None, drift or None, events)"""
    rig = Rig()
    drift = None
    try:
        for i, (who, what) in enumerate(labels):
            rig.do(who, what)
            if states is not None and drift is None:
                s = states[i]
                real = rig.project()
                mod = {'hist': [(k, bool(ok)) for k, ok in s['hist']], 'hb': s['hb'], 'stopFlag': s['stopFlag'], 'term': s['term'],
                       'failNext': s['failNext']}
                if real != mod:
                    drift = f'after step {i + 1} {who}.{what}: real {real} model {mod}'
        return judge(rig.events), drift, list(rig.events)
    finally:
        rig.close()


def stage(rep, ctx):
    quick = ctx.quick
    cfg = 'Emitter_quick' if quick else 'Emitter_thorough'
    res = run_tlc(SPEC_DIR, cfg, 'Emitter', timeout=1800)
    tlc_must_pass(res, cfg)
    rep.add_tlc(cfg, res, 'emitter object with heartbeat iterations, bridge export/flush at any time (also after the run), failing '
                          'backend, consecutive runs: C18_Emitter (START first, one terminal per run, nothing after it), C18_Terminated')
    nviol = ndrift = nrun = 0

    shown = {}

    def report(v, how, events):
        nonlocal nviol
        nviol += 1
        shown[v[0]] = shown.get(v[0], 0) + 1
        if shown[v[0]] > 3:          # one kind of falsification: three witnesses are enough
            return
        rep.violation(f'C18_Wellformed (emitter protocol): {v[1]}  [{how["origin"]}]',
                      {'mode': 'emitter', 'labels': [list(l) for l in how['labels']], 'events': [list(e[:2]) for e in events],
                       'origin': how['origin'], 'md': how.get('md')}, {'kind': v[0], 'probe': 'emitter'})
    # the design mutations: TLC must exhibit a counterexample, which the real emitter must not reproduce
    for mut in MUTATIONS:
        r = run_tlc(SPEC_DIR, f'Emitter_defect_{mut}', 'Emitter', timeout=600, workers=4)
        if r.error or r.timed_out:
            raise MachineryError(f'TLC failed on Emitter_defect_{mut}: {r.error or "timeout"}')
        if not r.violated:
            raise MachineryError(f'Emitter with "{mut}" satisfies every formula: the formulas are vacuous')
        rep.add_tlc(f'Emitter[{mut}]', r, f'design mutation {mut}: counterexample to {r.violated}')
        ce = [s for _, s in common.parse_counterexample(r.out) if 'lbl' in s]
        labels = [tuple(s['lbl']) for s in ce[1:]]
        # continue the counterexample the way a run goes on: the remaining terminal calls of Filter.run, one more heartbeat
        # iteration, the bridge's last export and flush at shutdown
        labels += [('main', 'hb_stop'), ('main', 'emit_complete'), ('hb', 'tick'), ('bridge', 'export'), ('bridge', 'flush')]
        v, _, events = replay(labels)
        nrun += 1
        rep.case(('emitter', 'mutation', mut))
        if v:
            report(v, {'origin': f'counterexample of design mutation {mut}', 'labels': labels}, events)
    # behaviours of the design, replayed call by call with the object state compared
    tmp = tempfile.mkdtemp(prefix='c18em_')
    try:
        num = 1500 if quick else 30000
        per = max(1, num // common.NCPU)
        r = run_tlc(SPEC_DIR, cfg, 'Emitter', simulate=f'file={tmp}/b,num={per}', depth=10 if quick else 13, seed=ctx.seed + 5,
                    timeout=1800)
        if r.error:
            raise MachineryError(f'TLC -simulate failed on Emitter: {r.error[-1500:]}')
        files = sorted(glob.glob(f'{tmp}/b*'))
        seen = set()
        for fn in files:
            beh = common.parse_sim_file(fn)
            if len(beh) < 2:
                continue
            labels = labels_of(beh)
            key = tuple(labels)
            if key in seen:
                continue
            seen.add(key)
            v, drift, events = replay(labels, [s for _, s in beh[1:]])
            nrun += 1
            rep.case(('emitter', key))
            if v:
                report(v, {'origin': 'TLC -simulate behaviour of Emitter.tla', 'labels': labels}, events)
            if drift:
                ndrift += 1
                if ndrift <= 3:
                    rep.drift_note(f'Emitter.tla behaviour {list(labels)}: {drift}')
        rep.add_tlc(f'{cfg}/simulate', r, f'{len(seen)} distinct behaviours replayed on the real emitter + bridge exporter')
    finally:
        shutil.rmtree(tmp, ignore_errors=True)
    # metrics whose names are not identifiers (OpenTelemetry style 'frames.processed'): whatever the heartbeat facets hold, the run
    # still ends with exactly one terminal event handed to the backend (C18_Terminated)
    from .c16 import collect
    dotted = collect([('frames.processed', 'counter'), ('queue-depth', 'gauge')], {'frames.processed': [1, 2], 'queue-depth': [3]})
    for term in ('emit_complete', 'emit_stop'):
        for with_tick in (False, True):
            labels = [('main', 'emit_start'), ('main', 'hb_start'), ('bridge', 'export')] + ([('hb', 'tick')] if with_tick else []) + \
                     [('main', 'hb_stop'), ('main', term), ('main', 'emit_complete'), ('main', 'run_over')]
            rig = Rig()
            try:
                rig.md = dotted
                for who, what in labels:
                    rig.do(who, what)
                events = list(rig.events)
            finally:
                rig.close()
            nrun += 1
            rep.case(('emitter', 'dotted-metric-names', term, with_tick))
            v = judge(events)
            if v is None and sum(1 for e in events if e[0] in TERMINAL) != 1:
                v = ('no_terminal', f'a finished run handed {sum(1 for e in events if e[0] in TERMINAL)} terminal events to the backend: '
                                    f'{[e[0] for e in events]}')
            if v:
                report(v, {'origin': 'run with heartbeat facets whose keys are not identifiers', 'labels': labels, 'md': 'dotted'}, events)
    if nrun < 20:
        raise MachineryError(f'only {nrun} emitter behaviours were replayed')
    rep.traces += nrun
    rep.extra['emitter_protocol'] = {'behaviours_replayed': nrun, 'drift': ndrift, 'violations': nviol}
    return nviol


def replay_witness(wit):
    if wit.get('md') == 'dotted':
        from .c16 import collect
        rig = Rig()
        try:
            rig.md = collect([('frames.processed', 'counter'), ('queue-depth', 'gauge')], {'frames.processed': [1, 2], 'queue-depth': [3]})
            for who, what in wit['labels']:
                rig.do(who, what)
            events = list(rig.events)
        finally:
            rig.close()
        print('events handed to client.emit():', [e[:2] for e in events])
        v = judge(events)
        if v is None and sum(1 for e in events if e[0] in TERMINAL) != 1:
            v = ('no_terminal', f'a finished run handed {sum(1 for e in events if e[0] in TERMINAL)} terminal events to the backend')
        return v
    v, _, events = replay([tuple(l) for l in wit['labels']])
    print('events handed to client.emit():', [e[:2] for e in events])
    return v

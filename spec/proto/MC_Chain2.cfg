CONSTANTS
  Filters <- cFilters
  Srcs <- cSrcs
  NOut <- cNOut
  OutBal <- cFalse
  SrcBal <- cFalse
  Required <- cRequired
  Beh <- cBeh
  FIdx <- cFIdx
  TopicOrder <- cTopicOrder
  MaxSeq = 2
  ConnTicks = 0
  PubHWM = 8
  SubHWM = 0
  PushHWM = 3
  Handshake = TRUE
  Defects = {}
  MaxFaults = 0
  FaultKinds = {}
  Victims = {}
SPECIFICATION SpecPrompt
VIEW view
CONSTRAINT Bound
INVARIANT NoViolation
INVARIANT NoCrash
INVARIANT TypeOK
INVARIANT C04_Bounded

CONSTANTS
  StartKinds = {"rw", "ro", "lazy", "now"}
  StartFmts = {"RGB", "BGR", "GRAY"}
  MaxOps = 4
  Defects = {"ro_x_caches_writable"}
  CountNoops = FALSE
  Emit = TRUE
INIT Init
NEXT Next
VIEW viewCover
ACTION_CONSTRAINT EmitCover
INVARIANT TypeOK

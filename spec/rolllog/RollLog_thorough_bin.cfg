SPECIFICATION Spec
CONSTANTS
  Readers = {"r1"}
  AutoRef = {"r1"}
  Sizes = {1, 2}
  FileSizes = {1, 3}
  TotalSizes = {1, 4}
  MaxWrites = 4
  MaxTs = 2
  MaxDeletes = 2
  MaxReopens = 0
  MaxPosOps = 2
  Active = {"r1"}
  Bin = TRUE
  Acts = {"write", "readblock", "delete", "seek", "tell"}
  Defects = {}
VIEW view
INVARIANT TypeOK
INVARIANT OpenImpliesIdx
PROPERTY C13_ExactlyOnceInOrder
PROPERTY C13_Budget
PROPERTY C13_NewestKept
PROPERTY C13_NoOverwrite

SPECIFICATION HSpecC
CONSTANTS
  Readers = {"r1"}
  AutoRef = {"r1"}
  Sizes = {1}
  FileSizes = {1, 2}
  TotalSizes = {8}
  MaxWrites = 2
  MaxTs = 1
  MaxDeletes = 1
  MaxReopens = 0
  MaxPosOps = 0
  Active = {"r1"}
  Bin = FALSE
  Acts = {"write", "read", "delete"}
  Defects = {}
  MaxCrashes = 2
  MaxSaves = 2
VIEW allview
ACTION_CONSTRAINT HEmit

\* facet "refs": ids with a suffix resolved against user-given outputs (first of two), allocated tcp outputs, --ipc outputs; exhaustive for 1-3 filters
CONSTANTS
  Sizes = {1, 2, 3}
  IpcModes = {FALSE, TRUE}
  Names = {"Util"}
  GivenIds = {}
  NumIds = {}
  SrcForms = {"absent", "ref"}
  RefSuffixes = {"", "??;t!o", "?!o"}
  AddrSuffixes = {""}
  UriSuffixes = {""}
  SrcHosts = {"localhost"}
  SrcPorts = {5552}
  OutForms = {"absent", "tcp", "two", "ipc"}
  OutHosts = {"127.0.0.1"}
  Ports = {5552, 1024}
  IpcNames = {"pipe"}
  Extras = {""}
  Defects = {"assign_empty_ignored"}
INIT Init
NEXT Next
INVARIANT TypeOK
INVARIANT ErrorsJustified
INVARIANT DesignUniqueIds
INVARIANT DesignEverySourceBound
INVARIANT DesignPortsDisjoint
INVARIANT DesignPassThrough
INVARIANT DesignEmptyRespected
INVARIANT AsIsUniqueIds
INVARIANT AsIsEverySourceBound
INVARIANT AsIsPortsDisjoint
INVARIANT AsIsPassThrough

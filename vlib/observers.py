"""Property observers over the observable events of a real (simulated-network) run: the formulas of C01-C07 evaluated on
what was published on the wire and what every filter's process() was handed.  They mirror DeliveryFaults / C03 / C04 /
C07 of spec/proto/OFP.tla but use only observable history (publishes, requests, deliveries), never internal state of the
classes under test.
"""
from __future__ import annotations

import json

from . import simzmq
from .proto import Topo, SimPipeline, HTOPIC


class PubLog:
    """(publisher, incarnation, out index, mid) -> {topics: published topic list, frames: {topic: token}}"""

    def __init__(self, topo: Topo):
        self.topo = topo
        self.recs = {}          # (g, inc, mid) -> dict(topics=[...], frames={}, outs=set(), step=int, order=int)
        self.by_tok = {}        # (g, topic, token) -> [(inc, mid)]
        self.reqs = []          # (consumer, conn idx, header)
        self.order = []         # publish order of (g, inc, mid)
        self.port2out = {}
        for f in topo.names:
            for o in range(1, topo.filters[f]['nout'] + 1):
                self.port2out[topo.port(f, o)] = (f, o)
        self.n = 0

    def feed(self, events, incs_at=None):
        for ev in events[self.n:]:
            if ev[0] == 'pub':
                _, owner, addr, parts, inc, step = ev
                topic, env = simzmq.hdr(parts)
                mid = env['mid']
                if mid < 0:
                    continue
                g = owner.split('/')[0]
                port = int(addr.rsplit(':', 1)[1])
                out = self.port2out.get(port, (g, 0))[1]
                key = (g, inc, mid)
                r = self.recs.get(key)
                if r is None:
                    r = self.recs[key] = {'topics': list(env.get('topics') or []), 'frames': {}, 'outs': set(),
                                          'step': step, 'bal': env.get('bal', 0), 'dup': False}
                    self.order.append(key)
                elif r['step'] != step and topic != '//':
                    r['dup'] = True          # the same id published in two different steps
                r['outs'].add(out)
                if topic != '//':
                    t = topic[:-1]
                    t = t[1:] if t.startswith('/') else t
                    tok = SimPipeline._tok_of_parts(parts, 2)
                    r['frames'][t] = tok
                    self.by_tok.setdefault((g, t, tok), []).append((inc, mid))
            elif ev[0] == 'req':
                _, owner, addr, parts, inc, step = ev
                self.reqs.append((owner.split('/')[0], addr, simzmq.req_hdr(parts), inc, step))
        self.n = len(events)


def subscribed(s, topics):
    if s['star']:
        return set(topics)
    if s['all']:
        return {t for t in topics if not t.startswith('_')}
    return set(topics) & {a for a, _ in s['tmap']}


def map_topic(s, t):
    return dict(s['tmap']).get(t, t)


def publisher_of_token(topo: Topo, tok):
    if tok is None:
        return None
    o, q, p = tok
    idx = p % 8 if p else o
    return topo.names[idx - 1] if 1 <= idx <= len(topo.names) else None


def judge_deliveries(topo: Topo, pipe: SimPipeline, plog: PubLog, props):
    """Returns list of (formula name, text, witness) for the deliveries recorded in pipe.delivered."""
    out = []
    for f in topo.names:
        d = topo.filters[f]
        srcs = d['srcs']
        if not srcs:
            continue
        last = {}            # inc -> last delivered id
        lastq = {}           # (inc, origin) -> last q from sync sources
        seen_tokens = {}     # inc -> set of tokens (balanced rejoin: no frame twice)
        eph_last = {}        # (inc, source idx) -> (pub inc, mid)
        for n, rec in enumerate(pipe.delivered[f]):
            inc, did, frames = rec['inc'], rec['id'], rec['frames']
            wit = {'filter': f, 'delivery_no': n, 'delivered': {k: v for k, v in frames.items()}, 'id': did}
            # attribute every delivered topic to a source
            per_src = {i: {} for i in range(len(srcs))}
            stray = []
            for t, tok in frames.items():
                g = publisher_of_token(topo, tok)
                cands = []
                for i, s in enumerate(srcs):
                    if g is not None and s['pub'] != g:
                        continue
                    back = [u for u in _universe(topo, s['pub']) if map_topic(s, u) == t and u in subscribed(s, [u])]
                    if back:
                        cands.append((i, back[0]))
                if not cands:
                    stray.append(t)
                    continue
                cands.sort(key=lambda x: (srcs[x[0]]['eph'], x[0]))
                i, u = cands[0]
                per_src[i][u] = tok
            if stray:
                out.append(('C02_Hidden', f'{f} was handed topic(s) {stray} that no source subscription delivers', wit))
            ids = set()
            origs = {}
            for i, s in enumerate(srcs):
                got = per_src[i]
                g = s['pub']
                eph = s['eph'] > 0
                name = 'C05_EphComplete' if eph else 'C01_ExactTopics'
                if not got:
                    if not eph and not d['srcbal']:
                        # a synchronized source that contributes nothing: some publish of that id must have had no subscribed topic
                        if did is not None and not any(k[0] == g and k[2] == did and not subscribed(s, r['topics'])
                                                       for k, r in plog.recs.items()):
                            out.append((name, f'{f}: synchronized source {g} contributes nothing to the set with id {did} '
                                              f'although it published subscribed topics under that id (or never published it)', wit))
                    continue
                keys = None
                for u, tok in got.items():
                    ks = set(plog.by_tok.get((g, u, tok), []))
                    if not ks:
                        out.append(('C02_Payload', f'{f}: frame {tok} under topic {u!r} from {g} was never published like that', wit))
                        ks = set()
                    keys = ks if keys is None else (keys & ks)
                if not keys:
                    if all(plog.by_tok.get((g, u, tok)) for u, tok in got.items()):
                        out.append((name if eph else 'C01_SameId',
                                    f'{f}: the frames from source {g} were published under different ids: '
                                    f'{ {u: plog.by_tok.get((g, u, tok)) for u, tok in got.items()} }', wit))
                    continue
                key = sorted(keys)[-1] if did is None else (sorted([k for k in keys if k[1] == did]) or sorted(keys))[-1]
                pinc, mid = key
                r = plog.recs[(g, pinc, mid)]
                want = subscribed(s, r['topics'])
                if set(got) != want:
                    out.append((name, f'{f}: source {g} id {mid}: delivered topics {sorted(got)} but the subscribed topics '
                                      f'published under that id are {sorted(want)}', wit))
                if not eph and did is not None and mid != did:
                    out.append(('C02_Payload', f'{f}: the frames from {g} in the set delivered as id {did} are the ones published '
                                               f'under id {mid}, not under id {did}', wit))
                if eph:
                    prev = eph_last.get((inc, i))
                    if prev is not None and prev[0] == pinc and mid < prev[1]:
                        out.append(('C05_EphOrder', f'{f}: ephemeral source {g} delivered id {mid} after {prev[1]}', wit))
                    eph_last[(inc, i)] = (pinc, mid)
                else:
                    ids.add(mid)
                    for tok in got.values():
                        if tok is not None:
                            origs.setdefault(tok[0], set()).add(tok[1])
            if len(ids) > 1 or (ids and did is not None and ids != {did}):
                out.append(('C01_SameId', f'{f} was handed a set combining ids {sorted(ids)} (state id {did})', wit))
            bado = {o: qs for o, qs in origs.items() if len(qs) > 1}
            if bado:
                out.append(('C01_SameOrigin', f'{f} was handed a set descending from different original frames: {bado}', wit))
            has_sync = any(s['eph'] == 0 for s in srcs)
            if has_sync and did is not None:
                nm = 'C07_Rejoin' if d['srcbal'] else 'C02_Order'
                if inc in last and did <= last[inc]:
                    out.append((nm, f'{f} was handed id {did} after id {last[inc]}', wit))
                last[inc] = did
                for o, qs in origs.items():
                    q = max(qs)
                    if (inc, o) in lastq and q <= lastq[(inc, o)] and not bado:
                        out.append((nm, f'{f} was handed original frame {q} of origin {o} after frame {lastq[(inc, o)]}', wit))
                    lastq[(inc, o)] = max(q, lastq.get((inc, o), -1))
                if d['srcbal']:
                    toks = {v for v in frames.values() if v is not None}
                    st = seen_tokens.setdefault(inc, set())
                    if toks & st:
                        out.append(('C07_Rejoin', f'{f} was handed frame(s) {sorted(toks & st)} twice', wit))
                    st |= toks
    return [x for x in out if props is None or x[0] in props]


_UNIV = {}


def _universe(topo: Topo, g):
    """all topic names publisher g may ever publish"""
    key = (id(topo), g)
    if key not in _UNIV:
        _UNIV[key] = set(topo.topic_order) | {HTOPIC}
    return _UNIV[key]


def judge_publishes(topo: Topo, plog: PubLog, props):
    """C07_OneBranch: a balanced publisher sends each frame to exactly one output."""
    out = []
    for (g, inc, mid), r in plog.recs.items():
        if topo.filters[g]['outbal'] and len(r['outs']) != 1:
            out.append(('C07_OneBranch', f'balanced publisher {g} sent id {mid} on outputs {sorted(r["outs"])}',
                        {'publisher': g, 'id': mid, 'outs': sorted(r['outs'])}))
    return [x for x in out if props is None or x[0] in props]


def judge_requests(topo: Topo, plog: PubLog, props):
    """C05(iii): a '??' listener sends no flow-control traffic at all."""
    out = []
    for consumer, addr, h, inc, step in plog.reqs:
        if h.get('mid', 0) == -2:      # OOB (exit messages) is not flow control
            continue
        port = int(addr.rsplit(':', 1)[1]) - 1
        for i, s in enumerate(topo.filters[consumer]['srcs']):
            if s['eph'] == 2 and topo.port(s['pub'], s['out']) == port:
                out.append(('C05_NoTraffic', f"'??' source {s['pub']} of {consumer} sent request {h}", {'consumer': consumer, 'req': h}))
    return [x for x in out if props is None or x[0] in props]


# ---- C03: functional composition ---------------------------------------------------------------------------------------

def expected_inputs(topo: Topo):
    """{filter: [(id, {topic: token})...]} for a fault-free run (mirrors InById / OutById of OFP.tla)."""
    memo_out, memo_in = {}, {}
    order = {t: i for i, t in enumerate(topo.topic_order)}

    def proc(f, seen):
        d = topo.filters[f]
        b = d['beh']
        if not d['nout']:
            return None
        qs = [v[1] for v in seen.values() if v is not None]
        if qs and min(qs) in b['skip']:
            return None
        ren = dict(b['ren'])
        fidx = topo.fidx[f]
        return {ren.get(t, t): (None if v is None else (v[0], v[1], v[2] * 8 + fidx)) for t, v in seen.items() if not t.startswith('_')}

    def out_by_id(g):
        if g in memo_out:
            return memo_out[g]
        d = topo.filters[g]
        b = d['beh']
        res = {}
        if not d['srcs']:
            for n in range(topo.maxseq + 1):
                fr = {t: (topo.fidx[g], n, 0) for t in b['tseq'][n % len(b['tseq'])]}
                if b['hid']:
                    fr[HTOPIC] = None
                res[n] = fr
        else:
            for n, seen in in_by_id(g).items():
                o = proc(g, seen)
                if o is not None:
                    if b['hid']:
                        o[HTOPIC] = None
                    res[n] = o
        memo_out[g] = res
        return res

    def in_by_id(f):
        if f in memo_in:
            return memo_in[f]
        srcs = [s for s in topo.filters[f]['srcs'] if s['eph'] == 0]
        outs = [out_by_id(s['pub']) for s in srcs]
        ids = set(range(topo.maxseq + 1))
        for o in outs:
            ids &= set(o)
        res = {}
        for n in sorted(ids):
            seen = {}
            for s, o in zip(srcs, outs):
                for u in subscribed(s, o[n].keys()):
                    seen[map_topic(s, u)] = o[n][u]
            res[n] = seen
        memo_in[f] = res
        return res
    return {f: sorted(in_by_id(f).items()) for f in topo.names
            if topo.filters[f]['srcs'] and all(s['eph'] == 0 for s in topo.filters[f]['srcs']) and not topo.filters[f]['srcbal']}


def judge_c03(topo: Topo, pipe: SimPipeline, complete):
    out = []
    exp = expected_inputs(topo)
    for f, want in exp.items():
        got = [(r['id'], r['frames']) for r in pipe.delivered[f]]
        for n, (gid, gfr) in enumerate(got):
            if n >= len(want) or gid != want[n][0] or gfr != want[n][1]:
                out.append(('C03_Prefix', f'{f}: input #{n} is id {gid} {gfr}, the composition of the upstream filters gives '
                                          f'{want[n] if n < len(want) else "nothing more"}',
                            {'filter': f, 'n': n, 'got': [gid, gfr], 'expected': list(want[n]) if n < len(want) else None}))
                break
        else:
            if complete and len(got) < len(want):
                out.append(('C03_Complete', f'{f}: received {len(got)} of {len(want)} frames; first missing id {want[len(got)][0]}',
                            {'filter': f, 'got_ids': [g[0] for g in got], 'expected_ids': [w[0] for w in want]}))
    return out


def judge_lazy(topo: Topo, pipe: SimPipeline):
    """a deferred (callable) result is evaluated only at the moment it is actually sent: same scheduler step as the publish"""
    out = []
    evs = pipe.world.events
    pubs = {}
    for ev in evs:
        if ev[0] == 'pub':
            topic, env = simzmq.hdr(ev[3])
            tok = SimPipeline._tok_of_parts(ev[3], 2)
            if tok is not None:
                pubs.setdefault((ev[1].split('/')[0], tok[1]), ev[5])
    for ev in evs:
        if ev[0] == 'eval':
            _, f, q, step = ev
            if topo.filters[f]['beh']['lazy']:
                ps = pubs.get((f, q))
                if ps is not None and ps != step:
                    out.append(('C03_Lazy', f'{f}: deferred frame {q} evaluated at step {step} but published at step {ps}',
                                {'filter': f, 'q': q, 'eval_step': step, 'pub_step': ps}))
    return out

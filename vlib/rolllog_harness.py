"""Shared harness for C13 / C14: real `RollLog` objects in a scratch directory, with

* a controlled clock (`rolllog.time`, `rolllog.datetime` are module globals of the code under test),
* an observed / faulty file system (`rolllog.open`, `rolllog.os`): creation of log files (did the name exist? what was
  in it?), unlinks, and - for C14 - a crash injected at the n-th file-system operation of write_head,
* a codec that renders the specification's records (id, size in cells) as real payloads for the four modes and parses
  what read()/read_block() return and what is on disk back into cells,
* `Replayer`: executes labels of spec/rolllog/RollLog.tla on the real objects and projects the real world into the
  vocabulary of `Obs` (RollLogCover.tla),
* `Monitor`: the C13 step formulas of RollLog.tla (StepExactlyOnce, StepBudget, StepNewestKept, StepNoOverwrite)
  mirrored in Python and evaluated on what the real code did (real directory, real return values).

Nothing here imports the code under test before common.use_repo() was called by the check.
"""
from __future__ import annotations

import builtins
import json
import os
import re
import shutil
import tempfile

from . import common

BASE = 1_700_000_000.0
MODES = ('txt', 'json', 'binl', 'bin')
W = 'w'
UNKNOWN = -1


class Crash(BaseException):
    """The process dies here (C14).  BaseException: no `except Exception` of the code under test may swallow it."""


# ---------------------------------------------------------------------------------------------------------------------
# codec: record (id, cells) <-> payload; one cell = `unit` bytes, every cell carries "<id:03d><cell index>"

_B36 = '0123456789abcdefghijklmnopqrstuvwxyz'


class Codec:
    def __init__(self, mode, unit=8):
        assert unit >= 8 and mode in MODES
        self.mode, self.unit = mode, unit

    def raw(self, rid, cells):
        """bytes of record `rid` as they must appear in the file"""
        out = []
        for j in range(cells):
            pre = '"' if (self.mode == 'json' and j == 0) else ''
            lastc = j == cells - 1
            post = ('"\n' if self.mode == 'json' else ';' if self.mode == 'bin' else '\n') if lastc else ''
            code = f'{rid:03d}{_B36[j]}'
            fill = self.unit - len(pre) - len(code) - len(post)
            pad = '.' * fill
            if self.mode in ('txt', 'binl') and fill:
                # line-oriented records may hold any character but '\n': every record carries a '\r' (a line boundary for
                # str.splitlines / universal newlines, not for the log) - odd records right before their '\n'
                pad = pad[:-1] + '\r' if rid % 2 else '\r' + pad[1:]
            out.append(pre + code + pad + post)
        return ''.join(out).encode()

    def value(self, rid, cells):
        """what the caller passes to write()"""
        raw = self.raw(rid, cells)
        if self.mode == 'txt':
            return raw[:-1].decode()
        if self.mode == 'binl':
            return raw[:-1]
        if self.mode == 'json':
            return json.loads(raw.decode())
        # bin: any buffer is a record - bytes, a bytearray, a buffer whose items are wider than one byte / has two dimensions
        if rid % 3 == 1:
            return bytearray(raw)
        if rid % 3 == 2:
            import numpy as np
            return np.frombuffer(raw, np.uint8).reshape(cells, self.unit)
        return raw

    def cells_of_raw(self, raw):
        """file bytes -> (list of record ids, one per cell; ok flag).  ok = False when the bytes are not a whole number
        of well-formed cells."""
        u = self.unit
        ids, ok = [], len(raw) % u == 0
        for k in range(0, len(raw) - len(raw) % u, u):
            cell = raw[k:k + u].decode('latin1')
            if cell.startswith('"'):
                cell = cell[1:]
            m = re.match(r'(\d{3})([0-9a-z])', cell)
            if not m:
                ok = False
                ids.append(0)
            else:
                ids.append(int(m.group(1)))
        return ids, ok

    def raw_of_return(self, ret, block):
        """value returned by read()/read_block() -> the bytes it stands for"""
        if ret is None:
            return b''
        m = self.mode
        if m == 'bin':
            return bytes(ret)
        items = ret if block else [ret]
        out = b''
        for it in items:
            if m == 'txt':
                out += it.encode() + b'\n'
            elif m == 'binl':
                out += bytes(it) + b'\n'
            else:
                out += json.dumps(it, separators=(',', ':')).encode() + b'\n'
        return out


# ---------------------------------------------------------------------------------------------------------------------
# the world: scratch directory + clock + observed file system

class World:
    """One scratch directory with real RollLog objects.  Only one World is active per process (module globals)."""

    def __init__(self, mode, unit=8, step=1.0, utc=True):
        common.use_repo()
        from openfilter.filter_runtime import rolllog as R
        self.R = R
        self.mode, self.unit, self.step, self.utc = mode, unit, step, utc
        self.codec = Codec(mode, unit)
        self.root = tempfile.mkdtemp(prefix='verif_rolllog_')
        self.logs = os.path.join(self.root, 'logs')
        os.makedirs(self.logs)
        self.head = os.path.join(self.root, 'head.json')
        self.now = self.ts_of(1)
        self.events = []            # file-system events of the current step
        self.fault_at = None        # C14: raise Crash at the n-th fault point
        self.fault_n = 0
        self.fault_partial = 0      # bytes of an unflushed write that reach the temp file when the crash hits
        self.fault_log = []         # names of the fault points passed in the current save
        self._orig = (R.time, R.datetime, getattr(R, 'open', None), R.os)
        world = self
        _dt = self._orig[1]

        class FakeDT(_dt):
            @classmethod
            def now(cls, tz=None):
                return _dt.fromtimestamp(world.now, tz)

        class OSProxy:
            def __getattr__(self, k):
                return getattr(os, k)

            @staticmethod
            def unlink(path, *a, **k):
                if str(path).startswith(world.head):          # part of saving the position: a crash point
                    world._fault('unlink')
                else:
                    world.events.append(('unlink', os.path.basename(path), os.path.exists(path)))
                return os.unlink(path, *a, **k)

            remove = unlink

            @staticmethod
            def rename(a, b):
                world._fault('rename')
                return os.rename(a, b)

            replace = rename

            # the same crash points when the position is written through file descriptors (os.open / os.write / os.close):
            # os.write reaches the kernel at once - a process crash before it leaves nothing, after it everything
            @staticmethod
            def open(path, flags, *a, **k):
                if isinstance(path, str) and path.startswith(world.head) and flags & (os.O_WRONLY | os.O_RDWR):
                    world._fault('open')
                    fd = os.open(path, flags, *a, **k)
                    world.head_fds.add(fd)
                    return fd
                return os.open(path, flags, *a, **k)

            @staticmethod
            def write(fd, data):
                if fd in world.head_fds:
                    world._fault('write')
                return os.write(fd, data)

            @staticmethod
            def close(fd):
                if fd in world.head_fds:
                    world.head_fds.discard(fd)
                    try:
                        world._fault('close')
                    except Crash:
                        os.close(fd)
                        raise
                return os.close(fd)

        self.head_fds = set()
        R.time = lambda: world.now
        R.datetime = FakeDT
        R.os = OSProxy()
        R.open = self._open

    # -- clock ----------------------------------------------------------------------------------------------------------
    def ts_of(self, tick):
        return BASE + tick * self.step

    def us_of(self, tick):
        return int(self.ts_of(tick) * 1_000_000)

    # -- file system ---------------------------------------------------------------------------------------------------
    def _fault(self, name):
        self.fault_n += 1
        self.fault_log.append(name)
        if self.fault_at is not None and self.fault_n == self.fault_at:
            raise Crash(name)

    def _open(self, path, mode='r', *a, **k):
        world = self
        if isinstance(path, str) and path.startswith(self.head) and any(c in mode for c in 'wax+'):
            # the head file or its temp file opened for writing: every file-system operation on it is a crash point
            world._fault('open')
            f = builtins.open(path, mode, *a, **k)
            return _FaultyFile(world, f)
        if isinstance(path, str) and os.path.dirname(path) == self.logs and 'w' in mode:
            existed = os.path.exists(path)
            old = builtins.open(path, 'rb').read() if existed else b''
            world.events.append(('create', os.path.basename(path), existed, old,
                                 os.stat(path).st_ino if existed else 0))
        return builtins.open(path, mode, *a, **k)

    def close(self):
        R = self.R
        R.time, R.datetime, R.os = self._orig[0], self._orig[1], self._orig[3]
        if self._orig[2] is None:
            try:
                del R.open
            except AttributeError:
                pass
        else:
            R.open = self._orig[2]
        shutil.rmtree(self.root, ignore_errors=True)

    def __enter__(self):
        return self

    def __exit__(self, *a):
        self.close()

    # -- the real directory --------------------------------------------------------------------------------------------
    def listing(self):
        """sorted [(name, bytes)] of the log files on disk"""
        out = []
        for n in sorted(os.listdir(self.logs)):
            with builtins.open(os.path.join(self.logs, n), 'rb') as f:
                out.append((n, f.read()))
        return out

    @staticmethod
    def us_of_name(name):
        return int(os.path.basename(name)[:16])


class _FaultyFile:
    """The temp file of write_head: write() is buffered (nothing on disk until close), close() flushes.  A crash at
    `write` or `close` leaves the first `fault_partial` bytes of the buffer in the file."""

    def __init__(self, world, f):
        self.w, self.f, self.buf = world, f, ''

    def write(self, s):
        try:
            self.w._fault('write')
        except Crash:
            self._spill(s)
            raise
        self.buf += s
        return len(s)

    def _spill(self, extra=''):
        data = (self.buf + extra)[:self.w.fault_partial]
        self.f.write(data)
        self.f.close()

    def close(self):
        try:
            self.w._fault('close')
        except Crash:
            self._spill()
            raise
        self.f.write(self.buf)
        self.f.close()

    def __enter__(self):
        return self

    def __exit__(self, et, ev, tb):
        if et is not None and issubclass(et, Crash):
            return False
        self.close()
        return False


# ---------------------------------------------------------------------------------------------------------------------
# Monitor: the C13 step formulas on real observations

OVERWRITE_KIND = 'overwrite_same_or_earlier_timestamp'


class Monitor:
    """Mirror of RollLog.tla's property section.  All inputs are facts of the real execution: return values of
    read()/read_block(), the real directory, file-system events seen by the wrapped open()/os.unlink()."""

    def __init__(self, world, autoref, total_bytes):
        self.w = world
        self.autoref = set(autoref)          # objects that look at the directory themselves (AutoRef)
        self.total_bytes = total_bytes
        self.recsz = {}                      # id -> cells                                     (recsz)
        self.last = {}                       # obj -> id | 0 | UNKNOWN                          (last)
        self.poscur = {}                     # obj -> last at the time of tell()                (pos.cur)
        self.destroyed = set()               # ids wiped by a truncating open                   (destroyed)
        self.taint_ids = set()               # ids in files created with a timestamp <= an earlier one, or destroyed
        self.taint_names = set()
        self.names_ever = set()
        self.cur_name = None                 # the file that holds the newest record
        self.frac_seen = False               # a caller-given timestamp had a sub-microsecond fraction
        self.positioned = {}                 # obj -> how it was last positioned ('start' | 'end' | 'pos' | 'new')
        self.violations = []                 # (formula, text, sig)
        self.counts = {}

    def _count(self, k):
        self.counts[k] = self.counts.get(k, 0) + 1

    def on_disk(self):
        ids = set()
        for _, raw in self.w.listing():
            ids |= set(self.w.codec.cells_of_raw(raw)[0])
        ids.discard(0)
        return ids

    def _viol(self, formula, text, sig):
        self.violations.append((formula, text, sig))

    # -- write ---------------------------------------------------------------------------------------------------------
    def after_write(self, rid, cells, events):
        self.recsz[rid] = cells
        for e in events:
            if e[0] == 'create':
                _, name, existed, old, _ino = e
                us = World.us_of_name(name)
                earlier = any(World.us_of_name(n) >= us for n in self.names_ever)
                if earlier:
                    self.taint_names.add(name)
                self.names_ever.add(name)
                self.cur_name = name
                self._count('rollover')
                if existed:                                           # StepNoOverwrite
                    lost = set(self.w.codec.cells_of_raw(old)[0]) - {0}
                    self.destroyed |= lost
                    self.taint_ids |= lost
                    self._count('overwrite')
                    self._viol('C13_NoOverwrite',
                               f'roll-over opened the existing log file {name} for writing; records {sorted(lost)} '
                               f'destroyed', {'kind': OVERWRITE_KIND, 'formula': 'NoOverwrite'})
        if self.cur_name in self.taint_names:
            self.taint_ids.add(rid)
        unl = [e[1] for e in events if e[0] == 'unlink']
        if unl:
            self._count('prune')
        if self.cur_name in unl:                                      # StepNewestKept
            k = OVERWRITE_KIND if self.cur_name in self.taint_names else 'newest_pruned'
            self._viol('C13_NewestKept', f'pruning unlinked {self.cur_name}, the file that holds the newest record',
                       {'kind': k, 'formula': 'NewestKept'})
        lst = self.w.listing()                                        # StepBudget
        tot = sum(len(raw) for _, raw in lst)
        newest = len(lst[-1][1]) if lst else 0
        self._count('budget_checked')
        if tot > self.total_bytes:
            self._count('budget_newest_alone' if tot <= newest else 'budget_over')
        if not (tot <= self.total_bytes or tot <= newest):
            k = OVERWRITE_KIND if (self.taint_names & {n for n, _ in lst}) else 'budget'
            self._viol('C13_Budget', f'after the write the files total {tot} bytes > total_size {self.total_bytes} '
                       f'(newest file {newest} bytes): {[(n[:16], len(r)) for n, r in lst]}',
                       {'kind': k, 'formula': 'Budget'})

    def after_reopen_writer(self, events):
        unl = [e[1] for e in events if e[0] == 'unlink']
        lst = self.w.listing()
        # the constructor's prune must keep the newest file that was there
        if unl and max(unl) >= max([n for n, _ in lst] + unl):
            self._viol('C13_NewestKept', f'constructor pruned the newest file {max(unl)}',
                       {'kind': 'newest_pruned', 'formula': 'NewestKept'})

    # -- read ----------------------------------------------------------------------------------------------------------
    def after_read(self, o, ret, exc, block, ctx=None):
        """ret: value returned; exc: exception raised by read (a torn json line does that)."""
        ctx = ctx or {}
        lst = self.last.get(o, UNKNOWN)
        # a torn record in a history in which a log file was truncated by a roll-over is that defect at work
        trunc = ctx.get('truncated') or self.counts.get('overwrite', 0) > 0
        if exc is not None:
            k = OVERWRITE_KIND if trunc else 'torn'
            self._count('read_exc')
            self._viol('C13_ExactlyOnceInOrder', f'{o}.read raised {exc!r}: torn record',
                       {'kind': k, 'formula': 'ExactlyOnce', 'what': 'torn'})
            return
        raw = self.w.codec.raw_of_return(ret, block)
        cells, ok = self.w.codec.cells_of_raw(raw)
        nrec = len(self.recsz)
        if not cells:
            self._count('read_none')
            if ret is not None and raw:
                self._viol('C13_ExactlyOnceInOrder', f'{o} got unparseable data {raw!r}',
                           {'kind': OVERWRITE_KIND if trunc else 'torn', 'formula': 'ExactlyOnce', 'what': 'torn'})
                return
            if (o in self.autoref or o == W) and lst != UNKNOWN and ctx.get('unchanged'):      # NoneOK
                ondisk = self.on_disk()
                missed = sorted(k for k in range(1, nrec + 1) if k > lst and k in ondisk)
                if missed:
                    known = set(missed) <= self.taint_ids or ctx.get('truncated')
                    self._viol('C13_ExactlyOnceInOrder',
                               f'{o} was told there is nothing more after record {lst}, but records {missed} are on '
                               f'disk', {'kind': OVERWRITE_KIND if known else 'stall', 'formula': 'ExactlyOnce',
                                         'what': 'none_but_more'})
            return
        self._count('read_chunk')
        ids = sorted(set(cells))
        involved = set(ids) | ({lst} if lst > 0 else set())
        # ChunkWhole
        whole = ok and all(cells[i] <= cells[i + 1] for i in range(len(cells) - 1)) and \
            all(k in self.recsz and cells.count(k) == self.recsz[k] for k in ids)
        first, lastid = cells[0], cells[-1]
        bad = None
        if not whole:
            bad = ('torn', f'{o} got a chunk that is not a sequence of whole records in order: cells {cells}')
        elif lst != UNKNOWN and first <= lst:                         # ChunkNext
            bad = ('dup_or_reorder', f'{o} got record {first} after record {lst}')
        else:                                                         # ChunkNoSkip
            lo = first if lst == UNKNOWN else lst
            passed = [k for k in range(1, nrec + 1) if k not in ids and lo < k < lastid]
            if passed:
                self._count('read_passed_over')
                ondisk = self.on_disk()
                guilty = [k for k in passed if k in ondisk or k in self.destroyed]
                involved |= set(passed)
                if guilty:
                    bad = ('skip', f'{o} got record(s) {ids} after {lst}: passed over {guilty} which '
                                   f'{"are on disk" if set(guilty) & ondisk else "were destroyed by an overwrite"}')
        if bad:
            what, text = bad
            known = bool(involved & self.taint_ids) or ctx.get('truncated') or (what == 'torn' and trunc)
            sig = {'kind': OVERWRITE_KIND if known else what, 'formula': 'ExactlyOnce', 'what': what}
            if not known and what == 'skip':
                sig['reader_autorefresh'] = o in self.autoref
                sig['current_file_vanished'] = bool(ctx.get('current_vanished'))
            if not known and what == 'dup_or_reorder':
                sig['writer_object'] = o == W
                sig['after_seek_to_saved_pos'] = self.positioned.get(o) == 'pos'
                sig['fractional_timestamp_given'] = self.frac_seen
            self._viol('C13_ExactlyOnceInOrder', text, sig)
        self.last[o] = lastid

    # -- positioning ---------------------------------------------------------------------------------------------------
    def after_tell(self, o):
        self.poscur[o] = self.last.get(o, UNKNOWN)

    def after_seek(self, o, how):
        self.positioned[o] = ('start', 'end', 'pos')[how]
        self.last[o] = 0 if how == 0 else UNKNOWN if how == 1 else self.poscur.get(o, UNKNOWN)

    def after_reopen(self, o):
        self.positioned[o] = 'new'
        self.last[o] = UNKNOWN
        self.poscur.pop(o, None)


# ---------------------------------------------------------------------------------------------------------------------
# Replayer: labels of RollLog.tla on real objects

class Replayer:
    """Executes labels (a, o, x, y) on real RollLog objects and keeps the Monitor informed."""

    def __init__(self, world, fsz, tsz, readers=('r1', 'r2'), autoref=('r1',), slack=None, autocreate=True):
        """fsz/tsz in cells.  `slack` = (df, dt): file_size = fsz*unit - df with 0 <= df < unit, total_size =
        tsz*unit + dt with 0 <= dt < unit: the same thresholds for sizes that are multiples of the unit."""
        self.w = world
        u = world.unit
        df, dt = slack or (0, 0)
        self.file_bytes = max(1, fsz * u - df) if fsz > 0 else 0
        self.total_bytes = tsz * u + dt
        self.fsz, self.tsz = fsz, tsz
        self.readers, self.autoref = tuple(readers), tuple(autoref)
        self.mon = Monitor(world, autoref, self.total_bytes)
        self.nrec = 0
        self.saved = {}                # obj -> tell() result
        self.bind = {}                 # real file name -> model ts (learned at creation)
        self.objs = {}
        self.trunc_flag = {}           # obj -> its open read file was truncated by an overwrite
        self.bump_binding = False      # no model expectation at hand and the code does not reuse timestamps: bind new
                                       # names the way the intended design numbers them (newest + 1)
        if autocreate:
            self.objs[W] = self._new(W)
            for r in self.readers:
                self.objs[r] = self._new(r)

    def _new(self, o, head=None):
        RL = self.w.R.RollLog
        if o == W:
            return RL(self.w.logs, self.w.mode, file_size=self.file_bytes, total_size=self.total_bytes,
                      utc=self.w.utc)
        # the size thresholds mean nothing to a reader: r1 is given a file_size below every file of the writer, r2 the default
        kw = {'file_size': 1} if o == 'r1' else {}
        return RL(self.w.logs, self.w.mode, rdonly=True, autorefresh=o in self.autoref, utc=self.w.utc, head=head, **kw)

    # -- one label -----------------------------------------------------------------------------------------------------
    def do(self, lab):
        """returns the real observation of the step: dict(ret, exc, events, cells).  An exception raised by the code
        under test in a call other than read() ends the history (out['fatal']): it is an observation, not a failure
        of the harness."""
        try:
            return self._do(lab)
        except (Crash, common.MachineryError):
            raise
        except Exception as e:   # noqa
            if lab[0] in ('write', 'writenf'):
                # the record may or may not have reached the file; the monitor learns about the events seen so far
                self.mon.after_write(self.nrec, lab[2], self.w.events)
            return {'ret': None, 'exc': e, 'cells': [], 'events': self.w.events, 'fatal': True}

    def _do(self, lab):
        a, o, x, y = lab
        w = self.w
        w.events = []
        out = {'ret': None, 'exc': None, 'cells': [], 'events': w.events}
        if a == 'flush':
            self.objs[W].flush()
        elif a in ('write', 'writenf'):
            kw = {'flush': False} if a == 'writenf' else {}
            self.nrec += 1
            val = w.codec.value(self.nrec, x)
            prev = max([self.ts_of_name(lf.path) for lf in self.objs[W].logfiles], default=0)
            if y >= 100:       # a caller-given float timestamp with a sub-microsecond fraction (same file name)
                tsf = w.ts_of(y - 100) + 5e-7
                if int(tsf * 1_000_000) != w.us_of(y - 100) or tsf == w.ts_of(y - 100):
                    raise common.MachineryError('cannot render a sub-microsecond fraction')
                n = self.objs[W].write(val, tsf, **kw)
                self.mon.frac_seen = True
            elif y:
                n = self.objs[W].write(val, w.ts_of(y), **kw)
            else:
                n = self.objs[W].write(val, **kw)
            out['ret'] = n
            if self.bump_binding:
                for e in w.events:
                    if e[0] == 'create' and not e[2] and e[1] not in self.bind:
                        st = self.ts_of_name(e[1])
                        self.bind[e[1]] = st if st > prev else prev + 1
            self.mon.after_write(self.nrec, x, w.events)
            # a truncating open hits every reader that has that inode open
            for e in w.events:
                if e[0] == 'create' and e[2]:
                    for k, ob in self.objs.items():
                        f = ob.read_file
                        if f and not f.closed and os.fstat(f.fileno()).st_ino == e[4]:
                            self.trunc_flag[k] = True
        elif a in ('read', 'readblock'):
            ob = self.objs[o]
            block = a == 'readblock' or w.mode == 'bin'
            ctx = {'truncated': self.trunc_flag.get(o, False), 'current_vanished': self._current_vanished(ob)}
            before = self._reader_state(ob)
            try:
                ret = ob.read_block() if a == 'readblock' else ob.read()
            except Crash:
                raise
            except Exception as e:     # noqa - an exception of the code under test is an observation
                out['exc'] = e
                ret = None
            out['ret'] = ret
            ctx['unchanged'] = before == self._reader_state(ob)
            if out['exc'] is None:
                out['cells'] = w.codec.cells_of_raw(w.codec.raw_of_return(ret, block))[0]
            self.mon.after_read(o, ret, out['exc'], block, ctx)
        elif a == 'tell':
            self.saved[o] = self.objs[o].tell()
            out['ret'] = self.saved[o]
            self.mon.after_tell(o)
        elif a == 'seek':
            p = ('start', 0) if x == 0 else ('end', 0) if x == 1 else self.saved[o]
            self.objs[o].seek(p)
            self.trunc_flag[o] = False
            self.mon.after_seek(o, x)
        elif a == 'refresh':
            self.objs[o].refresh()
        elif a == 'close':
            self.objs[o].close()
        elif a == 'reopen':
            self.objs[o] = self._new(o)
            self.saved.pop(o, None)
            self.trunc_flag[o] = False
            self.mon.after_reopen(o)
            if o == W:
                self.mon.after_reopen_writer(w.events)
        elif a == 'delete':
            name = self.name_of_ts(x)
            if name is None:
                raise common.MachineryError(f'delete of ts {x}: no such file on disk')
            os.unlink(os.path.join(w.logs, name))
        elif a == 'tick':
            w.now = w.ts_of(x)
        else:
            raise common.MachineryError(f'unknown label {lab}')
        return out

    @staticmethod
    def _reader_state(ob):
        f = ob.read_file
        return (tuple(ob.logfiles), ob.read_idx, None if not f else (os.fstat(f.fileno()).st_ino, f.tell()))

    def _current_vanished(self, ob):
        try:
            if ob.read_idx < len(ob.logfiles):
                return not os.path.exists(ob.logfiles[ob.read_idx].path)
        except Exception:
            pass
        return False

    # -- names <-> model timestamps -------------------------------------------------------------------------------------
    def ts_of_name(self, name):
        name = os.path.basename(name)
        if name in self.bind:
            return self.bind[name]
        us = World.us_of_name(name)
        t = round((us / 1_000_000 - BASE) / self.w.step)
        return t if self.w.us_of(t) == us else -us

    def name_of_ts(self, t):
        for n in os.listdir(self.w.logs):
            if self.ts_of_name(n) == t:
                return n
        return None

    def learn(self, out, newts):
        for e in out['events']:
            if e[0] == 'create' and newts:
                self.bind[e[1]] = newts

    # -- projection into Obs (RollLogCover.tla) ------------------------------------------------------------------------
    def project(self, out=None):
        w, u = self.w, self.w.unit
        d = []
        for n, raw in w.listing():
            cells, ok = w.codec.cells_of_raw(raw)
            d.append({'ts': self.ts_of_name(n), 'c': cells if ok else cells + ['?']})
        d.sort(key=lambda e: e['ts'])
        objs = {}
        for o, ob in self.objs.items():
            closed = ob.read_file is False
            f = ob.read_file if ob.read_file not in (None, False) else None
            linked = False
            if f is not None and ob.read_idx < len(ob.logfiles):
                try:
                    linked = os.stat(ob.logfiles[ob.read_idx].path).st_ino == os.fstat(f.fileno()).st_ino
                except OSError:
                    linked = False
            objs[o] = {'lf': [{'ts': self.ts_of_name(lf.path), 'sz': _div(lf.size, u),
                              'fr': lf.timestamp * 1_000_000 != World.us_of_name(lf.path) and
                              int(lf.timestamp * 1_000_000) == World.us_of_name(lf.path)} for lf in ob.logfiles],
                       'ridx': ob.read_idx, 'open': f is not None, 'off': _div(f.tell(), u) if f is not None else 0,
                       'linked': linked, 'closed': closed}
            p = self.saved.get(o)
            objs[o]['pos'] = ({'k': 'none', 'ts': 0, 'off': 0} if p is None else
                              {'k': 'start', 'ts': 0, 'off': 0} if p[0] == 'start' else
                              {'k': 'end', 'ts': 0, 'off': 0} if p[0] == 'end' else       # the documented special value of seek()
                              {'k': 'file', 'ts': self.ts_of_name(p[0]),
                               'off': _div(p[1], u) if isinstance(p[1], int) else str(p[1])})
        wo = self.objs[W]
        res = {'dir': d, 'objs': objs, 'wopen': wo.write_file not in (None, False),
               'total': _div(wo.logfiles_size, u)}
        if out is not None:
            res['chunk'] = out['cells']
        return res


def _div(n, u):
    return n // u if n % u == 0 else n / u


# ---------------------------------------------------------------------------------------------------------------------
# comparing a projection with the specification's Obs

def norm_obs(obs):
    """parsed TLA+ Obs value -> the shape produced by Replayer.project()"""
    objs = {}
    for o, v in obs['objs'].items():
        objs[o] = {'lf': [{'ts': e['ts'], 'sz': e['sz'], 'fr': e['fr']} for e in v['lf']], 'ridx': v['ridx'],
                   'open': v['open'],
                   'off': v['off'] if v['open'] else 0, 'linked': v['linked'], 'closed': v['closed'],
                   'pos': dict(v['pos'])}
    return {'dir': [{'ts': e['ts'], 'c': list(e['c'])} for e in obs['dir']], 'objs': objs, 'wopen': obs['wopen'],
            'total': obs['total'], 'chunk': list(obs['ev']['chunk'])}


def diff_obs(exp, got, torn_exc=False):
    """first difference between expected (norm_obs) and real projection, or None"""
    for k in ('dir', 'wopen', 'total'):
        if exp[k] != got[k]:
            return f'{k}: spec {exp[k]} code {got[k]}'
    if not torn_exc and exp['chunk'] != got.get('chunk', []):
        return f'chunk: spec {exp["chunk"]} code {got.get("chunk")}'
    for o in exp['objs']:
        e, g = exp['objs'][o], got['objs'].get(o)
        if g is None:
            return f'object {o} missing'
        if e['closed'] and g['closed']:
            continue
        for f in ('closed', 'lf', 'ridx', 'open', 'off', 'linked', 'pos'):
            if e[f] != g[f]:
                return f'{o}.{f}: spec {e[f]} code {g[f]}'
    return None


# ---------------------------------------------------------------------------------------------------------------------
# parsing what RollLogCover's Emit prints

_EMIT = re.compile(r'^"(<<<<.*)"\s*$')


def parse_emit(output):
    """TLC stdout -> {path (tuple of labels): Obs dict}; ToString output is one line per transition."""
    nodes = {}
    for line in output.splitlines():
        m = _EMIT.match(line)
        if not m:
            continue
        s = m.group(1).replace('\\"', '"').replace('\\\\', '\\')
        v = common.parse_value(s)
        path, obs, flags = v
        obs['flags'] = flags
        nodes[tuple(tuple(l) for l in path)] = obs
    return nodes


def maximal_paths(nodes):
    """the paths that are not a proper prefix of another one"""
    prefixes = set()
    for p in nodes:
        if len(p) > 1:
            prefixes.add(p[:-1])
    return sorted(p for p in nodes if p not in prefixes)


# ---------------------------------------------------------------------------------------------------------------------
# replaying a set of emitted paths

def replay_path(path, nodes, mode, unit=8, step=1.0, slack=(0, 0), utc=True):
    """Replay one label path on fresh real objects; compare the projection with Obs at every node that has one.
    Returns dict(steps, compared, drift (first difference or None), violations [(formula, text, sig, step)],
    counts)."""
    assert path[0][0] == 'init'
    first = nodes.get(path[:2]) if len(path) > 1 else None
    fsz, tsz = path[0][2], path[0][3]
    readers = sorted(o for o in first['objs'] if o != W) if first else \
        sorted({l[1] for l in path} - {W, 'env'})
    res = {'steps': 0, 'compared': 0, 'drift': None, 'violations': [], 'counts': {}, 'labels': {}}
    with World(mode, unit, step, utc) as world:
        rp = Replayer(world, fsz, tsz, readers=readers,
                      autoref=[o for o in readers if o == 'r1'], slack=slack)
        nv = 0
        for i, lab in enumerate(path):
            if i == 0:
                continue
            try:
                out = rp.do(lab)
            except common.MachineryError as e:
                if res['drift'] is None:
                    res['drift'] = (i, f'label {lab} not executable on the real world: {e}')
                break
            if out.get('fatal'):
                if res['drift'] is None:
                    res['drift'] = (i, f'{lab} raised {out["exc"]!r} in the code under test')
                for v in rp.mon.violations[nv:]:
                    res['violations'].append((v[0], v[1], v[2], i))
                break
            res['steps'] += 1
            res['labels'][lab[0]] = res['labels'].get(lab[0], 0) + 1
            exp = nodes.get(path[:i + 1])
            if exp is not None and res['drift'] is None:
                rp.learn(out, exp['ev']['newts'])
                d = diff_obs(norm_obs(exp), rp.project(out), torn_exc=out['exc'] is not None)
                res['compared'] += 1
                if d:
                    res['drift'] = (i, f'after {lab}: {d}')
            if out['exc'] is not None:
                res['exc_seen'] = True       # the caller got an exception instead of data: `last` cannot be mirrored
            if exp is not None and res['drift'] is None and 'flags' in exp and not res.get('exc_seen'):
                mine = {v[0] for v in rp.mon.violations[nv:]}
                spec = {n for n, k in (('C13_ExactlyOnceInOrder', 'eo'), ('C13_Budget', 'bu'), ('C13_NewestKept', 'nk'),
                                       ('C13_NoOverwrite', 'no')) if not exp['flags'][k]}
                res['flag_checks'] = res.get('flag_checks', 0) + 1
                if mine != spec:
                    res['flag_mismatch'] = (i, f'after {lab}: step formulas false in the spec {sorted(spec)}, '
                                               f'false for the monitor {sorted(mine)}')
            for v in rp.mon.violations[nv:]:
                res['violations'].append((v[0], v[1], v[2], i))
            nv = len(rp.mon.violations)
        res['counts'] = rp.mon.counts
    return res

#!/venv/bin/python
"""Regenerates the TLC-derived stored schedules under spec/proto/schedules/ (long searches: minutes of TLC each).

  C07_balanced_lock_lost_on_enter.json   TLC -simulate counterexample of design mutation bal_unlock_on_enter on Balance2Multi/Spec
  C01_relay_rejoin_amnesia.json          NOT TLC-derived: 900 s of TLC search (C01b_state on TeeRejoinRelay) found no behaviour; the
                                          schedule was found by seeded random search on an implementation with the bug
                                          (seeded change C01_2) and is kept as a regression schedule.
  C07_relay_rejoin_stale_floor.json, C07_worker_close_resets_floor.json
                                          likewise found by seeded random search on implementations with the bug (seeded changes
                                          C07_3, C07_4).
"""
import json, os, sys
sys.path.insert(0, os.path.dirname(os.path.dirname(os.path.abspath(__file__))))
from vlib import common, proto, topos

JOBS = [('C07_balanced_lock_lost_on_enter', topos.balance2_multi(maxseq=3), 'Spec', 'bal_unlock_on_enter', 'NoViolation', {})]
for name, topo, spec, mut, inv, bounds in JOBS:
    with proto.ModelDir(topo, **bounds) as md:
        res = md.run('mc', topo.mc_cfg(spec, defects=[mut], view=False, invariants=(inv,)), timeout=3000,
                     simulate='num=100000000', depth=300, seed=3)
    if not res.violated:
        print(name, 'no counterexample found', res.wall_s)
        continue
    ce = [s for _, s in common.parse_counterexample(res.out) if 'lbl' in s]
    out = os.path.join(common.SPEC, 'proto', 'schedules', name + '.json')
    json.dump({'topo_def': topo.to_dict(), 'labels': [list(s['lbl']) for s in ce[1:]],
               'origin': f'TLC counterexample of design mutation {mut} on {topo.name}/{spec} (sim)', 'bad': sorted(ce[-1]['bad'])},
              open(out, 'w'))
    print(name, 'written', len(ce), 'states', res.wall_s, 's')

CONSTANTS
  Defects = {"not_idempotent"}
  K = 1
  PropSet = {"all"}
  ObeySet = {"all"}
  EASet = {"none"}
  WithInterrupt = FALSE
  EarlyExit = TRUE
  Emit = FALSE
  MaxTicks = 1
INIT LInit
NEXT LNext
INVARIANT C18_Wellformed
